"""C15 -- Compile-time constant evaluation agrees with Python (kernel K4).
PyValModel.v (reference semantics, validated against CPython here), LitValModel.v (core.literal_value),
LitValProofs.v, props/C15.v.  See design/C15.md."""
from __future__ import annotations

import ast
import builtins
import json
import os
import random
import time
from collections import Counter
from pathlib import Path

from . import common, c15_tables, c15_worker
from . import c15_terms as T
from . import c15_hunt as H
from . import c15_history as HH
from .c15_worker import _Timeout

PID = "C15"
SHARD = 500
IMPORTS = ("From Coq Require Import List ZArith String.\nImport ListNotations.\nOpen Scope Z_scope.\n"
           "Require Import Pyrefact.Base Pyrefact.Ops Pyrefact.PyValModel Pyrefact.LitValModel.\n")


# ------------------------------------------------------------------------------------------------
# jobs executed inside the forked workers


def enc(v):
    t = type(v)
    if v is None or t is bool or t is str:
        return v
    if t is int:
        return v if v.bit_length() <= T.MAX_INT_BITS else {"o": "int(huge)"}
    if t is tuple or t is list:
        items = [enc(x) for x in v]
        if any(isinstance(i, dict) and "o" in i for i in items):
            return {"o": t.__name__ + "(with " + next(i["o"] for i in items if isinstance(i, dict) and "o" in i) + ")"}
        return {"t" if t is tuple else "l": items}
    return {"o": t.__name__}


def canon(v):
    """type-exact canonical text of a value made of plain data only (no object addresses, no set order), else None"""
    t = type(v)
    if v is None or t in (bool, int, float, complex, str, bytes, range, slice, type(Ellipsis)):
        if t is int and v.bit_length() > T.MAX_INT_BITS:
            return None
        return f"{t.__name__}:{v!r}"
    if t in (tuple, list):
        items = [canon(x) for x in v]
        return None if None in items else f"{t.__name__}:[" + ", ".join(items) + "]"
    if t in (set, frozenset):
        items = [canon(x) for x in v]
        return None if None in items else f"{t.__name__}:{{" + ", ".join(sorted(items)) + "}"
    if t is dict:
        items = [(canon(k), canon(x)) for k, x in v.items()]
        return None if any(a is None or b is None for a, b in items) else "dict:{" + ", ".join(
            f"{a}: {b}" for a, b in items) + "}"
    return None


def dec(j):
    if isinstance(j, dict):
        if "t" in j:
            return tuple(dec(x) for x in j["t"])
        return [dec(x) for x in j["l"]]
    return j


def outcome(j):
    """worker JSON -> ("known", value) | ("other", type) | ("unknown",) | ("crash", class) | ("hang",)"""
    if j[0] == "known":
        if isinstance(j[1], dict) and "o" in j[1]:
            return ("other", j[1]["o"])
        return ("known", dec(j[1]))
    return tuple(j)


def direct_disagreement(r: dict) -> str | None:
    """the property itself, without any model: a value returned by literal_value is the value CPython computes.
    Only values made of plain data are compared (canonical text; sets by content)."""
    lv, py = r.get("lv"), r.get("py")
    if not lv or lv[0] != "known" or lv[2] is None or not py:
        return None
    if py[0] == "known":
        if py[2] is None or py[2] == lv[2]:
            return None
        return f"literal_value returns {lv[2]} but Python computes {py[2]}"
    if py[0] == "crash":
        return f"literal_value returns {lv[2]} but Python raises {py[1]}"
    return None


def _timed(fn):
    import signal
    signal.setitimer(signal.ITIMER_REAL, c15_worker.JOB_TIMEOUT)
    try:
        v = fn()
        return ["known", enc(v), canon(v)]
    except _Timeout:
        return ["hang"]
    except ValueError:
        return ["unknown"]
    except BaseException as e:  # noqa
        return ["crash", type(e).__name__]
    finally:
        signal.setitimer(signal.ITIMER_REAL, 0)


def make_expr_job(mods):
    core = mods["core"]

    def job(src, out):
        node = ast.parse(src, mode="eval").body
        res = {}
        res["lv"] = _timed(lambda: core.literal_value(node))
        res["lv_out"] = out.getvalue()[:200]
        out.seek(0)
        out.truncate()
        code = compile(src, "<expr>", "eval")

        def ev():
            try:
                return eval(code, {"__builtins__": builtins}, {})
            except ValueError as e:
                raise _PyValueError() from e
        r = _timed(ev)
        res["py"] = ["crash", "ValueError"] if r == ["crash", "_PyValueError"] else r
        res["py_out"] = out.getvalue()[:200]
        return res
    return job


class _PyValueError(Exception):
    pass


PROGRAM_PRELUDE = "def f():\n    print('f')\n    return 7\n\n\n"


# an opaque true / false condition for the `elif` shapes (no rule can evaluate it)
ELIF_PRELUDE_T = "import os\nx0 = os.getcwd()\n"
ELIF_PRELUDE_F = "import os\nx0 = os.environ.get('C15_UNSET_VARIABLE')\n"
# constants of the three-operand BoolOp shapes: truthy / falsy, textually different from every generated operand
C3 = {False: "3", True: "0.0"}


def programs_for(src: str) -> dict:
    """end-to-end inputs built around one expression"""
    return {
        "if": f"if {src}:\n    print(1)\nelse:\n    print(2)\n",
        "while": f"while {src}:\n    print(1)\n    break\nprint(3)\n",
        "and": PROGRAM_PRELUDE + f"print({src} and f())\n",
        "or": PROGRAM_PRELUDE + f"print({src} or f())\n",
        "ifexp": f"print(1 if {src} else 2)\n",
        "comp": f"print([i for i in (1, 2) if {src}])\n",
        "val": f"print({src})\n",
        # shapes added by the mutation triage (design/C15-mutation.md)
        "if1": f"if {src}:\n    print(1)\nprint(3)\n",
        "elif_t": ELIF_PRELUDE_T + f"if x0:\n    print(0)\nelif {src}:\n    print(1)\nelse:\n    print(2)\nprint(3)\n",
        "elif_f": ELIF_PRELUDE_F + f"if x0:\n    print(0)\nelif {src}:\n    print(1)\nelse:\n    print(2)\nprint(3)\n",
        **{f"b3_{k}": PROGRAM_PRELUDE + "print(" + (" or " if k & 4 else " and ").join(
            ([C3[bool(k & 2)], src] if k & 1 else [src, C3[bool(k & 2)]]) + ["f()"]) + ")\n" for k in range(8)},
    }


def _run_program(text: str, out):
    """(stdout, exception class) of executing a program"""
    out.seek(0)
    out.truncate()
    import signal
    signal.setitimer(signal.ITIMER_REAL, c15_worker.JOB_TIMEOUT)
    try:
        exec(compile(text, "<prog>", "exec"), {"__name__": "__main__"})
        exc = None
    except _Timeout:
        exc = "hang"
    except BaseException as e:  # noqa
        exc = type(e).__name__
    finally:
        signal.setitimer(signal.ITIMER_REAL, 0)
    # object addresses in reprs differ from run to run
    import re
    return [re.sub(r" at 0x[0-9a-fA-F]+", " at 0x?", out.getvalue())[:400], exc]


def make_program_job(mods):
    """job = (rule name, program text): run the rule in isolation, then execute before / after"""
    main = mods["main"]
    rules = {
        "remove_dead_ifs": mods["fixes"].remove_dead_ifs,
        "delete_unreachable_code": mods["fixes"].delete_unreachable_code,
        "remove_redundant_boolop_values": mods["fixes"].remove_redundant_boolop_values,
        "simplify_boolean_expressions": mods["symbolic_math"].simplify_boolean_expressions,
        "format_code": main.format_code,
        # sites of other owners that share a root cause with a C15 hunt item (bisecting format_code failures)
        "simplify_boolean_expressions_symmath": mods["symbolic_math"].simplify_boolean_expressions_symmath,
        "simplify_math_iterators": mods["symbolic_math"].simplify_math_iterators,
        "replace_functions_with_literals": mods["fixes"].replace_functions_with_literals,
    }

    def job(j, out):
        rule, text = j
        import signal
        mods["core"].parse.cache_clear()
        signal.setitimer(signal.ITIMER_REAL, 4 * c15_worker.JOB_TIMEOUT)
        res = {}
        try:
            new = rules[rule](text)
            res["new"] = new
        except _Timeout:
            res["rule_exc"] = "hang"
        except BaseException as e:  # noqa
            res["rule_exc"] = type(e).__name__
        finally:
            signal.setitimer(signal.ITIMER_REAL, 0)
        res["rule_out"] = out.getvalue()[:200]
        if "new" in res and res["new"] != text:
            res["before"] = _run_program(text, out)
            try:
                res["after"] = _run_program(res["new"], out)
            except SyntaxError:
                res["after"] = ["", "SyntaxError(output)"]
        return res
    return job


def program_verdict(res: dict) -> str | None:
    """the property's own oracle: None = fine, else what is wrong"""
    if res is None or "hang" in res or "died" in res or "worker_error" in res:
        return f"rule did not return: {res}"
    if res.get("rule_out"):
        return f"the rule produced output while refactoring: {res['rule_out']!r}"
    if "rule_exc" in res:
        return f"the rule raised {res['rule_exc']}"
    if "before" in res and res["before"] != res["after"]:
        return f"behaviour changed: before {res['before']} after {res['after']}"
    return None


# ------------------------------------------------------------------------------------------------
# case sets


def exhaustive_cases(tier: str, rnd):
    """seed-independent part; returns (terms, labels)"""
    cases = []
    for t in T.level1_ops(T.ATOMS, pool3=T.ATOMS, chain_pool=T.SMALL):
        cases.append(("L1", t))
    for t in T.call_cases(T.ATOMS):
        cases.append(("call", t))
    for t in T.method_cases(T.ATOMS):
        cases.append(("meth", t))
    n_l1 = len(cases)
    l2 = [("L2", t) for t in T.level2_cases()]
    return cases, l2, n_l1


def witness_terms():
    """the witnesses of the repaired defects (fixed: lines) -- they must agree from now on"""
    L = T.lit
    return [
        ("F15-1", ("bin", "Div", T.C(1), T.C(0))),
        ("F15-1", ("bin", "Add", T.C(1), T.C("a"))),
        ("F15-1", ("cmp", T.C(1), [("Lt", T.C("a"))])),
        ("F15-1", ("cmp", T.C(1), [("In", T.C(1))])),
        ("F15-2", ("call", "sorted", [L([2, 1, 3])], [("reverse", T.C(True))])),
        ("F15-2", ("call", "int", [T.C("10")], [("base", T.C(2))])),
        ("F15-3", ("call", "print", [T.C("x")], [])),
        ("F15-3", ("call", "input", [], [])),
        ("F15-3", ("call", "exit", [], [])),
        ("F15-3", ("call", "open", [T.C("nonexistent")], [])),
    ]


# ------------------------------------------------------------------------------------------------


def write_case_files(wd: Path, tag: str, items):
    """items: list of (term, lv_outcome, py_outcome)"""
    files, shards = [], []
    for k in range(0, len(items), SHARD):
        shard = items[k:k + SHARD]
        body = ";\n ".join(f"({T.gexpr(t)}, {T.glv(l)}, {T.gres(p)})" for (t, l, p) in shard)
        p = wd / f"{tag}_{k // SHARD}.v"
        p.write_text(IMPORTS + f"Definition cases : list (expr * lvres * res val) := [\n {body}\n].\n"
                     "Eval vm_compute in (bad_idx case_ok cases).\n"
                     "Eval vm_compute in (List.length (filter case_claims cases)).\n")
        files.append(p)
        shards.append(shard)
    return files, shards


def parse_count(out: str) -> int:
    import re
    m = re.findall(r"=\s*(\d+)(?:%nat)?\s*:\s*nat", out)
    return int(m[-1]) if m else 0


def suspect_result(r: dict) -> bool:
    """a result that may be due to a slow machine rather than to the code under test"""
    if "hang" in r or "died" in r or "worker_error" in r:
        return True
    if r.get("rule_exc") == "hang" or r.get("lv") == ["hang"] or r.get("py") == ["hang"]:
        return True
    return any(isinstance(r.get(k), list) and len(r[k]) == 2 and r[k][1] == "hang" for k in ("before", "after"))


DET_SCRIPT = r"""
import ast, json, signal, sys, io, os
sys.path.insert(0, sys.argv[1])
from pyrefact import core, logs
logs.set_level(100)
class T(BaseException): pass
def alarm(*a): raise T()
signal.signal(signal.SIGALRM, alarm)
PLAIN = (type(None), bool, int, float, complex, str, bytes, range, slice)
def plain(v):
    if isinstance(v, PLAIN): return True
    if isinstance(v, (tuple, list, set, frozenset)): return all(plain(x) for x in v)
    if isinstance(v, dict): return all(plain(k) and plain(x) for k, x in v.items())
    return False
out = []
sys.stdin = open(os.devnull)
for src in json.load(open(sys.argv[2])):
    sys.stdout = sys.stderr = io.StringIO()
    signal.setitimer(signal.ITIMER_REAL, 2.0)
    try:
        v = core.literal_value(ast.parse(src, mode="eval").body)
        # sets are compared by content, everything else by repr (a repr that contains an address differs)
        if plain(v):
            r = ["known", repr(sorted(map(repr, v))) if isinstance(v, (set, frozenset)) else repr(v)]
        else:
            r = ["known-type", type(v).__name__]
    except ValueError: r = ["unknown"]
    except T: r = ["hang"]
    except BaseException as e: r = ["crash", type(e).__name__]
    finally: signal.setitimer(signal.ITIMER_REAL, 0)
    out.append(r)
sys.stdout = sys.__stdout__
print("DET:" + json.dumps(out))
"""


def determinism_check(srcs, wd) -> list:
    """core.literal_value on the same expressions in fresh interpreters with PYTHONHASHSEED = 1, 2, 3 (own processes,
    2 s timer per expression, /dev/null stdin, scratch cwd): every returned value must be the same in all of them"""
    import subprocess
    import sys
    sb = wd / "sandbox"
    sb.mkdir(exist_ok=True)
    (wd / "det_exprs.json").write_text(json.dumps(srcs))
    (wd / "det_script.py").write_text(DET_SCRIPT)
    procs = []
    for seed in ("1", "2", "3"):
        env = dict(os.environ, PYTHONHASHSEED=seed, PYTHONPATH=str(common.REPO), PYTHONDONTWRITEBYTECODE="1")
        procs.append(subprocess.Popen([sys.executable, str(wd / "det_script.py"), str(common.REPO),
                                       str(wd / "det_exprs.json")], cwd=sb, env=env, stdin=subprocess.DEVNULL,
                                      stdout=subprocess.PIPE, stderr=subprocess.DEVNULL, text=True))
    outs = []
    for p in procs:
        try:
            o, _ = p.communicate(timeout=600)
        except subprocess.TimeoutExpired:
            p.kill()
            o = ""
        line = [l for l in o.splitlines() if l.startswith("DET:")]
        outs.append(json.loads(line[0][4:]) if line else None)
    if any(o is None or len(o) != len(srcs) for o in outs):
        return [{"kind": "determinism-run-failed", "detail": [None if o is None else len(o) for o in outs]}]
    res = []
    for i, src in enumerate(srcs):
        vals = [o[i] for o in outs]
        if any(v[0] == "known" for v in vals) and any(v != vals[0] for v in vals):
            res.append({"kind": "nondeterministic-value", "expr": src, "values_by_hash_seed_1_2_3": vals,
                        "problem": "literal_value returns a value that depends on the hash seed / the process"})
    return res


def evaluate_terms(mods, terms, wd, nproc):
    srcs = [T.to_src(t) for t in terms]
    return c15_worker.run_jobs_retry(srcs, make_expr_job(mods), nproc, str(wd / "sandbox"), suspect_result)


def glist_str(names) -> str:
    return "[" + "; ".join(T.gstr(n) for n in names) + "]"


def _step_signature(step: dict, r: dict):
    """what a step delivered, for the comparison between a fresh process and a process with a history"""
    if r is None:
        return None
    if step["a"] == "lv":
        return r.get("lv")
    return [r.get("new"), r.get("rule_exc")]


def _public_steps(steps: list) -> list:
    return [{k: v for k, v in s.items() if k != "on"} for s in steps]


def history_stage(mods, wd, nproc, hist):
    """round 5 (seed C15-d): every evaluated builtin x every rebinding construct, the source without and the source
    with the rebinding evaluated in BOTH orders, each order in one fresh process (see harness/c15_history.py).
    -> (program failures, expression violations, history-dependent results, model cases, number of steps)"""
    pure = set(mods["constants"].PURE_BUILTIN_FUNCTIONS)
    pairs, uncovered = HH.pairs(pure, quick=False)
    hists, index = [], []
    for p in pairs:
        for order in ("PR", "RP"):
            hists.append(p[order[0]] + p[order[1]])
            index.append((p, order))
    res = HH.run_histories_retry(hists, HH.make_step_job(mods), nproc, str(wd / "sandbox"), suspect_result)
    failures, expr_viol, dependent, cases = [], [], [], []
    hist["history:pairs"] += len(pairs)
    if uncovered:
        hist["history:builtins-without-a-call-in-the-table"] += len(uncovered)
        common.log(f"note: C15 history family has no call for {uncovered} (harness/c15_history.CALLS)")
    for k, ((p, order), h, rs) in enumerate(zip(index, hists, res)):
        other = res[k ^ 1]                  # the opposite order, in which the second source of this history is first
        n1 = len(p[order[0]])
        for i, (s, r) in enumerate(zip(h, rs)):
            second = i >= n1
            fresh = other[i - n1] if second else None
            r = r or {"hang": True}
            differs = second and fresh is not None and _step_signature(s, r) != _step_signature(s, fresh)
            hist[f"history:{s['a']}:{'second' if second else 'first'}"] += 1
            where = {"history": _public_steps(h[:i + 1]), "step": i, "builtin": p["name"], "rebinding": p["kind"],
                     "order": "rebinding source first" if order == "RP" else "rebinding source second"}
            if s["a"] == "lv":
                lvj = r.get("lv") or ["hang"]
                problem = direct_disagreement(r)
                if not problem and (r.get("lv_out") or lvj[0] in ("hang", "crash")):
                    problem = f"literal_value did not return quietly: {lvj[:2]} stdout {r.get('lv_out', '')!r}"
                if problem:
                    expr_viol.append({"kind": "history-expression", "expr": s["expr"], "source": s["src"],
                                      "problem": problem, "in_a_fresh_process": fresh.get("lv") if fresh else None,
                                      **where})
                cases.append((sorted(HH.bound_names(s["src"]) & pure), s["expr"], outcome(lvj), where))
            else:
                v = program_verdict(r)
                if v:
                    f_ = {"expr": p["call"], "shape": f"history/{p['kind']}", "rule": s["rule"], "program": s["src"],
                          "output": r.get("new"), "problem": v}
                    if differs and program_verdict(fresh) is None:
                        # fails only after the other source was handled in the same process: never a known finding
                        f_.update(where, history_only=True,
                                  in_a_fresh_process=_step_signature(s, fresh))
                    failures.append(f_)
            if differs:
                dependent.append({"kind": "history-dependent", "expr": s.get("expr", p["call"]),
                                  "step_result": _step_signature(s, r), "in_a_fresh_process": _step_signature(s, fresh),
                                  "problem": "the same call on the same source gives a different result after another "
                                             "source was handled in the same process: literal_value is a function "
                                             "of (expression, names the file rebinds) only", **where})
    return failures, expr_viol, dependent, cases, sum(map(len, hists))



def check(run: common.Run):
    try:
        _check(run)
    except Exception:  # noqa -- fail closed: a harness error is an alarm, never a silent pass or a bare traceback
        import traceback
        run.violation({"kind": "harness-error", "detail": traceback.format_exc()[-3000:],
                       "explanation": "the C15 harness itself failed (unexpected shape of an implementation output?)"},
                      False)
        run.coverage.setdefault("obligations", 1)
        run.coverage.setdefault("discharged", 0)


def _check(run: common.Run):
    wd = common.workdir(PID)
    try:
        c15_tables.regenerate()
        tables_ok = True
    except Exception as e:  # noqa -- fail closed
        tables_ok = False
        run.violation({"kind": "tables", "detail": str(e)[-1500:],
                       "explanation": "constants.PURE_BUILTIN_FUNCTIONS could not be dumped"}, False)
    stage = {}
    ts = time.time()
    ps = common.proof_step(run, PID, wd)
    stage["proof"] = round(time.time() - ts, 1)
    mods = common.import_impl()
    rnd = random.Random(run.seed)
    nproc = max(2, common.NCPU // 2)
    hist = Counter()
    t0 = time.time()

    # ---- cases
    l1, l2, n_l1 = exhaustive_cases(run.tier, rnd)
    if run.tier == "quick":
        keep = 6000
        l2_all = len(l2)
        # a deterministic shard (every k-th) plus a seeded sample of the rest
        step = max(1, l2_all // (keep // 2))
        det = l2[::step]
        rest = [c for i, c in enumerate(l2) if i % step]
        l2_sweep = det                       # the sweep must not depend on the seed
        l2 = det + rnd.sample(rest, min(len(rest), keep - len(det)))
    else:
        l2_all = len(l2)
        l2_sweep = l2
    prim = [("P", t) for t in T.prim_cases()]
    prim_all = len(prim)
    if run.tier == "quick":
        prim = rnd.sample(prim, 2000)
    labelled = [("W:" + fid, t) for fid, t in witness_terms()] + l1 + l2 + prim
    nrand = 2500 if run.tier == "quick" else 60000
    for _ in range(nrand):
        labelled.append(("R", T.rand_expr(rnd, rnd.choice([2, 3, 3, 4, 5]))))
    terms = [t for _, t in labelled]
    bad_rt = [t for t in terms if not T.roundtrips(t)]
    if bad_rt:
        run.violation({"kind": "harness", "detail": [T.to_src(t) for t in bad_rt[:5]],
                       "explanation": "term printer does not round-trip through ast.parse (harness defect)"}, False)
        terms = [t for t in terms if T.roundtrips(t)]
        labelled = [(l, t) for l, t in labelled if T.roundtrips(t)]

    # ---- evaluate the real code and CPython in isolated workers
    raw = evaluate_terms(mods, terms, wd, nproc)
    t_eval = time.time() - t0
    items, effects, direct = [], [], []
    distinct = set()
    for (label, t), r in zip(labelled, raw):
        if r is None or "lv" not in r:
            lvo, pyo = ("hang",), ("other", "not-run")
            r = r or {}
        else:
            lvo, pyo = outcome(r["lv"]), outcome(r["py"])
        if pyo[0] == "hang":
            pyo = ("other", "hang")
        hist[f"{label.split(':')[0]}:lv={lvo[0]}"] += 1
        hist[f"py={pyo[0]}" + (":" + pyo[1] if pyo[0] == "crash" else "")] += 1
        hist["node:" + t[0]] += 1
        if r.get("lv_out") or lvo[0] in ("hang", "crash"):
            effects.append((label, t, lvo, r.get("lv_out", "")))
        dd = direct_disagreement(r) if not outside_claim(t) else None
        if dd:
            direct.append({"kind": "direct", "expr": T.to_src(t), "problem": dd})
        if lvo[0] == "known":
            distinct.add(T.to_src(t))
        items.append((t, lvo if lvo[0] != "hang" else ("crash", "Hang"), pyo))

    ts = time.time()
    files, shards = write_case_files(wd, "cases", items)
    results = common.run_case_files(files)
    stage["coq_cases"] = round(time.time() - ts, 1)
    disagreements, claims = [], 0
    for p, shard in zip(files, shards):
        rc, out = results[p]
        idx = common.parse_nat_list(out) if rc == 0 else None
        if idx is None:
            disagreements.append({"kind": "eval-failed", "file": p.name, "log": out[-1500:]})
            continue
        claims += parse_count(out)
        for i in idx:
            t, lvo, pyo = shard[i]
            disagreements.append({"kind": "case", "expr": T.to_src(t), "term": T.gexpr(t),
                                  "literal_value": list(map(str, lvo)), "cpython": list(map(str, pyo))})
    for (label, t, lvo, text) in effects:
        d = {"kind": "effect-or-crash", "expr": T.to_src(t), "literal_value": list(map(str, lvo)), "stdout": text}
        if not any(x.get("expr") == d["expr"] for x in disagreements):
            disagreements.append(d)

    for d in direct:
        if not any(x.get("expr") == d["expr"] for x in disagreements):
            disagreements.append(d)

    # ---- raw expressions (sets, floats, dunder methods, iterators ...: outside PyValModel.expr): the property
    # itself -- a value returned by literal_value is CPython's value -- and no effect / crash / hang
    ts = time.time()
    raw_srcs = list(dict.fromkeys(H.RAW_EXPRS))
    raw_res = c15_worker.run_jobs_retry(raw_srcs, make_expr_job(mods), nproc, str(wd / "sandbox"), suspect_result)
    # one process, fixed order: literal_value must be a function of the expression (seed C15-a)
    seq_res = c15_worker.run_jobs_retry(H.SHARED_SUBTERM_SEQUENCE, make_expr_job(mods), 1, str(wd / "sandbox"),
                                        suspect_result)
    for src, r in list(zip(raw_srcs, raw_res)) + list(zip(H.SHARED_SUBTERM_SEQUENCE, seq_res)):
        r = r or {}
        lvj = r.get("lv") or ["hang"]
        hist["raw:lv=" + lvj[0]] += 1
        if lvj[0] == "known":
            distinct.add(src)
        if r.get("lv_out") or lvj[0] in ("hang", "crash"):
            disagreements.append({"kind": "effect-or-crash", "expr": src, "literal_value": lvj[:2],
                                  "stdout": r.get("lv_out", "")})
        dd = direct_disagreement(r)
        if dd:
            disagreements.append({"kind": "direct", "expr": src, "problem": dd})
    # across interpreter processes with different hash seeds (C15-5, C06-0..2): a returned value is the same everywhere
    det = determinism_check(raw_srcs, wd)
    for d in det:
        disagreements.append(d)
    stage["raw"] = round(time.time() - ts, 1)

    # ---- call histories (round 5, seed C15-d): source without / with a rebinding of every evaluated builtin, both
    # orders, one fresh process per order; see harness/c15_history.py
    ts = time.time()
    h_failures, h_expr, h_dependent, h_cases, h_steps = history_stage(mods, wd, nproc, hist)
    disagreements.extend(h_dependent[:20])
    # every literal_value step, whatever its place in its history, against LitValRbModel.lv_rb (rebound set, expr)
    rb_items = []
    for rb, src, lvo, where in h_cases:
        try:
            t = T.of_ast(ast.parse(src, mode="eval").body)
            rb_items.append((f"({glist_str(rb)}, {T.gexpr(t)}, {T.glv(lvo if lvo[0] != 'hang' else ('crash', 'Hang'))})",
                             rb, src, lvo, where))
        except (ValueError, KeyError, AssertionError):
            hist["history:not-in-the-model-language"] += 1
    rfiles, rshards = [], []
    for k in range(0, len(rb_items), SHARD):
        shard = rb_items[k:k + SHARD]
        pth = wd / f"rbcases_{k // SHARD}.v"
        pth.write_text(IMPORTS + "Require Import Pyrefact.LitValRbModel.\n"
                       "Definition cases : list (list string * expr * lvres) := [\n "
                       + ";\n ".join(c[0] for c in shard) + "\n].\n"
                       "Eval vm_compute in (bad_idx rb_case_ok cases).\n"
                       "Eval vm_compute in (List.length (filter rb_case_claims cases)).\n")
        rfiles.append(pth)
        rshards.append(shard)
    rres = common.run_case_files(rfiles)
    rb_claims = 0
    for pth, shard in zip(rfiles, rshards):
        rc, out = rres[pth]
        idx = common.parse_nat_list(out) if rc == 0 else None
        if idx is None:
            disagreements.append({"kind": "eval-failed", "file": pth.name, "log": out[-1500:]})
            continue
        rb_claims += parse_count(out)
        for i in idx:
            _, rb, src, lvo, where = shard[i]
            disagreements.append({"kind": "rebound-case", "expr": src, "names_the_source_rebinds": rb,
                                  "literal_value": list(map(str, lvo)), **where,
                                  "problem": "core.literal_value on this node differs from LitValRbModel.lv_rb "
                                             "(rebound names, expression)"})
    stage["history"] = round(time.time() - ts, 1)

    # ---- end-to-end oracle (deterministic sweep): rules + format_code on programs around expressions
    sweep_exprs = [t for lab, t in labelled if lab.startswith("W:")]
    sweep_exprs += [t for lab, t in l1[::(97 if run.tier == "quick" else 7)]]
    sweep_exprs += T.L1_REPS + [t for _, t in l2_sweep[::(201 if run.tier == "quick" else 61)]]
    sweep_exprs = [t for t in sweep_exprs if not outside_claim(t)]
    jobs, meta, terms_of_job = [], [], []
    for t in sweep_exprs:
        src = T.to_src(t)
        for shape, text in programs_for(src).items():
            if shape == "val" and not foldable_shape(t):
                continue
            for rule in RULES_FOR_SHAPE[shape]:
                jobs.append((rule, text))
                meta.append((src, shape, rule))
                terms_of_job.append(t)
    for rule, text in FIXED_PROGRAM_WITNESSES:
        jobs.append((rule, text))
        meta.append(("<fixed witness>", "witness", rule))
        terms_of_job.append(None)
    for hid, rule, text in H.WITNESSES:
        jobs.append((rule, text))
        meta.append((f"<hunt {hid}>", "witness", rule))
        terms_of_job.append(None)
    quick = run.tier == "quick"
    families = [
        ("rebound", [p for _, p in H.rebound_builtin_programs()],
         ["remove_dead_ifs", "delete_unreachable_code", "remove_redundant_boolop_values", "simplify_boolean_expressions",
          "simplify_math_iterators", "replace_functions_with_literals"], 3),
        ("raising", list(H.raising_operand_programs()),
         ["simplify_boolean_expressions", "remove_redundant_boolop_values", "remove_dead_ifs", "delete_unreachable_code"], 7),
        ("selfcmp", list(H.self_comparison_programs()), ["simplify_boolean_expressions"], 3),
        ("sametext", list(H.identical_operand_programs()),
         ["simplify_boolean_expressions", "remove_redundant_boolop_values", "simplify_boolean_expressions_symmath"], 3),
        ("comp", list(H.comprehension_programs()), ["remove_dead_ifs"], 1),
        ("foriter", list(H.for_iterable_programs()), ["delete_unreachable_code", "remove_dead_ifs"], 1),
    ]
    for fam, progs, rules, fc_step in families:
        progs = list(dict.fromkeys(progs))
        hist["family:" + fam] += len(progs)
        for i, text in enumerate(progs):
            for rule in rules:
                jobs.append((rule, text))
                meta.append((f"<family {fam}>", fam, rule))
                terms_of_job.append(None)
            if i % (fc_step * (2 if quick else 1)) == 0:
                jobs.append(("format_code", text))
                meta.append((f"<family {fam}>", fam, "format_code"))
                terms_of_job.append(None)
    for t in sweep_exprs[:: (3 if run.tier == "quick" else 4)]:
        if has_singleton_eq(t) or has_display_membership(t):
            # not C15's concern: fixes.singleton_eq_comparison rewrites `x == True` to `x is True`; a performance
            # rule turns `x in [a, b]` into `x in {a, b}` (TypeError when x is unhashable)
            continue
        src = T.to_src(t)
        for shape in ("if", "and", "comp", "if1", "elif_t", "elif_f"):
            jobs.append(("format_code", programs_for(src)[shape]))
            meta.append((src, shape, "format_code"))
            terms_of_job.append(None)
    # failing-input search: every disagreeing expression goes through all program shapes and rules
    search_from = len(jobs)
    for d in [d for d in disagreements if "expr" in d][:12]:
        for shape, text in programs_for(d["expr"]).items():
            for rule in ("remove_dead_ifs", "delete_unreachable_code", "remove_redundant_boolop_values",
                         "simplify_boolean_expressions", "format_code"):
                jobs.append((rule, text))
                meta.append((d["expr"], shape, rule))
                terms_of_job.append(None)
    ts = time.time()
    pres = c15_worker.run_jobs_retry(jobs, make_program_job(mods), nproc, str(wd / "sandbox"), suspect_result)
    stage["sweep"] = round(time.time() - ts, 1)
    failures = []
    changed = 0
    for (src, shape, rule), (_, text), r in zip(meta, jobs, pres):
        if r and "before" in r:
            changed += 1
            hist["e2e-rewritten:" + rule] += 1
        v = program_verdict(r)
        if v:
            failures.append({"expr": src, "shape": shape, "rule": rule, "program": text,
                             "output": (r or {}).get("new"), "problem": v})

    failures = h_failures + failures        # the minimal witnesses of the history family come first

    # ---- consumer correspondence: what each rule did to the fixed shapes vs ConstFoldModel
    cons_items = []
    for (src, shape, rule), (_, text), r, t in zip(meta, jobs, pres, terms_of_job):
        if t is None or (shape, rule) not in CONS_SHAPE or not r or "new" not in r:
            continue
        # the rule also rewrites nested nodes of its own kind (in several passes): compare only where it cannot
        if contains_kind(t, "bool" if rule == "remove_redundant_boolop_values" else "if"):
            continue
        cons_items.append((CONS_SHAPE[(shape, rule)], t, observed_code(src, shape, rule, text, r["new"]), rule, text,
                           r["new"]))
        hist[f"cons:{rule}:{cons_items[-1][2]}"] += 1
    cfiles, cshards = [], []
    for k in range(0, len(cons_items), SHARD):
        shard = cons_items[k:k + SHARD]
        body = ";\n ".join(f"({c[0]}%nat, {T.gexpr(c[1])}, {c[2]}%nat)" for c in shard)
        p = wd / f"cons_{k // SHARD}.v"
        p.write_text(IMPORTS + "Require Import Pyrefact.BoolRwModel Pyrefact.ConstFoldModel.\n"
                     f"Definition cases : list (nat * expr * nat) := [\n {body}\n].\n"
                     "Eval vm_compute in (bad_idx cons_case_ok cases).\n")
        cfiles.append(p)
        cshards.append(shard)
    cres = common.run_case_files(cfiles)
    for p, shard in zip(cfiles, cshards):
        rc, out = cres[p]
        idx = common.parse_nat_list(out) if rc == 0 else None
        if idx is None:
            disagreements.append({"kind": "eval-failed", "file": p.name, "log": out[-1500:]})
            continue
        for i in idx:
            c = shard[i]
            disagreements.append({"kind": "consumer-case", "rule": c[3], "program": c[4], "output": c[5],
                                  "observed_code": c[2], "shape": c[0], "expr": T.to_src(c[1])})

    # ---- known findings
    kf = common.load_findings(PID)
    unmatched = []
    matched = {}
    for f_ in failures:
        hit = None
        for f in kf:
            pred = SIGS.get(f.fields.get("sig", ""))
            if f.kind == "finding" and pred and not f_.get("history_only") and pred(f_):
                hit = f
                break
        if hit is None:
            unmatched.append(f_)
        else:
            matched.setdefault(hit.id, []).append(f_)
    for f in kf:
        if f.kind != "finding":
            continue
        hits = matched.get(f.id, [])
        wit = WITNESS.get(f.id)
        if wit and not hits:
            r = c15_worker.run_jobs([wit], make_program_job(mods), 1, str(wd / "sandbox"), watchdog=4.0)[0]
            v = program_verdict(r)
            if v:
                hits = [{"program": wit[1], "rule": wit[0], "problem": v}]
        if hits:
            run.known_finding(f.id, f"{f.text} [{len(hits)} instance(s), e.g. {hits[0]['rule']} on "
                                    f"{hits[0]['program']!r}: {hits[0]['problem']}]")
        else:
            common.log(f"note: known finding {f.id} no longer reproduces")

    import os
    if os.environ.get("C15_DEBUG"):
        Path(os.environ["C15_DEBUG"]).write_text(json.dumps({"disagreements": disagreements, "failures": failures},
                                                            indent=1, default=str))
    # ---- verdicts
    for f_ in unmatched[:5]:
        run.violation({"kind": "property-oracle", **f_,
                       "explanation": "a rule folded a condition / dropped an operand (or crashed, or had an effect) "
                                      "and the program's behaviour differs from Python's"}, True)
    for d in h_expr[:5]:
        run.violation({**d, "kind": "property-oracle-history",
                       "explanation": "core.literal_value, called on this expression of this source after the earlier "
                                      "steps of the history in the same process, returns a value that is not the value "
                                      "Python computes for the expression where it stands"}, True)
    hard = [d for d in disagreements if d.get("kind") in ("direct", "nondeterministic-value")]
    for d in hard[:5]:
        run.violation({"kind": "property-oracle-expression", **d,
                       "explanation": "core.literal_value returns a value for this expression that is not the value "
                                      "Python computes (or not the same value in every interpreter process)"}, True)
    if not unmatched and not hard and not h_expr:
        for d in disagreements[:5]:
            run.violation({"kind": "correspondence", "kernel": "K4", "detail": d,
                           "explanation": "core.literal_value vs LitValModel.lv, or CPython eval vs PyValModel.eval, "
                                          "disagree; no program whose behaviour changes was found"}, False)
    if ps.get("props") and not ps["props"]["ok"]:
        pr = ps["props"]
        run.violation({"kind": "proof", "file": pr["file"], "broken": pr.get("broken"), "log": pr["log"],
                       "explanation": "a property theorem no longer checks against the regenerated tables"},
                      bool(unmatched))

    samples = [T.to_src(labelled[i][1]) for i in (0, 11, n_l1 // 2, n_l1 + 5, len(labelled) - 1) if i < len(labelled)]
    run.coverage.update(
        evaluations=len(items) + len(jobs) + h_steps, distinct_nontrivial=len(distinct),
        rule=("three-way on every case: core.literal_value (forked worker, 2 s timer, captured stdout) vs LitValModel.lv, "
              "and CPython eval vs PyValModel.eval. Level 1 = every expression with ONE operator over the 13-atom pool "
              "{None,True,False,-1,0,1,2,'','a',(),(0,),[],[1]}: 4 unary, 13 binary, and/or with 2 and 3 operands, 10 "
              "comparison operators, 2-operator chains (6x6 operators over 7 atoms), conditional expressions, 1-2 element "
              "displays, 28 builtins with 0/1/2 arguments and keyword forms, 9 methods on 6 constant receivers -- all "
              "enumerated on every run. Level 2 = the same operators over atoms + 38 representatives of level-1 "
              f"behaviour classes ({l2_all} cases; quick runs a deterministic 1/k shard plus a seeded sample, thorough "
              "all). Primitive operations: every binary/comparison operator and modelled builtin/method on all pairs of 43 "
              f"richer values ({prim_all} cases; quick a seeded sample of 2000). Plus seeded random expressions of depth 2-5. Non-trivial = literal_value returned a value; "
              "distinct by source text."),
        samples=samples, exhaustive=(run.tier != "quick"), exhaustive_level1=n_l1, level2_total=l2_all,
        level2_run=len(l2), primitive_cases_total=prim_all, primitive_cases_run=len(prim), random_cases=nrand, model_claims=claims, histogram=dict(hist),
        correspondence_disagreements=len(disagreements),
        history={"steps": h_steps, "model_cases": len(rb_items), "model_claims": rb_claims, "expression_violations": len(h_expr), "history_dependent_results": len(h_dependent),
                 "program_failures": len(h_failures)},
        sweep={"programs": len(jobs), "rewritten": changed, "failures": len(failures),
               "failures_matched_to_findings": len(failures) - len(unmatched)},
        eval_wall_s=round(t_eval, 1), stage_wall_s=stage, tables_ok=tables_ok,
        unmodelled=UNMODELLED,
        trusted_base=common.TRUSTED_BASE_COMMON + TRUSTED,
    )
    run.assumptions += ASSUMPTIONS


UNMODELLED = [
    "floats, complex, bytes, sets, dicts, ranges (model result Gap: no claim; the harness counts them)",
    "identity tests between two non-singleton values (implementation-defined; outside the claim)",
    "%-formatting, str.format, repr of strings that need escaping, int() with a base, builtins/methods other than "
    "len abs bool int str tuple list sorted min max sum all any / upper lower join startswith endswith",
    "Set / Dict displays, subscripts, attributes, comprehensions, f-strings, lambda, starred arguments "
    "(has_side_effect / literal_eval cases outside PyValModel.expr)",
    "core.is_blocking / _is_exception consumers of literal_value (property C16)",
]
TRUSTED = [
    "PyValModel.v is the DEFINITION of what Python computes; validated against CPython eval on every case of every run",
    "harness/c15_terms.py printers (term -> source / Gallina), guarded by an ast.parse round-trip on every case",
    "the primitive value operations (operator.add, len, str.join, ...) are shared between the reference semantics "
    "and the model of literal_value: the tool calls CPython's own functions on values",
]
ASSUMPTIONS = [
    "T15_1..T15_6 are about a file that rebinds no builtin name (lv = lv_rb []); rebinding is covered by lv_rb / eval_rb "
    "(T15_7a-d), where a call through a name the file binds is outside the claim (Gap)",
    "literal_value depends on (expression, names the file rebinds) only, not on what the process evaluated before: "
    "checked on the real code by the history family (both orders in one process vs a fresh process vs lv_rb), not a theorem",
    "float / set / dict valued constant expressions are outside every theorem (covered by no claim, counted as Gap)",
    "expressions that take unbounded time or memory to evaluate (2 ** 10 ** 10) are outside the model; see finding F15-5",
]

RULES_FOR_SHAPE = {
    "if": ["remove_dead_ifs", "delete_unreachable_code", "simplify_boolean_expressions"],
    "while": ["remove_dead_ifs", "delete_unreachable_code", "simplify_boolean_expressions"],
    "ifexp": ["remove_dead_ifs", "simplify_boolean_expressions"],
    "comp": ["remove_dead_ifs", "simplify_boolean_expressions"],
    "and": ["remove_redundant_boolop_values", "simplify_boolean_expressions"],
    "or": ["remove_redundant_boolop_values", "simplify_boolean_expressions"],
    "val": ["simplify_boolean_expressions"],
    "if1": ["remove_dead_ifs", "delete_unreachable_code", "simplify_boolean_expressions"],
    "elif_t": ["remove_dead_ifs", "delete_unreachable_code"],
    "elif_f": ["remove_dead_ifs", "delete_unreachable_code"],
    **{f"b3_{k}": ["remove_redundant_boolop_values"] for k in range(8)},
}

# (shape, rule) -> shape number of ConstFoldModel.cons_code, and how to read the code off the output
CONS_SHAPE = {("if", "remove_dead_ifs"): 0, ("while", "remove_dead_ifs"): 1, ("while", "delete_unreachable_code"): 1,
              ("ifexp", "remove_dead_ifs"): 2, ("if", "delete_unreachable_code"): 3,
              ("and", "remove_redundant_boolop_values"): 4, ("or", "remove_redundant_boolop_values"): 5,
              ("val", "simplify_boolean_expressions"): 6,
              ("elif_t", "remove_dead_ifs"): 7, ("elif_f", "remove_dead_ifs"): 7,
              ("if1", "remove_dead_ifs"): 8, ("if1", "delete_unreachable_code"): 9,
              **{(f"b3_{k}", "remove_redundant_boolop_values"): 10 + k for k in range(8)}}


def _norm(text: str) -> str:
    try:
        return ast.unparse(ast.parse(text))
    except SyntaxError:
        return "\n".join(line.rstrip() for line in text.splitlines() if line.strip())


def contains_kind(t, kind: str) -> bool:
    return t[0] == kind or any(contains_kind(o, kind) for o in T.operands(t))


def observed_code(src: str, shape: str, rule: str, text: str, new: str) -> int:
    """what the rule did to the fixed program shape (see ConstFoldModel.cons_code); 99 = anything else"""
    try:
        return _observed_code(src, shape, rule, text, new)
    except Exception:  # noqa -- an output of an unexpected form
        return 99


def _observed_code(src: str, shape: str, rule: str, text: str, new: str) -> int:
    if new == text or _norm(new) == _norm(text):
        return 100 if shape.startswith("b3_") else 0
    n = _norm(new)
    if shape == "if" and rule == "remove_dead_ifs":
        return {"print(1)": 1, "print(2)": 2}.get(n, 99)
    if shape == "while":
        return 3 if n == "print(3)" else 99
    if shape == "ifexp":
        return {"print(1)": 1, "print(2)": 2}.get(n, 99)
    if shape == "if" and rule == "delete_unreachable_code":
        try:
            node = ast.parse(new).body[0]
        except SyntaxError:
            return 99
        if not isinstance(node, ast.If) or ast.unparse(node.test) != ast.unparse(ast.parse(src, mode="eval").body):
            return 99
        body_dead = all(isinstance(x, ast.Pass) for x in node.body)
        else_dead = all(isinstance(x, ast.Pass) for x in node.orelse)
        if else_dead and not body_dead and _norm(ast.unparse(node.body[0])) == "print(1)":
            return 4
        if body_dead and not else_dead and _norm(ast.unparse(node.orelse[0])) == "print(2)":
            return 5
        return 99
    if shape in ("and", "or"):
        try:
            call = ast.parse(new).body[-1].value
            arg = call.args[0]
        except (SyntaxError, AttributeError, IndexError):
            return 99
        if ast.unparse(arg) == "f()":
            return 7
        if ast.unparse(arg) == ast.unparse(ast.parse(src, mode="eval").body):
            return 6
        return 99
    if shape == "val":
        return {"print(False)": 10, "print(True)": 11}.get(n, 99)
    if shape == "if1":
        return {"print(1)\nprint(3)": 1, "print(3)": 3}.get(n, 99)
    if shape.startswith("b3_"):
        k = int(shape[3:])
        c = C3[bool(k & 2)]
        ops = [ast.unparse(ast.parse(x, mode="eval").body) for x in (([c, src] if k & 1 else [src, c]) + ["f()"])]
        arg = ast.parse(new).body[-1].value.args[0]
        want_op = ast.Or if k & 4 else ast.And
        kept = [ast.unparse(v) for v in arg.values] if isinstance(arg, ast.BoolOp) and isinstance(arg.op, want_op) \
            else [ast.unparse(arg)]
        removed = []
        for o in ops:
            if kept and kept[0] == o:
                kept.pop(0)
                removed.append(0)
            else:
                removed.append(1)
        if kept:
            return 99
        return 100 + 4 * removed[0] + 2 * removed[1] + removed[2]
    return 99

SINGLETONS = (None, True, False)


def _is_singleton_const(t) -> bool:
    return t[0] == "const" and any(t[1] is s for s in SINGLETONS)


def outside_claim(t) -> bool:
    """identity test between two operands of which neither is None/True/False (implementation-defined)"""
    if t[0] == "cmp":
        left = t[1]
        for op, right in t[2]:
            if op in ("Is", "IsNot") and not (_is_singleton_const(left) or _is_singleton_const(right)):
                return True
            left = right
    return any(outside_claim(o) for o in T.operands(t))


def foldable_shape(t) -> bool:
    """a single-operator comparison (== != < <= > >=) or `not` over atoms: what the Compare / not branch of
    simplify_boolean_expressions folds in one step"""
    atoms = {T.to_src(a) for a in T.ATOMS}
    if t[0] == "cmp" and len(t[2]) == 1 and t[2][0][0] in ("Eq", "NotEq", "Lt", "LtE", "Gt", "GtE"):
        return T.to_src(t[1]) in atoms and T.to_src(t[2][0][1]) in atoms
    return t[0] == "un" and t[1] == "not" and t[2][0] == "const"


# witnesses of repaired defects at program level (fixed: lines); they go through the oracle on every run
FIXED_PROGRAM_WITNESSES = [
    ("format_code", "if 1/0:\n    print(1)\n"),                                            # F15-1
    ("format_code", "if 1 + 'a':\n    print(1)\n"),
    ("format_code", "if {[1]: 2}:\n    print(1)\n"),
    ("format_code", "if sorted([2, 1, 3], reverse=True) == [1, 2, 3]:\n    print(1)\nelse:\n    print(2)\n"),  # F15-2
    ("format_code", "if print('x'):\n    print(1)\nelse:\n    print(2)\n"),                 # F15-3
    ("format_code", "x = 1 < 'a'\nprint(x)\n"),                                             # F15-4
    ("simplify_boolean_expressions", PROGRAM_PRELUDE + "print(f() == f())\n"),             # F15-5
    ("format_code", PROGRAM_PRELUDE + "print(f() == f())\n"),
    ("remove_dead_ifs", "while 0:\n    print(1)\nelse:\n    print(2)\nprint(3)\n"),          # F15-8
    ("delete_unreachable_code", "while 0:\n    print(1)\nelse:\n    print(2)\nprint(3)\n"),
    ("format_code", "while 0:\n    print(1)\nelse:\n    print(2)\nprint(3)\n"),
    ("remove_dead_ifs", "a = (1, 2)\nb = (3,)\nprint([i for i in a for j in b if 0])\n"),  # F15-9
    ("remove_dead_ifs", "a = (1, 2)\nb = (3,)\nprint([i for i in a if 0 for j in b])\n"),
    ("remove_dead_ifs", "a = (1, 2)\nprint(sum(i for i in a if 0))\n"),
    ("remove_dead_ifs", "a = (1, 2)\nprint(sum((i for i in a if 0), 3))\n"),
    ("remove_dead_ifs", PROGRAM_PRELUDE + "print([i for i in (f(), 2) if 0])\n"),
    ("remove_dead_ifs", "a = (1, 2)\nprint({i for i in a if 0}, {i: 1 for i in a if 0}, list(i for i in a if 0))\n"),
    ("remove_dead_ifs", "a = (1, 2)\nprint([i for i in a if 1 if 'a'], [i for i in a if 1 for j in a if j])\n"),
    ("format_code", "a = (1, 2)\nb = (3,)\nprint([i for i in a for j in b if 0])\n"),
    ("format_code", "print(len((5, 6)), len([i * i for i in range(4)]))\n"),                  # F15-10
    ("format_code", "print(sum(()), len([]))\n"),
    ("format_code", "print(sum((5, 6)), sum([i for i in range(4)]))\n"),
]


def has_singleton_eq(t) -> bool:
    """== / != against None / True / False somewhere in the expression"""
    if t[0] == "cmp":
        left = t[1]
        for op, right in t[2]:
            if op in ("Eq", "NotEq") and (_is_singleton_const(left) or _is_singleton_const(right)):
                return True
            left = right
    return any(has_singleton_eq(o) for o in T.operands(t))


def has_display_membership(t) -> bool:
    """in / not in against a list or tuple display somewhere in the expression"""
    if t[0] == "cmp":
        for op, right in t[2]:
            if op in ("In", "NotIn") and right[0] in ("list", "tuple"):
                return True
    return any(has_display_membership(o) for o in T.operands(t))


# ---- known-finding predicates (keyed by the sig= field) and their stored witnesses ----
def _boolop_constant_fold(f) -> bool:
    """F15-6: the BoolOp branch of simplify_boolean_expressions replaces `a and <falsy const> and b` by False /
    `a or <truthy const> or b` by True.  Structural predicate: the rule is that one (or the whole pipeline) and the
    program contains a BoolOp with a direct operand that is a constant or a closed expression (no names, calls or
    attributes) which the other folding rules turn into a constant first."""
    if f["rule"] not in ("simplify_boolean_expressions", "format_code"):
        return False
    try:
        tree = ast.parse(f["program"])
    except SyntaxError:
        return False

    def closed(n):
        return not any(isinstance(x, (ast.Name, ast.Call, ast.Attribute)) for x in ast.walk(n))
    return any(isinstance(n, ast.BoolOp) and any(closed(v) for v in n.values) for n in ast.walk(tree))


def _unbounded_evaluation(f) -> bool:
    """F15-7: the rule does not return because literal_value evaluates an astronomically large power / shift /
    repetition eagerly."""
    if not (f["problem"].startswith("rule did not return") or f["problem"] == "the rule raised hang"):
        return False
    try:
        tree = ast.parse(f["program"])
    except SyntaxError:
        return False
    return any(isinstance(n, ast.BinOp) and isinstance(n.op, (ast.Pow, ast.LShift, ast.Mult)) for n in ast.walk(tree))


def _boolop_truth_context_drops_call(f) -> bool:
    """F15-11 (what is left of F15-6 after repair e3d6231): where only the TRUTH of an and/or is observed (if / while
    test, operand of not, ...) the BoolOp branch still folds `a and <falsy const>` to False although `a` contains a
    call -- the call is no longer made.  Structural predicate: that rule (or the whole pipeline), and the program has
    a BoolOp with a closed (name/call/attribute-free) operand AND an operand containing a call."""
    if f["rule"] not in ("simplify_boolean_expressions", "format_code"):
        return False
    try:
        tree = ast.parse(f["program"])
    except SyntaxError:
        return False

    def closed(n):
        return not any(isinstance(x, (ast.Name, ast.Call, ast.Attribute)) for x in ast.walk(n))

    def has_call(n):
        return any(isinstance(x, ast.Call) for x in ast.walk(n))
    return any(isinstance(n, ast.BoolOp) and any(closed(v) for v in n.values) and any(has_call(v) for v in n.values)
               for n in ast.walk(tree))


def _binds_and_calls(tree, names) -> bool:
    bound = set()
    for n in ast.walk(tree):
        if isinstance(n, ast.Name) and not isinstance(n.ctx, ast.Load):
            bound.add(n.id)
        elif isinstance(n, (ast.FunctionDef, ast.AsyncFunctionDef, ast.ClassDef)):
            bound.add(n.name)
        elif isinstance(n, ast.arg):
            bound.add(n.arg)
        elif isinstance(n, ast.alias):
            bound.add((n.asname or n.name).split(".")[0])
        elif isinstance(n, (ast.Global, ast.Nonlocal)):
            bound.update(n.names)
    return any(isinstance(n, ast.Call) and isinstance(n.func, ast.Name) and n.func.id in bound and n.func.id in names
               for n in ast.walk(tree))


def _parse_or_none(text):
    try:
        return ast.parse(text)
    except SyntaxError:
        return None


def _self_equality_of_name(f) -> bool:
    """F15-12: `x == x` / `a.b == a.b` (a name or attribute chain compared with itself) is folded to True."""
    tree = _parse_or_none(f["program"])
    if tree is None or f["rule"] not in ("simplify_boolean_expressions", "format_code"):
        return False

    def name_chain(n):
        while isinstance(n, ast.Attribute):
            n = n.value
        return isinstance(n, ast.Name)
    return any(isinstance(n, ast.Compare) and len(n.ops) == 1 and isinstance(n.ops[0], ast.Eq) and name_chain(n.left)
               and ast.unparse(n.left) == ast.unparse(n.comparators[0]) for n in ast.walk(tree))


def _same_text_operands_symmath(f) -> bool:
    """F15-13 (hunt C15-3, owner c17h): the sympy-based rule gives one symbol to all operands with the same text.
    Predicate: that rule (or the pipeline) and an and/or (possibly nested) in which two sub-operands, `not` stripped,
    have the same text and contain a call."""
    tree = _parse_or_none(f["program"])
    if tree is None or f["rule"] not in ("simplify_boolean_expressions_symmath", "format_code"):
        return False
    for n in ast.walk(tree):
        if isinstance(n, ast.BoolOp):
            texts = []
            for v in ast.walk(n):
                if isinstance(v, (ast.BoolOp,)) or (isinstance(v, ast.UnaryOp) and isinstance(v.op, ast.Not)):
                    continue
                if any(isinstance(c, ast.Call) for c in ast.walk(v)) and isinstance(v, ast.expr):
                    texts.append(ast.unparse(v))
            if len(texts) != len(set(texts)):
                return True
    return False


def _rebound_sum(f) -> bool:
    """F15-14 (hunt C15-0, owner c17h): simplify_math_iterators evaluates sum(...) although the file rebinds sum."""
    tree = _parse_or_none(f["program"])
    return tree is not None and f["rule"] in ("simplify_math_iterators", "format_code") and _binds_and_calls(tree, {"sum"})


def _rebound_container_builtin(f) -> bool:
    """F15-15 (hunt C15-0, owner fxb): replace_functions_with_literals turns list(()) / tuple(..) / set(..) / dict(..)
    into displays although the file rebinds the name."""
    tree = _parse_or_none(f["program"])
    return tree is not None and f["rule"] in ("replace_functions_with_literals", "format_code") and _binds_and_calls(
        tree, {"list", "tuple", "set", "dict", "sorted"})


def _boolop_truth_context_drops_unbound_name(f) -> bool:
    """F15-23: where only the TRUTH of an and/or is observed, the BoolOp branch of simplify_boolean_expressions folds
    `x or <truthy constant>` to True (`x and <falsy constant>` to False): the plain name is no longer read.  The
    tool's convention is that reading a name has no effect; the only observable difference is the NameError of a
    name that is bound nowhere.  Structural predicate: that rule (or the pipeline); the original raised NameError and
    the output does not; the program has an and/or WITHOUT ANY CALL in it that reads a name which the program binds
    nowhere and which is not a builtin."""
    if f["rule"] not in ("simplify_boolean_expressions", "format_code"):
        return False
    problem = f.get("problem", "")
    if "'NameError'] after [" not in problem or problem.endswith("'NameError']"):
        return False
    tree = _parse_or_none(f["program"])
    if tree is None:
        return False
    bound = HH.bound_names(f["program"]) | set(dir(builtins))
    for n in ast.walk(tree):
        if isinstance(n, ast.BoolOp) and not any(isinstance(x, ast.Call) for x in ast.walk(n)):
            if any(isinstance(x, ast.Name) and isinstance(x.ctx, ast.Load) and x.id not in bound for x in ast.walk(n)):
                return True
    return False


SIGS = {"boolop_truth_context_drops_unbound_name": _boolop_truth_context_drops_unbound_name,
        "self_equality_of_name": _self_equality_of_name, "same_text_operands_symmath": _same_text_operands_symmath,
        "rebound_sum": _rebound_sum, "rebound_container_builtin": _rebound_container_builtin,
        "boolop_constant_fold": _boolop_constant_fold, "unbounded_evaluation": _unbounded_evaluation,
        "boolop_truth_context_drops_call": _boolop_truth_context_drops_call}
WITNESS = {
    "F15-12": ("simplify_boolean_expressions", "x = float('nan')\nprint(x == x)\n"),
    "F15-13": ("simplify_boolean_expressions_symmath",
               "it = iter([1, 0])\nif next(it) and not next(it):\n    print('T')\nelse:\n    print('F')\n"),
    "F15-14": ("simplify_math_iterators", "def sum(*a):\n    return 0\nprint(sum((1, 2)))\n"),
    "F15-15": ("replace_functions_with_literals", "def list(*a):\n    return 1\nprint(list(()))\n"),
    "F15-7": ("remove_dead_ifs", "if 3 ** 10 ** 8:\n    print(1)\n"),
    "F15-23": ("simplify_boolean_expressions", "if (0 or x) or 'a':\n    print(1)\nelse:\n    print(2)\n"),
}


def replay(path: str) -> int:
    data = json.loads(Path(path).read_text())
    mods = common.import_impl()
    print(json.dumps({k: data[k] for k in data if k in ("kind", "explanation", "expr", "shape", "rule", "program",
                                                       "output", "problem", "detail", "source", "builtin",
                                                       "rebinding", "order", "in_a_fresh_process")}, indent=1, default=str))
    wd = common.workdir(PID + "-replay")
    if data.get("history"):
        # a failure that needs the earlier steps: the whole history again, in one fresh process
        steps = data["history"]
        rs = HH.run_histories([steps], HH.make_step_job(mods), 1, str(wd / "sandbox"))[0]
        last, r = steps[-1], rs[-1] or {"hang": True}
        if last["a"] == "lv":
            v = direct_disagreement(r)
        else:
            v = program_verdict(r)
        for s_, r_ in zip(steps, rs):
            print("step:", s_["a"], s_.get("rule", s_.get("expr")), "on", repr(s_["src"])[:120], "->",
                  json.dumps(_step_signature(s_, r_), default=str)[:200])
        print("now:", v or "no longer fails")
        return 1 if v else 0
    if data.get("kind") == "property-oracle":
        r = c15_worker.run_jobs([(data["rule"], data["program"])], make_program_job(mods), 1, str(wd / "sandbox"))[0]
        print("now:", program_verdict(r) or "no longer fails", json.dumps(r, default=str)[:600])
        return 1 if program_verdict(r) else 0
    if data.get("kind") == "correspondence" and "expr" in data.get("detail", {}):
        r = c15_worker.run_jobs([data["detail"]["expr"]], make_expr_job(mods), 1, str(wd / "sandbox"))[0]
        print("now:", json.dumps(r, default=str))
    return 0
