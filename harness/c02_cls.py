"""C02, definition / class tranche: correspondence of coq/theories/RulesClsModel.v with the real rule
functions, validation of the object semantics against CPython, and the property oracle (execute
before / after) for the modelled rules.

Entry point for harness/c02.py:   check(run, mods, wd, rnd) -> dict of coverage numbers.

Part L  fixes.undefine_unused_variables on module-level MiniPy programs (harness/minipy.py terms)
Part O  object_oriented.remove_unused_self_cls, object_oriented.move_staticmethod_static_scope,
        fixes.delete_unused_functions_and_classes on printed class modules
Part U  object_oriented.fix_unconventional_class_definitions
Part D  fixes.remove_duplicate_functions / abstractions.hash_node
"""
from __future__ import annotations

import ast
import contextlib
import io
import itertools
import json
import random as _random
import re
import time
from collections import Counter

from . import common
from . import minipy as M

TRANCHE = "cls"
HEADER = ("From Coq Require Import List Bool Arith NArith.\nImport ListNotations.\n"
          "Require Import Pyrefact.Base Pyrefact.MiniPyModel Pyrefact.RulesClsModel.\n"
          "Definition nn (x : N) : nat := N.to_nat x.\n")
P0 = frozenset()


class Unsupported(Exception):
    pass


def glist(xs, f=str):
    return "[" + "; ".join(f(x) for x in xs) + "]"


# =================================================================================================
# Part L: undefine_unused_variables on MiniPy programs printed at module level
# =================================================================================================
# reader modes: how e(...) reads v0.  0 = plain `v0`; 1 = through `r0()` with `def r0(): return v0` in
# front of the program; 2 = through `r0()` with `r0 = lambda: v0`.  The MiniPy term is the same.
READER_PRELUDE = {0: "", 1: "def r0():\n    return v0\n", 2: "r0 = lambda: v0\n"}


def l_src(p, mode=0) -> str:
    txt = M.block_src(p, 0)
    if mode:
        txt = re.sub(r"\be\((\d+)((?:, v\d)*)\)", lambda m: "e(" + m.group(1) + m.group(2).replace("v0", "r0()") + ")", txt)
    return READER_PRELUDE[mode] + txt


def l_parse(src: str, mode=0):
    """text of a module-level program (possibly after the rule) -> MiniPy term"""
    tree = ast.parse(src)
    body = list(tree.body)
    if mode == 1:
        if not (body and isinstance(body[0], ast.FunctionDef) and body[0].name == "r0"):
            raise M.ParseError("reader prelude lost")
        body = body[1:]
    elif mode == 2:
        # an unused `r0 = lambda: v0` is itself un-assigned
        if not (body and ast.unparse(body[0]).replace(" ", "") in ("r0=lambda:v0", "lambda:v0")):
            raise M.ParseError("reader prelude lost")
        body = body[1:]

    class T(ast.NodeTransformer):
        def visit_Call(self, node):
            self.generic_visit(node)
            if isinstance(node.func, ast.Name) and node.func.id == "r0" and not node.args:
                return ast.copy_location(ast.Name("v0", ast.Load()), node)
            return node

        def visit_For(self, node):
            self.generic_visit(node)
            if isinstance(node.target, ast.Name) and node.target.id == "_":
                node.target = ast.Name("_k", ast.Store())     # the loop variable is never read
            return node

    out = []
    for n in body:
        out.append(_l_stmt(T().visit(n)))
    return out


def _l_stmt(n):
    """like M.p_stmt, plus the bare expressions that un-assigning leaves behind"""
    if isinstance(n, ast.Expr):
        v = n.value
        if isinstance(v, ast.Call) and isinstance(v.func, ast.Name) and v.func.id == "e":
            return M.p_stmt(n)
        r = M.p_rexpr(v)
        if r[0] == "T":
            return ("if", r[1], [], [])
        return ("pass",)
    if isinstance(n, (ast.If, ast.While, ast.For)):
        s = M.p_stmt(ast.copy_location(type(n)(**{**{f: getattr(n, f) for f in n._fields}, "body": [ast.Pass()], "orelse": []}), n))
        return (s[0], s[1], [_l_stmt(x) for x in n.body], [_l_stmt(x) for x in n.orelse])
    return M.p_stmt(n)


def l_has_ret(p):
    return any(s[0] == "ret" for s in M.walk(p))


def l_atoms():
    B = lambda b: ("V", ("B", b))   # noqa
    return [("asg", 0, B(True)), ("asg", 0, ("X", 1)), ("asg", 0, ("T", ("U", 1, (0,)))), ("asg", 1, ("T", ("U", 2, ()))),
            ("asg", 1, ("X", 0)), ("ev", 3, (0,)), ("ev", 4, (1,)), ("asg", 0, ("T", ("U", 5, (1,))))]


def l_family(tier):
    """exhaustive small programs around assignments: straight-line sequences and one compound statement"""
    at = l_atoms()
    out = []
    for n in (1, 2, 3):
        for c in itertools.product(at, repeat=n):
            out.append(list(c))
    small = at[:4] + at[5:7]
    tests = [("U", 6, ()), ("U", 7, (0,)), ("K", True)]
    brk = ("if", ("U", 8, ()), [("break",)], [])
    cnt = ("if", ("U", 9, (1,)), [("cont",)], [])
    bodies = [[a] for a in small] + [[a, b] for a in small[:4] for b in small[:5]]
    loop_bodies = bodies + [[a, brk] for a in small[:4]] + [[cnt, a] for a in small[:4]] + [[a, brk, b] for a in small[:2] for b in small[:3]]
    pre = [[], [at[0]], [at[3]]]
    post = [[], [at[5]], [at[6]], [at[5], at[6]]]
    for a in pre:
        for z in post:
            for t in tests:
                for b in bodies[:: (1 if tier != "quick" else 2)]:
                    out.append(a + [("if", t, b, [])] + z)
                    out.append(a + [("if", t, b, [small[1]])] + z)
                if t[0] == "K":
                    continue
                for b in loop_bodies[:: (1 if tier != "quick" else 2)]:
                    out.append(a + [("while", t, b, [])] + z)
            for b in loop_bodies[:: (2 if tier != "quick" else 5)]:
                out.append(a + [("for", ("IK", 2), b, [])] + z)
                out.append(a + [("for", ("IU", 10, (1,)), b, [small[0]])] + z)
    # try is outside MiniPy; nested compound statements
    for b in bodies[::3]:
        out.append([at[0], ("while", tests[0], [("if", tests[1], b, [brk[2][0]])], []), at[5]])
        out.append([("for", ("IK", 2), [("while", tests[0], b + [brk], [])] + b, []), at[6]])
    return [p for p in out if M.well_formed(p)]


def l_rand_prog(rnd, depth=2, in_loop=False, lo=2, hi=4):
    out = []
    for _ in range(rnd.randint(lo, hi)):
        k = rnd.random()
        if k < 0.45 or depth == 0:
            x = rnd.randrange(3)
            e = rnd.choice([("V", ("B", True)), ("V", ("O", True, 3)), ("X", rnd.randrange(3)),
                            ("T", ("U", rnd.randrange(20, 30), tuple(sorted(rnd.sample(range(3), rnd.randint(0, 2))))))])
            out.append(("asg", x, e))
        elif k < 0.6:
            out.append(("ev", rnd.randrange(30, 40), tuple(sorted(rnd.sample(range(3), rnd.randint(0, 2))))))
        elif k < 0.75:
            t = ("U", rnd.randrange(40, 50), tuple(sorted(rnd.sample(range(3), rnd.randint(0, 1)))))
            out.append(("if", t, l_rand_prog(rnd, depth - 1, in_loop, 1, 3), l_rand_prog(rnd, depth - 1, in_loop, 1, 2) if rnd.random() < 0.5 else []))
        elif k < 0.9:
            if rnd.random() < 0.5:
                out.append(("while", ("U", rnd.randrange(50, 60), tuple(sorted(rnd.sample(range(3), rnd.randint(0, 1))))),
                            l_rand_prog(rnd, depth - 1, True, 1, 3), []))
            else:
                out.append(("for", rnd.choice([("IK", 2), ("IK", 0), ("IU", rnd.randrange(60, 70), ())]),
                            l_rand_prog(rnd, depth - 1, True, 1, 3), l_rand_prog(rnd, depth - 1, in_loop, 1, 1) if rnd.random() < 0.3 else []))
        elif in_loop:
            out.append(("if", ("U", rnd.randrange(70, 80), ()), [(rnd.choice(["break", "cont"]),)], []))
        else:
            out.append(("ev", rnd.randrange(30, 40), (rnd.randrange(3),)))
    return out


def l_apply(mods, p, mode):
    """(source, output text, parsed output | ('problem', ...))"""
    src = l_src(p, mode)
    mods["core"].parse.cache_clear()
    try:
        with common.quiet():
            out = mods["fixes"].undefine_unused_variables(src, preserve=P0)
    except Exception as e:  # noqa
        return src, "", ("raised", f"{type(e).__name__}: {e}")
    try:
        q = l_parse(out, mode)
    except (M.ParseError, SyntaxError, KeyError, ValueError) as e:
        return src, out, ("outside-fragment", str(e)[:200])
    return src, out, q


def l_scripts(n=3):
    vals = (("B", True), ("B", False))
    out = [()]
    for k in range(1, n + 1):
        out += list(itertools.product(vals, repeat=k))
    return out


def l_exec(text: str, script, mode):
    """run module-level text as the body of f(v0, v1, v2): (outcome, trace) or None (budget)"""
    body = "".join("    " + line + "\n" for line in text.splitlines()) or "    pass\n"
    try:
        r = M.run_python(M.HEADER + body, [("B", False)] * 3, list(script), line_budget=4000)
    except NameError as e:
        return (("nameerror", str(e)[:60]), ())
    except Exception as e:  # noqa
        return (("raised", type(e).__name__), ())
    if r is None:
        return None
    return r[0], tuple(r[1])


def l_oracle(src, out, mode, nscripts=3):
    """first script under which before / after differ (outcome or trace), else None"""
    for sc in l_scripts(nscripts):
        b = l_exec(src, sc, mode)
        if b is None or b[0][0] in ("nameerror", "raised"):
            continue
        a = l_exec(out, sc, mode)
        if a != b:
            return {"script": [M.val_src(v) for v in sc], "before": repr(b)[:300], "after": repr(a)[:300]}
    return None


# =================================================================================================
# Part O: class modules
# =================================================================================================
KINDS = {"plain": "KPlain", "static": "KStatic", "classm": "KClassm", "prop": "KProp"}
DECO = {"static": "staticmethod", "classm": "classmethod", "prop": "property"}


def mname(j):
    if j < 30:
        return f"m{j}"
    if j < 40:
        return f"_p{j}"
    if j < 50:
        return f"__q{j}"
    return "__init__" if j == 50 else f"__d{j}__"


def mname_inv(s):
    if s == "__init__":
        return 50
    m = re.fullmatch(r"m(\d+)|_p(\d+)|__q(\d+)|__d(\d+)__", s)
    if not m:
        raise Unsupported("method name " + s)
    return int(next(g for g in m.groups() if g is not None))


def fname(n):
    if n < 1000:
        return f"f{n}"
    if n < 2000:
        j = n - 1000
        return mname(j) if j >= 30 else "_" + mname(j)
    c, j = divmod(n - 2000, 100)
    base = mname(j) if j >= 30 else "_" + mname(j)
    return re.sub("^_{2,}", "", f"_C{c}{base}")


def fname_inv(s):
    m = re.fullmatch(r"f(\d+)", s)
    if m:
        return int(m.group(1))
    # inverse of fname on ALL of its range: mangled / dunder method names (mname(j), j >= 40) keep their own
    # leading underscores
    m = re.fullmatch(r"_C(\d+)(_m\d+|_p\d+|__q\d+|__d\d+__|__init__)", s)
    if m:
        return 2000 + 100 * int(m.group(1)) + mname_inv(m.group(2)[1:] if m.group(2).startswith("_m") else m.group(2))
    m = re.fullmatch(r"_(m\d+)|(_p\d+|__q\d+|__d\d+__|__init__)", s)
    if m:
        return 1000 + mname_inv(m.group(1) or m.group(2))
    raise Unsupported("function name " + s)


def o_recv_expr(r, first):
    k = r[0]
    if k == "cls":
        return f"C{r[1]}"
    if k == "new":
        return f"C{r[1]}()"
    if k == "opq":
        return f"(lambda: C{r[1]}())()"
    if k == "var":
        return f"o{r[1]}"
    if k == "self":
        return first
    if k == "super":
        return "super()"
    raise ValueError(r)


def o_act_src(a, first):
    k = a[0]
    z = lambda n: ", ".join(["0"] * n)  # noqa
    if k == "ev":
        return f"e({a[1]})"
    if k == "use":
        return f"u({first})"
    if k == "init":
        return f"o{a[1]} = C{a[1]}()"
    r = a[1]
    if k == "call":
        if r[0] == "mod":
            return f"{fname(a[2])}({z(a[3])})"
        return f"{o_recv_expr(r, first)}.{mname(a[2])}({z(a[3])})"
    if k == "read":
        if r[0] == "mod":
            return f"_ = {fname(a[2])}"
        return f"_ = {o_recv_expr(r, first)}.{mname(a[2])}"
    if k == "dyn":
        return f"getattr({o_recv_expr(r, first)}, \"{mname(a[2])}\")({z(a[3])})"
    raise ValueError(a)


def o_body_src(body, first, ind):
    if not body:
        return ind + "pass\n"
    return "".join(ind + o_act_src(a, first) + "\n" for a in body)


def o_src(mod) -> str:
    out = []
    for tag, it in mod["items"]:
        if tag == "func":
            name, params, body = it
            out.append(f"def {fname(name)}({', '.join(f'a{i + 1}' for i in range(params))}):\n" + o_body_src(body, "self", "    "))
        else:
            name, base, meths, aliases = it
            out.append(f"class C{name}" + (f"(C{base})" if base is not None else "") + ":\n")
            if not meths and not aliases:
                out.append("    pass\n")
            for (mn, kind, params, body) in meths:
                first = "cls" if kind == "classm" else "self"
                if kind != "plain":
                    out.append(f"    @{DECO[kind]}\n")
                if kind == "static":
                    ps = [f"a{i + 1}" for i in range(params)]
                else:
                    ps = ([first] if params else []) + [f"a{i + 1}" for i in range(max(0, params - 1))]
                out.append(f"    def {mname(mn)}({', '.join(ps)}):\n" + o_body_src(body, first, "        "))
            for (a, m) in aliases:
                out.append(f"    {mname(a)} = {mname(m)}\n")
    for c in mod["vars"]:
        out.append(f"o{c} = C{c}()\n")
    for f in mod["stores"]:
        out.append(f"{fname(f)} = 0\n")
    out.append(o_body_src(mod["main"], "self", "") if mod["main"] else "")
    return "".join(out)


def _o_recv(node):
    """expression -> receiver term"""
    if isinstance(node, ast.Name):
        if node.id in ("self", "cls"):
            return ("self",)
        m = re.fullmatch(r"C(\d+)", node.id)
        if m:
            return ("cls", int(m.group(1)))
        m = re.fullmatch(r"o(\d+)", node.id)
        if m:
            return ("var", int(m.group(1)))
    if isinstance(node, ast.Call) and not node.args and not node.keywords:
        f = node.func
        if isinstance(f, ast.Name) and f.id == "super":
            return ("super",)
        if isinstance(f, ast.Name) and re.fullmatch(r"C(\d+)", f.id):
            return ("new", int(f.id[1:]))
        if isinstance(f, ast.Lambda) and isinstance(f.body, ast.Call) and isinstance(f.body.func, ast.Name) \
                and re.fullmatch(r"C(\d+)", f.body.func.id):
            return ("opq", int(f.body.func.id[1:]))
    raise Unsupported("receiver " + ast.dump(node)[:120])


def _zeros(args, kws):
    if kws or any(not (isinstance(a, ast.Constant) and a.value == 0) for a in args):
        raise Unsupported("arguments")
    return len(args)


def _o_act(n):
    if isinstance(n, ast.Pass):
        return None
    if isinstance(n, ast.Assign) and len(n.targets) == 1 and isinstance(n.targets[0], ast.Name):
        t = n.targets[0].id
        v = n.value
        if t == "_":
            if isinstance(v, ast.Name):
                return ("read", ("mod",), fname_inv(v.id))
            if isinstance(v, ast.Attribute):
                return ("read", _o_recv(v.value), mname_inv(v.attr))
        m = re.fullmatch(r"o(\d+)", t)
        if m and isinstance(v, ast.Call) and isinstance(v.func, ast.Name) and v.func.id == f"C{m.group(1)}" and not v.args:
            return ("init", int(m.group(1)))
        if isinstance(v, ast.Constant) and v.value == 0:
            return ("store", fname_inv(t))
        raise Unsupported("assign " + ast.dump(n)[:120])
    if isinstance(n, ast.Expr) and isinstance(n.value, ast.Call):
        c = n.value
        f = c.func
        if isinstance(f, ast.Name) and f.id == "e" and len(c.args) == 1:
            return ("ev", c.args[0].value)
        if isinstance(f, ast.Name) and f.id == "u" and len(c.args) == 1 and isinstance(c.args[0], ast.Name) \
                and c.args[0].id in ("self", "cls"):
            return ("use",)
        if isinstance(f, ast.Name):
            return ("call", ("mod",), fname_inv(f.id), _zeros(c.args, c.keywords))
        if isinstance(f, ast.Attribute):
            return ("call", _o_recv(f.value), mname_inv(f.attr), _zeros(c.args, c.keywords))
        if isinstance(f, ast.Call) and isinstance(f.func, ast.Name) and f.func.id == "getattr" and len(f.args) == 2 \
                and isinstance(f.args[1], ast.Constant):
            return ("dyn", _o_recv(f.args[0]), mname_inv(f.args[1].value), _zeros(c.args, c.keywords))
    raise Unsupported("statement " + ast.dump(n)[:160])


def _o_body(nodes):
    return [a for a in (_o_act(n) for n in nodes) if a is not None]


def o_parse(src: str):
    tree = ast.parse(src)
    mod = {"items": [], "vars": [], "stores": [], "main": []}
    phase = 0
    for n in tree.body:
        if isinstance(n, ast.FunctionDef) and phase == 0:
            if n.decorator_list or n.args.vararg or n.args.kwarg or n.args.kwonlyargs or n.args.defaults:
                raise Unsupported("function signature")
            mod["items"].append(("func", (fname_inv(n.name), len(n.args.args), _o_body(n.body))))
        elif isinstance(n, ast.ClassDef) and phase == 0:
            if n.decorator_list or n.keywords or len(n.bases) > 1:
                raise Unsupported("class header")
            base = None
            if n.bases:
                if not (isinstance(n.bases[0], ast.Name) and re.fullmatch(r"C\d+", n.bases[0].id)):
                    raise Unsupported("base")
                base = int(n.bases[0].id[1:])
            meths, aliases = [], []
            for x in n.body:
                if isinstance(x, ast.Pass):
                    continue
                if isinstance(x, ast.FunctionDef):
                    kind = "plain"
                    for d in x.decorator_list:
                        if not isinstance(d, ast.Name) or d.id not in ("staticmethod", "classmethod", "property") or kind != "plain":
                            raise Unsupported("decorator")
                        kind = {"staticmethod": "static", "classmethod": "classm", "property": "prop"}[d.id]
                    names = [a.arg for a in x.args.args]
                    if x.args.vararg or x.args.kwarg or x.args.kwonlyargs or x.args.defaults or x.args.posonlyargs:
                        raise Unsupported("method signature")
                    if kind == "static":
                        ok = names == [f"a{i + 1}" for i in range(len(names))]
                    elif names:
                        ok = names[0] == ("cls" if kind == "classm" else "self") and names[1:] == [f"a{i + 1}" for i in range(len(names) - 1)]
                    else:
                        ok = True
                    if not ok:
                        raise Unsupported(f"parameters {names} of a {kind} method")
                    meths.append((mname_inv(x.name), kind, len(names), _o_body(x.body)))
                elif isinstance(x, ast.Assign) and len(x.targets) == 1 and isinstance(x.targets[0], ast.Name) and isinstance(x.value, ast.Name):
                    aliases.append((mname_inv(x.targets[0].id), mname_inv(x.value.id)))
                else:
                    raise Unsupported("class body " + ast.dump(x)[:100])
            mod["items"].append(("class", (int(n.name[1:]), base, meths, aliases)))
        else:
            a = _o_act(n)
            if a is None:
                continue
            if a[0] == "init" and phase <= 1 and not mod["main"]:
                phase = 1
                mod["vars"].append(a[1])
            elif a[0] == "store" and phase <= 2 and not mod["main"]:
                phase = 2
                mod["stores"].append(a[1])
            elif a[0] in ("init", "store"):
                raise Unsupported("prelude statement in main")
            else:
                phase = 3
                mod["main"].append(a)
    return mod


def gn(n) -> str:
    """nat literals are unary: large ones go through N"""
    return str(n) if n < 60 else f"(nn {n})"


def g_recv(r):
    k = r[0]
    return {"mod": "RMod", "self": "RSelf", "super": "RSuper"}.get(k) or "(" + {"cls": "RCls", "new": "RNew", "opq": "ROpq", "var": "RObj"}[k] + f" {r[1]})"


def g_act(a):
    k = a[0]
    if k == "ev":
        return f"(AEv {a[1]})"
    if k == "use":
        return "AUse"
    if k == "init":
        return f"(AInit {a[1]})"
    if k == "call":
        return f"(ACall {g_recv(a[1])} {gn(a[2])} {a[3]})"
    if k == "read":
        return f"(ARead {g_recv(a[1])} {gn(a[2])})"
    if k == "dyn":
        return f"(ADyn {g_recv(a[1])} {gn(a[2])} {a[3]})"
    raise ValueError(a)


def g_mod(mod):
    items = []
    for tag, it in mod["items"]:
        if tag == "func":
            items.append(f"IFunc (mkFunc {gn(it[0])} {it[1]} {glist(it[2], g_act)})")
        else:
            name, base, meths, aliases = it
            ms = glist(meths, lambda x: f"mkMeth {gn(x[0])} {KINDS[x[1]]} {x[2]} {glist(x[3], g_act)}")
            al = glist(aliases, lambda p: f"({gn(p[0])}, {gn(p[1])})")
            items.append(f"IClass (mkCls {name} {'None' if base is None else f'(Some {base})'} {ms} {al})")
    return f"(mkMod {glist(items)} {glist(mod['vars'])} {glist(mod['stores'], gn)} {glist(mod['main'], g_act)})"


# ---- CPython runner -----------------------------------------------------------------------------
EXC = {"TypeError": "OTypeErr", "AttributeError": "OAttrErr", "NameError": "ONameErr", "UnboundLocalError": "ONameErr",
       "RuntimeError": "ORunErr"}


def o_run(src: str):
    """(trace, outcome) of the printed module; outcome None = outside the model (RecursionError, ...)"""
    trace = []

    def e(k):
        trace.append(f"(TEv {k})")

    def u(x):
        if isinstance(x, type):
            trace.append(f"(TUse (SCls {x.__name__[1:]}))")
        elif type(x).__name__.startswith("C"):
            trace.append(f"(TUse (SInst {type(x).__name__[1:]}))")
        else:
            trace.append("(TUse SArg)")
    try:
        exec(compile(src, "<o>", "exec"), {"e": e, "u": u, "__name__": "o"})
    except RecursionError:
        return trace, None
    except Exception as ex:  # noqa
        return trace, EXC.get(type(ex).__name__, "other:" + type(ex).__name__)
    return trace, "OOk"


O_RULES = {
    "ORs": ("object_oriented", "remove_unused_self_cls", False),
    "OMs": ("object_oriented", "move_staticmethod_static_scope", True),
    "ODu": ("fixes", "delete_unused_functions_and_classes", True),
}


def o_apply(mods, rid, mod):
    m, f, pres = O_RULES[rid]
    src = o_src(mod)
    mods["core"].parse.cache_clear()
    try:
        with common.quiet():
            out = getattr(mods[m], f)(src, preserve=P0) if pres else getattr(mods[m], f)(src)
    except Exception as e:  # noqa
        return src, "", ("raised", f"{type(e).__name__}: {e}")
    try:
        q = o_parse(out)
    except (Unsupported, SyntaxError) as e:
        return src, out, ("outside-fragment", str(e)[:200])
    return src, out, q


def o_wellformed(mod) -> bool:
    """unique names, at most the shapes the semantics covers, printer/parser round trip"""
    cn = [it[0] for tag, it in mod["items"] if tag == "class"]
    fn = [it[0] for tag, it in mod["items"] if tag == "func"]
    if len(set(cn)) != len(cn) or len(set(fn)) != len(fn):
        return False
    seen = set()
    for tag, it in mod["items"]:
        if tag == "class":
            name, base, meths, aliases = it
            if base is not None and base not in seen:
                return False          # bases are defined earlier
            seen.add(name)
            ms = [x[0] for x in meths]
            if len(set(ms)) != len(ms) or any(a in ms or m not in ms for a, m in aliases):
                return False
            for (mn, kind, params, body) in meths:
                if kind == "prop" and params != 1:
                    return False
                if kind == "classm" and params == 0:
                    return False
                if kind == "static" and params > 0 and any(a[0] in ("call", "read", "dyn") and a[1][0] == "super" for a in body):
                    return False
        else:
            if it[1] > 0 and any(a[0] in ("call", "read", "dyn") and a[1][0] == "super" for a in it[2]):
                return False
    if any(c not in cn for c in mod["vars"]):
        return False
    return True


# ---- generators -----------------------------------------------------------------------------------
def CALL(r, m, n=0):
    return ("call", r, m, n)


def o_family_rs(tier):
    """one class C1 (with a base C0 / a subclass C2 in some shapes): every kind / body of m1 x kinds of m2 x accesses"""
    S, SUP = ("self",), ("super",)
    bodies = [[], [("ev", 1)], [("use",)], [CALL(S, 2)], [("read", S, 2)], [CALL(SUP, 2)], [("dyn", S, 2, 0)],
              [("ev", 1), CALL(S, 2), CALL(S, 3)]]
    mains = [[CALL(("new", 1), 1)], [CALL(("cls", 1), 1)], [CALL(("cls", 1), 1, 1)], [CALL(("var", 1), 1)],
             [CALL(("new", 2), 1)], [("read", ("new", 1), 1)], [CALL(("new", 1), 4)], [("dyn", ("cls", 1), 1, 1)]]
    out = []
    for (k1, p1), b1, k2, alias, main in itertools.product(
            [("plain", 1), ("plain", 2), ("classm", 1), ("static", 1), ("prop", 1), ("plain", 0)], bodies,
            ["plain", "static", "classm"], [False, True], mains):
        if tier == "quick" and alias and k2 != "static":
            continue
        m2 = (2, k2, 0 if k2 == "static" else 1, [("ev", 2)])
        m3 = (3, "plain", 1, [("use",)])
        m4 = (4, "classm", 1, [CALL(S, 1, 1)])          # cls.m1(0) inside a classmethod
        c0 = ("class", (0, None, [(2, "plain", 1, [("ev", 20)])], []))
        c1 = ("class", (1, 0, [(1, k1, p1, b1), m2, m3] + ([m4] if main[0][2] == 4 else []), [(9, 1)] if alias else []))
        c2 = ("class", (2, 1, [], []))
        nargs_fix = [CALL(a[1], a[2], p1 - 1 if (a[0] == "call" and a[2] == 1 and a[1][0] in ("new", "var") and p1 == 2) else a[3])
                     if a[0] == "call" else a for a in main]
        out.append({"items": [c0, c1, c2], "vars": [1] if main[0][1][0] == "var" else [], "stores": [], "main": nargs_fix + [("ev", 9)]})
    # magic / private names, super in a subclass, instance call of a method with an explicit instance argument
    for mn in (51, 31, 41, 50):
        for b in ([("ev", 1)], [("use",)]):
            out.append({"items": [("class", (1, None, [(mn, "plain", 1, b)], []))], "vars": [], "stores": [],
                        "main": [CALL(("new", 1), mn) if mn != 50 else ("read", ("cls", 1), 50)]})
    out.append({"items": [("class", (1, None, [(1, "plain", 1, [("ev", 1)])], [])),
                          ("class", (2, 1, [(1, "plain", 1, [CALL(("cls", 1), 1, 1), ("use",)])], []))],
                "vars": [], "stores": [], "main": [CALL(("new", 2), 1)]})
    return [m for m in out if o_wellformed(m)]


def o_family_ms(tier):
    S = ("self",)
    out = []
    accesses = [CALL(("cls", 1), 1), CALL(("new", 1), 1), CALL(("var", 1), 1), CALL(("opq", 1), 1), CALL(("new", 2), 1),
                CALL(("cls", 2), 1), ("dyn", ("cls", 1), 1, 0), ("read", ("cls", 1), 1), CALL(("new", 3), 1)]
    for mn, inner, sub, other, clash, alias, acc in itertools.product(
            [1, 31, 41, 51], ["none", "self_in_c1", "self_in_c2", "cls_in_c1"], ["none", "plain_sub", "override"],
            ["none", "plain", "static"], ["none", "func", "store", "both"], [False, True], accesses):
        if tier == "quick" and (mn != 1 and (clash != "none" or other != "none" or sub == "override")):
            continue
        if tier == "quick" and alias and (clash != "none" or inner != "none"):
            continue
        if tier == "quick" and clash == "both" and sub != "none":
            continue
        rn = lambda a: (a[0], a[1], mn, *a[3:]) if len(a) > 2 and a[2] == 1 else a   # noqa
        acc = rn(acc)
        m1 = (mn, "static", 0, [("ev", 1)])
        meths1 = [m1]
        if inner == "self_in_c1":
            meths1.append((2, "plain", 1, [CALL(S, mn)]))
        if inner == "cls_in_c1":
            meths1.append((2, "classm", 1, [CALL(S, mn)]))
        items = [("class", (1, None, meths1, [(9, mn)] if alias else []))]
        meths2 = []
        if sub == "override":
            meths2.append((mn, "static", 0, [("ev", 2)]))
        if inner == "self_in_c2":
            meths2.append((2, "plain", 1, [CALL(S, mn)]))
        if sub != "none" or inner == "self_in_c2" or (acc[1][0] in ("new", "cls") and acc[1][1] == 2):
            items.append(("class", (2, 1, meths2, [])))
        elif acc[1][0] in ("new", "cls") and acc[1][1] == 2:
            continue
        if other != "none" or (acc[1][0] == "new" and acc[1][1] == 3):
            items.append(("class", (3, None, [(mn, "plain" if other != "static" else "static", 1 if other != "static" else 0, [("ev", 3)])], [])))
        if clash in ("func", "both"):
            items.append(("func", (1000 + mn, 0, [("ev", 4)])))
        if clash == "both":
            items.append(("func", (2100 + mn, 0, [("ev", 5)])))
        main = [acc] + ([CALL(("new", 1), 2)] if inner in ("self_in_c1", "cls_in_c1") else []) \
            + ([CALL(("new", 2), 2)] if inner == "self_in_c2" else []) + [("ev", 9)]
        out.append({"items": items, "vars": [1] if acc[1][0] == "var" else [], "stores": [1000 + mn] if clash == "store" else [], "main": main})
    # two static methods that call each other; static with parameters; same method name in two classes
    out.append({"items": [("class", (1, None, [(1, "static", 1, [CALL(("cls", 1), 2)]), (2, "static", 0, [("ev", 2)])], []))],
                "vars": [], "stores": [], "main": [CALL(("cls", 1), 1, 1)]})
    out.append({"items": [("class", (1, None, [(1, "static", 0, [("ev", 1)])], [])), ("class", (3, None, [(1, "static", 0, [("ev", 3)])], []))],
                "vars": [], "stores": [], "main": [CALL(("cls", 1), 1), CALL(("cls", 3), 1)]})
    return [m for m in out if o_wellformed(m)]


def o_family_ms_cross():
    """cca2e92 (one transaction per moved method, overlapping transactions discarded as a whole): static methods whose
    bodies access other static methods -- through the class, `self` (an unbound name there), a fresh instance; forwards,
    backwards, mutually, in a chain, recursively, across classes.  Never sampled away."""
    S = ("self",)
    out = []
    for r in (("cls", 1), S, ("new", 1)):
        for b1, b2, b3 in [([CALL(r, 2)], [("ev", 2)], None), ([("ev", 1)], [CALL(r, 1)], None), ([CALL(r, 2)], [CALL(r, 1)], None),
                           ([CALL(r, 2)], [CALL(r, 3)], [("ev", 3)]), ([("ev", 1)], [CALL(r, 3)], [CALL(r, 1)]),
                           ([CALL(r, 1), CALL(r, 2)], [("ev", 2)], None), ([CALL(r, 3)], [("ev", 2)], [("ev", 3)]),
                           ([("read", r, 2)], [("ev", 2)], None)]:
            meths = [(1, "static", 0, b1), (2, "static", 0, b2)] + ([(3, "static", 0, b3)] if b3 else [])
            for main in ([CALL(("cls", 1), 2)], [CALL(("cls", 1), 1), CALL(("new", 1), 2)]):
                out.append({"items": [("class", (1, None, meths, []))], "vars": [], "stores": [], "main": main + [("ev", 9)]})
    for r in (("cls", 3), ("new", 3)):
        for first in (1, 3):
            c1 = ("class", (1, None, [(1, "static", 0, [CALL(r, 2)]), (4, "plain", 1, [CALL(S, 1)])], []))
            c3 = ("class", (3, None, [(2, "static", 0, [CALL(("cls", 1), 1)] if first == 3 else [("ev", 3)])], []))
            out.append({"items": [c1, c3] if first == 1 else [c3, c1], "vars": [], "stores": [],
                        "main": [CALL(("cls", 3), 2), CALL(("new", 1), 4), ("ev", 9)]})
    return [m for m in out if o_wellformed(m)]


def o_family_du(tier):
    S = ("self",)
    out = []
    mains = [[], [CALL(("mod",), 1)], [CALL(("new", 1), 1)], [CALL(("cls", 1), 2)], [("dyn", ("new", 1), 1, 0)], [CALL(("var", 1), 1)],
             [CALL(("new", 2), 1)], [("read", ("new", 1), 1)], [CALL(("opq", 1), 3)], [("dyn", ("cls", 2), 2, 0)]]
    for f1b, f2b, m1b, init, sub, alias, main in itertools.product(
            [[("ev", 1)], [CALL(("mod",), 2)], [CALL(("mod",), 1)]], [[("ev", 2)], [CALL(("mod",), 2)], [CALL(("new", 1), 2)]],
            [[("ev", 3)], [CALL(S, 1)], [CALL(S, 2)], [CALL(("cls", 1), 2)], [("dyn", ("cls", 1), 2, 0)]],
            [False, True], [False, True], [False, True], mains):
        if tier == "quick" and alias and (sub or init):
            continue
        meths = [(1, "plain", 1, m1b), (2, "static", 0, [("ev", 4)]), (3, "plain", 1, [("use",)])] \
            + ([(50, "plain", 1, [("ev", 5)]), (51, "plain", 1, [("ev", 6)])] if init else [])
        items = [("func", (1, 0, f1b)), ("func", (2, 0, f2b)), ("class", (1, None, meths, [(9, 3)] if alias else []))]
        if sub or any(a[1][0] in ("new", "cls") and a[1][1] == 2 for a in main):
            items.append(("class", (2, 1, [(4, "plain", 1, [("ev", 7)])], [])))
        out.append({"items": items, "vars": [1] if main and main[0][1][0] == "var" else [], "stores": [], "main": main + [("ev", 9)]})
    return [m for m in out if o_wellformed(m)]


def o_rand_module(rnd):
    ncls = rnd.randint(1, 3)
    nfun = rnd.randint(0, 2)
    mnames = [1, 2, 3, rnd.choice([31, 51, 52, 4])]
    has_init = rnd.random() < 0.4

    def racts(n, in_cls):
        out = []
        for _ in range(n):
            k = rnd.random()
            recvs = [("cls", rnd.randrange(1, ncls + 1)), ("new", rnd.randrange(1, ncls + 1)), ("var", 1), ("opq", rnd.randrange(1, ncls + 1))]
            if in_cls:
                recvs += [("self",), ("self",), ("self",), ("super",)]
            if k < 0.2:
                out.append(("ev", rnd.randrange(1, 9)))
            elif k < 0.3 and in_cls:
                out.append(("use",))
            elif k < 0.4 and nfun:
                out.append(CALL(("mod",), rnd.randrange(1, nfun + 1)))
            elif k < 0.85:
                out.append(CALL(rnd.choice(recvs), rnd.choice(mnames), rnd.choice([0, 0, 0, 1])))
            elif k < 0.93:
                out.append(("read", rnd.choice(recvs), rnd.choice(mnames)))
            else:
                out.append(("dyn", rnd.choice(recvs), rnd.choice(mnames), 0))
        return out
    items = []
    for c in range(1, ncls + 1):
        meths = []
        for mn in rnd.sample(mnames, rnd.randint(1, 3)):
            kind = rnd.choice(["plain", "plain", "static", "static", "classm", "prop"])
            params = {"plain": rnd.choice([1, 1, 2]), "static": rnd.choice([0, 0, 1]), "classm": rnd.choice([1, 1, 2]), "prop": 1}[kind]
            meths.append((mn, kind, params, racts(rnd.randint(0, 2), True)))
        if has_init and rnd.random() < 0.5:       # __init__ is only reached by C(): every class has object.__init__
            kind = rnd.choice(["plain", "plain", "plain", "static", "classm"])
            # its body only logs: while the module variables are created, o<c> is not bound yet
            meths.append((50, kind, {"plain": rnd.choice([1, 1, 2]), "static": 0, "classm": 1}[kind],
                          [rnd.choice([("ev", rnd.randrange(1, 9)), ("use",)]) for _ in range(rnd.randint(0, 2))]))
        base = rnd.choice([None, None] + list(range(1, c)))
        ms = [x[0] for x in meths]
        aliases = [(9, ms[0])] if rnd.random() < 0.15 else []
        items.append(("class", (c, base, meths, aliases)))
    for f in range(1, nfun + 1):
        items.append(("func", (f, 0, racts(rnd.randint(0, 2), False))))
    rnd.shuffle(items)
    # bases must be defined earlier: sort classes by number, keep the functions where they are
    cls_sorted = iter(sorted([it for it in items if it[0] == "class"], key=lambda it: it[1][0]))
    items = [next(cls_sorted) if it[0] == "class" else it for it in items]
    mod = {"items": items, "vars": [1] if rnd.random() < 0.6 else [], "stores": [1000 + mnames[0]] if rnd.random() < 0.1 else [],
           "main": racts(rnd.randint(1, 4), False) + [("ev", 9)]}
    if not mod["vars"]:
        def novar(b):
            return [a for a in b if not (a[0] in ("call", "read", "dyn") and a[1][0] == "var")]
        mod["main"] = novar(mod["main"])
        mod["items"] = [(t, (it[0], it[1], novar(it[2])) if t == "func" else
                         (it[0], it[1], [(x[0], x[1], x[2], novar(x[3])) for x in it[2]], it[3])) for t, it in mod["items"]]
    return mod


O_FAMILIES = {"ORs": o_family_rs, "OMs": o_family_ms, "ODu": o_family_du}
O_ALWAYS = {"OMs": o_family_ms_cross}


# =================================================================================================
# Part U: fix_unconventional_class_definitions
# =================================================================================================
# vexpr: ("c", k) | ("n", x) | ("a", a) | ("g", k, vexpr);   program: dict(globals, hook, body, post, rest)
def u_nm(x):
    return f"n{x}" if x < 40 else f"__q{x}"


def u_nm_inv(s):
    m = re.fullmatch(r"n(\d+)|__q(\d+)", s)
    if not m:
        raise Unsupported("name " + s)
    return int(m.group(1) or m.group(2))


def u_expr(e):
    k = e[0]
    if k == "c":
        return str(e[1])
    if k == "n":
        return u_nm(e[1])
    if k == "a":
        return f"C1.{u_nm(e[1])}"
    return f"g({e[1]}, {u_expr(e[2])})"


U_DECO = "def deco(c):\n    h([k for k in vars(c) if k[:2] != '__'])\n    return c\n"


U_STUBS = ("def g(k, v):\n    print('g', k, v)\n    return ('R', k, v)\ndef h(names):\n    print('h', names)\n"
           "def r(v):\n    print('r', v)\n")


def u_src(p) -> str:
    out = [f"{u_nm(x)} = {k}\n" for x, k in p["globals"]]
    if p["hook"]:
        out.append(U_DECO + "@deco\n")
    out.append("class C1:\n")
    out += [f"    {u_nm(a)} = {u_expr(e)}\n" for a, e in p["body"]] or ["    pass\n"]
    out += [f"C1.{u_nm(a)} = {u_expr(e)}\n" for a, e in p["post"]]
    out += [f"r({u_expr(e)})\n" for e in p["rest"]]
    return "".join(out)


def _u_parse_expr(n):
    if isinstance(n, ast.Constant) and type(n.value) is int:
        return ("c", n.value)
    if isinstance(n, ast.Name):
        return ("n", u_nm_inv(n.id))
    if isinstance(n, ast.Attribute) and isinstance(n.value, ast.Name) and n.value.id == "C1":
        return ("a", u_nm_inv(n.attr))
    if isinstance(n, ast.Call) and isinstance(n.func, ast.Name) and n.func.id == "g" and len(n.args) == 2:
        return ("g", n.args[0].value, _u_parse_expr(n.args[1]))
    raise Unsupported("expression " + ast.dump(n)[:100])


def u_parse(src):
    """(body, post) of the class C1 in the text"""
    body, post = [], []
    for n in ast.parse(src).body:
        if isinstance(n, ast.ClassDef) and n.name == "C1":
            for x in n.body:
                if isinstance(x, ast.Pass):
                    continue
                if not (isinstance(x, ast.Assign) and len(x.targets) == 1 and isinstance(x.targets[0], ast.Name)):
                    raise Unsupported("class body")
                body.append((u_nm_inv(x.targets[0].id), _u_parse_expr(x.value)))
        elif isinstance(n, ast.Assign) and isinstance(n.targets[0], ast.Attribute):
            t = n.targets[0]
            if not (isinstance(t.value, ast.Name) and t.value.id == "C1"):
                raise Unsupported("target")
            post.append((u_nm_inv(t.attr), _u_parse_expr(n.value)))
    return body, post


def g_vexpr(e):
    k = e[0]
    return {"c": f"(VConst {e[1]})", "n": f"(VName {e[1]})", "a": f"(VAttr {e[1]})"}.get(k) or f"(VCall {e[1]} {g_vexpr(e[2])})"


def g_binds(b):
    return glist(b, lambda p: f"({p[0]}, {g_vexpr(p[1])})")


def g_uprog(p):
    gl = glist(p["globals"], lambda q: f"({q[0]}, UInt {q[1]})")
    return f"(mkU {gl} {'true' if p['hook'] else 'false'} {g_binds(p['body'])} {g_binds(p['post'])} {glist(p['rest'], g_vexpr)})"


def _g_uval(v):
    if isinstance(v, tuple) and v and v[0] == "R":
        return f"(URes {v[1]} {_g_uval(v[2])})"
    if isinstance(v, tuple) and v and v[0] == "H":
        return f"(UHook {glist(v[1])})"
    if type(v) is int:
        return f"(UInt {v})"
    raise Unsupported("value " + repr(v))


def u_run(src):
    """(ok, log, final attributes of C1) as Gallina text; log entries and attributes as the model has them"""
    log = []

    def g(k, v):
        r = ("R", k, v)
        log.append(r)
        return r

    def h(names):
        log.append(("H", [u_nm_inv(n) for n in names if re.fullmatch(r"n\d+|__q\d+", n)]))

    def r(v):
        log.append(v)
    env = {"g": g, "h": h, "r": r, "__name__": "u"}
    try:
        exec(compile(src, "<u>", "exec"), env)
        ok = True
    except (NameError, AttributeError):
        ok = False
    attrs = []
    if ok:
        attrs = [(u_nm_inv(k), v) for k, v in vars(env["C1"]).items() if re.fullmatch(r"n\d+|__q\d+", k)]
    return ok, log, attrs


def u_family(tier):
    C = lambda k: ("c", k)  # noqa
    bodies = [[], [(1, C(1))], [(1, C(1)), (2, ("g", 3, ("n", 0)))]]
    atoms = [(2, C(2)), (3, ("n", 0)), (3, ("n", 1)), (4, ("a", 1)), (4, ("g", 5, ("n", 0))), (1, C(7)), (41, C(3)),
             (5, ("n", 2)), (5, ("g", 6, ("a", 2)))]
    posts = [[a] for a in atoms] + [[a, b] for a in atoms for b in atoms] + [[atoms[0], atoms[7], atoms[1]], [atoms[1], atoms[0], atoms[3]]]
    out = []
    for body, post, g1, hook in itertools.product(bodies, posts, [False, True], [False, True]):
        if tier == "quick" and hook and g1:
            continue
        rest = [("a", a) for a in sorted({a for a, _ in post} | {a for a, _ in body}) if a < 40][:3]
        out.append({"globals": [(0, 7)] + ([(1, 9), (2, 8)] if g1 else []), "hook": hook, "body": body, "post": post, "rest": rest})
    return out


def u_apply(mods, p):
    src = u_src(p)
    mods["core"].parse.cache_clear()
    try:
        with common.quiet():
            out = mods["object_oriented"].fix_unconventional_class_definitions(src)
    except Exception as e:  # noqa
        return src, "", ("raised", f"{type(e).__name__}: {e}")
    try:
        q = u_parse(out)
    except (Unsupported, SyntaxError) as e:
        return src, out, ("outside-fragment", str(e)[:200])
    return src, out, q


# =================================================================================================
# Part D: remove_duplicate_functions / hash_node
# =================================================================================================
class _Intern:
    def __init__(self):
        self.t = {}

    def __call__(self, key):
        return self.t.setdefault(key, len(self.t))


def d_tokens(fn: ast.FunctionDef, ids: _Intern, names: _Intern):
    """the things hash_node hashes, in its order: ('k', id) | ('n', name id, binds)"""
    out = []
    declared = {n for g in ast.walk(fn) if isinstance(g, (ast.Global, ast.Nonlocal)) for n in g.names}
    for child in ast.walk(fn):
        out.append(("k", ids(("type", type(child).__name__))))
        nm = None
        if isinstance(child, ast.Name):
            nm = (child.id, isinstance(child.ctx, (ast.Store, ast.Del)) and child.id not in declared)
        elif isinstance(child, ast.arg):
            nm = (child.arg, True)
        elif isinstance(child, (ast.FunctionDef, ast.AsyncFunctionDef)):
            nm = (child.name, True)
        else:
            for key, value in child.__dict__.items():
                if isinstance(value, (str, int, float, complex, bytes, type(None), type(...))) \
                        and key not in {"lineno", "end_lineno", "col_offset", "end_col_offset"}:
                    out.append(("k", ids((key, type(value).__name__, repr(value)))))
        for key, value in child.__dict__.items():
            if isinstance(value, list):
                out.append(("k", ids((key, len(value)))))
            elif isinstance(value, ast.AST):
                out.append(("k", ids((key,))))
        if nm:
            out.append(("n", names(nm[0]), nm[1]))
    return out


def g_toks(ts):
    return glist(ts, lambda t: f"(TK {t[1]})" if t[0] == "k" else f"(TN {t[1]} {'true' if t[2] else 'false'})")


# (parameters, body, arguments of the call)
D_BODIES = [
    ("{a}", "return {a} + 1", "O()"), ("{a}", "return {a} - 1", "O()"), ("{a}", "return len({a})", "O()"),
    ("{a}", "return sum({a})", "O()"), ("{a}", "return h1({a})", "1"), ("{a}", "return h2({a})", "1"),
    ("{a}, {b}", "return {a} - {b}", "O(), 1"), ("{a}, {b}", "return {b} - {a}", "O(), 1"),
    ("{a}", "{t} = {a} + 1\n    return {t}", "O()"), ("{a}", "{t} = {a} + 1\n    return {a}", "O()"),
    ("{a}", "return 1.5", "1"), ("{a}", "return 2.5", "1"), ("{a}", "return None", "1"),
    ("{a}", "return [{a}, 1]", "1"), ("{a}", "return ({a}, 1)", "1"), ("*{a}", "return {a}", "1, 2"),
    ("{a}, *, {b}", "return {a}", "1, {b}=2"), ("{a}, {b}", "return {a}", "1, 2"), ("{a}", "return {a}.x1", "O()"),
    ("{a}", "return {a}.x2", "O()"), ("{a}", "global G1\n    G1 = {a}\n    return G1", "1"),
    ("{a}", "global G2\n    G2 = {a}\n    return G2", "1"), ("{a}", "return [{t} for {t} in {a}]", "O()"),
    ("{a}", "return {SELF}({a}) if {a} else 5", "0"), ("{a}", "return (lambda {t}: {t} + {a})(2)", "1"),
    ("{a}", "return True", "1"), ("{a}", "return 1", "1"),
]
D_PRELUDE = ("def h1(x):\n    return ('h1', x)\ndef h2(x):\n    return ('h2', x)\nG1 = G2 = 0\n"
             "class O:\n    x1 = 'x1'\n    x2 = 'x2'\n    def __len__(self):\n        return 3\n    def __iter__(self):\n        return iter([1, 2])\n"
             "    def __add__(self, o):\n        return 'add'\n    def __sub__(self, o):\n        return 'sub'\n    def __rsub__(self, o):\n        return 'rsub'\n")


def d_module(i, j, names_f, names_g):
    pf, bf, cf = D_BODIES[i]
    pg, bg, cg = D_BODIES[j]
    f = f"def f1({pf.format(**names_f)}):\n    {bf.format(SELF='f1', **names_f)}\n"
    g = f"def f2({pg.format(**names_g)}):\n    {bg.format(SELF='f2', **names_g)}\n"
    return f + g + f"print(f1({cf.format(**names_f)}), f2({cg.format(**names_g)}), G1, G2)\n"


def d_family(tier):
    """pairs of function bodies; the second function uses other bound names than the first"""
    A = {"a": "p", "b": "q", "t": "t"}
    B = {"a": "u", "b": "v", "t": "w"}
    n = len(D_BODIES)
    out = []
    for i in range(n):
        for j in range(n):
            if tier == "quick" and i != j and abs(i - j) != 1 and (i + 2 * j) % 3:
                continue
            out.append((i, j, A, B))
            if i == j:
                out.append((i, j, A, A))
    return out


def run_text(src: str) -> str:
    out = io.StringIO()
    try:
        with contextlib.redirect_stdout(out):
            exec(compile(src, "<d>", "exec"), {"__name__": "d"})
    except Exception as e:  # noqa
        return out.getvalue() + f"<raised {type(e).__name__}>"
    return re.sub(r"0x[0-9a-f]+", "0x", out.getvalue())


# =================================================================================================
# known findings: site + structural predicate on a failing oracle case
# =================================================================================================
def _o_has_dyn(case):
    return "getattr(" in case["source"]


SIGS = {
    "dynamic_name_access": ("*", _o_has_dyn),          # F02-28 (main tranche): reported here as a note only
    "class_creation_observer": ("object_oriented.fix_unconventional_class_definitions", lambda c: "@deco" in c["source"]),
    # F02-34 (main tranche): keyword argument with the parameter name of the removed duplicate
    "duplicate_function_parameter_names": ("fixes.remove_duplicate_functions", lambda c: re.search(r"\b[a-z]=2\)", c["source"]) is not None),
}

# witness programs of findings whose shape is outside the generated families: (finding id, site, keyword arguments, program)
WITNESSES = [
    ("F02cls-2", "fixes.remove_duplicate_functions", {"preserve": P0},
     "def f(x):\n    return x + 1\ndef g(y):\n    return y + 1\nprint(f is g, g.__name__, f(1), g(1))\n"),
    ("F02cls-3", "object_oriented.move_staticmethod_static_scope", {"preserve": P0},
     "class C:\n    @staticmethod\n    def m():\n        return 1\ndef h(C):\n    return C.m()\nclass E:\n    def m(self):\n        return 2\nprint(h(E()), C.m())\n"),
]
# programs that were failing inputs before a repair: they must pass from now on
REGRESSIONS = [
    ("fixes.undefine_unused_variables", {"preserve": P0}, "i = 0\nwhile True:\n    i = i + 1\n    if i > 2:\n        break\nprint('end', i)\n"),
    ("fixes.undefine_unused_variables", {"preserve": P0}, "x = 1\ntry:\n    x = 2\n    raise ValueError\nexcept ValueError:\n    print(x)\n"),
    ("fixes.undefine_unused_variables", {"preserve": P0}, "def c():\n    return True\nv = 0\nwhile c():\n    v = 1\n    if c():\n        break\n    v = 2\nprint(v)\n"),
    ("object_oriented.remove_unused_self_cls", {}, "class A:\n    def __get__(self, inst, owner):\n        return 7\n    def __copy__(self):\n        return 9\nclass H:\n    d = A()\nimport copy\nprint(H().d, copy.copy(A()))\n"),
    ("object_oriented.remove_unused_self_cls", {}, "class A:\n    def m(self):\n        return 1\n    def _get(self):\n        return 2\n    x = property(_get)\nclass B(A):\n    def m(self):\n        return A.m(self) + 1\nprint(B().m(), A().x)\n"),
    ("object_oriented.remove_unused_self_cls", {}, "class C:\n    def m(self):\n        print(1)\nclass D(C):\n    @classmethod\n    def k(cls):\n        super().m(0)\nD.k()\n"),
    ("object_oriented.remove_unused_self_cls", {}, "class A:\n    def m(self):\n        print('A.m')\n    def t(self):\n        self.m()\nclass B(A):\n    def m(self):\n        print('B.m', type(self).__name__)\nB().t()\n"),
    ("object_oriented.move_staticmethod_static_scope", {"preserve": P0}, "class C:\n    @staticmethod\n    def m():\n        return 1\nclass D(C):\n    def k(self):\n        return self.m()\ndef make():\n    return C()\nxs = [C()]\nprint(D().m(), D().k(), make().m(), xs[0].m())\n"),
    ("object_oriented.move_staticmethod_static_scope", {"preserve": P0}, "class C:\n    @staticmethod\n    def m():\n        return 1\n    @staticmethod\n    def __p():\n        return 2\n    def k(self):\n        return self.m() + self.__p()\n_m = 5\nprint(C().k())\n"),
    ("object_oriented.move_staticmethod_static_scope", {"preserve": P0}, "class A:\n    def n(self):\n        return 'A.n'\nclass B:\n    @staticmethod\n    def n():\n        return 'B.n'\n    t = {'k': n}\nprint(A().n(), B.n())\n"),
    ("object_oriented.move_staticmethod_static_scope", {"preserve": P0}, "class C:\n    def __init__(self):\n        print('init')\n    @staticmethod\n    def m():\n        return 1\nprint(C().m())\n"),
    ("object_oriented.fix_unconventional_class_definitions", {}, "a = 5\nclass C:\n    a = 1\nC.b = a\nC.x = C()\nC.__y = 2\nprint(C.b, type(C.x).__name__, '__y' in vars(C))\n"),
    ("fixes.remove_duplicate_functions", {"preserve": P0}, "def f(x):\n    return len(x)\ndef g(x):\n    return sum(x)\ndef h(x):\n    return 1.5\ndef k(x):\n    return 2.5\ndef a(x, *, y):\n    return x\ndef b(x, y):\n    return x\nprint(f([5]), g([5]), h(0), k(0), a(1, y=2), b(1, 2))\n"),
    ("fixes.delete_unused_functions_and_classes", {"preserve": frozenset({"A"})}, "class A:\n    def __init__(self):\n        self.v = 1\n    def __repr__(self):\n        return 'R'\n    def unused(self):\n        return 1\n"),
    # 7051321: deferred read through a function defined outside the compound statement
    ("fixes.undefine_unused_variables", {"preserve": P0}, "def c():\n    return True\nr0 = lambda: v0\nif c():\n    v0 = 5\n    print(r0())\n    v0 = 6\n"),
    ("fixes.undefine_unused_variables", {"preserve": P0}, "def r0():\n    return v0\nfor i in (1, 2):\n    if i:\n        v0 = i\n        print(r0())\n        v0 = 0\n"),
    # ---- round 5: inputs of the repairs made by the owners of these sites (outside the Gallina fragments: decorators,
    # instance attributes, async, private names, metaclasses, unpacking, with / match, generator expressions)
    # remove_unused_self_cls: 77f7c48, 174b72e, 65a0319
    ("object_oriented.remove_unused_self_cls", {}, "class A:\n    def deco(f):\n        return lambda self: 42\n    @deco\n    def m(self):\n        return 1\nprint(A().m())\n"),
    ("object_oriented.remove_unused_self_cls", {}, "def logged(f):\n    def w(self, *a):\n        print(self.name)\n        return f(self, *a)\n    return w\nclass A:\n    name = 'n'\n    @logged\n    def m(self, x):\n        return x + 1\nprint(A().m(1))\n"),
    ("object_oriented.remove_unused_self_cls", {}, "class A:\n    def __init__(self):\n        self.sm = lambda: 'inst'\n    @staticmethod\n    def sm():\n        return 'static'\n    def m(self):\n        return self.sm()\nprint(A().m())\n"),
    # move_staticmethod_static_scope: cca2e92, 699e60b, ae55fdb, ef36830, 4157ff4
    ("object_oriented.move_staticmethod_static_scope", {"preserve": P0}, "import functools\nclass A:\n    @staticmethod\n    @functools.lru_cache(maxsize=None)\n    def m(x):\n        return x + 1\nprint(A.m(1))\n"),
    ("object_oriented.move_staticmethod_static_scope", {"preserve": P0}, "class A:\n    K = 3\n    @staticmethod\n    def m(x=K):\n        return x\nprint(A.m())\n"),
    ("object_oriented.move_staticmethod_static_scope", {"preserve": P0}, "class A:\n    __secret = 7\n    @staticmethod\n    def m():\n        return A.__secret\nprint(A.m())\n"),
    ("object_oriented.move_staticmethod_static_scope", {"preserve": P0}, "import asyncio\nclass A:\n    @staticmethod\n    async def m(x):\n        return x + 1\nasync def main():\n    print(await A.m(1))\nasyncio.run(main())\n"),
    ("object_oriented.move_staticmethod_static_scope", {"preserve": P0}, "class A:\n    @staticmethod\n    def m():\n        return 1\ndef patch():\n    A.m = lambda: 5\npatch()\nprint(A.m())\n"),
    # fix_unconventional_class_definitions: df8723a, 37eacb3
    ("object_oriented.fix_unconventional_class_definitions", {}, "class Foo:\n    a = 1\nFoo.__eq__ = lambda self, other: True\nprint(len({Foo()}))\n"),
    ("object_oriented.fix_unconventional_class_definitions", {}, "import enum\nclass Color(enum.Enum):\n    RED = 1\nColor.default = 5\nprint(list(Color), Color.default)\n"),
    ("object_oriented.fix_unconventional_class_definitions", {}, "class D:\n    def __set_name__(self, owner, name):\n        print('named', name)\nclass Foo:\n    a = 1\nFoo.d = D()\nprint(Foo.a)\n"),
    ("object_oriented.fix_unconventional_class_definitions", {}, "def mk():\n    return Foo.a + 1\nclass Foo:\n    a = 1\nFoo.b = mk()\nprint(Foo.b)\n"),
    # undefine_unused_variables / code_dependencies_outputs: 3d8e8d0, 2a3e428, 2104408, 1fc0899, e5b299f, 11a29b0
    ("fixes.undefine_unused_variables", {"preserve": P0}, "def g():\n    print('g runs')\n    yield 1\n    yield 2\ndef h():\n    a, b = g()\n    return 0\nprint(h())\n"),
    ("fixes.undefine_unused_variables", {"preserve": P0}, "def f():\n    return [1, 2, 3]\ndef h():\n    a, b = f()\n    return 0\ntry:\n    print(h())\nexcept ValueError:\n    print('ValueError')\n"),
    ("fixes.undefine_unused_variables", {"preserve": P0}, "c = 0\nclass A:\n    if c:\n        sep = 'a'\n    else:\n        sep = 'b'\nprint(A.sep)\n"),
    ("fixes.undefine_unused_variables", {"preserve": P0}, "import contextlib\nx = 0\nwith contextlib.suppress(ValueError):\n    print(int('q'))\n    x = 1\nprint(x)\n"),
    ("fixes.undefine_unused_variables", {"preserve": P0}, "def outer():\n    count = 0\n    def inc():\n        nonlocal count\n        count = 1\n    inc()\n    return 'ok'\nprint(outer())\n"),
    ("fixes.undefine_unused_variables", {"preserve": P0}, "x = 1\ng = (i + x for i in range(3))\nx = 2\nprint(list(g))\n"),
    ("fixes.undefine_unused_variables", {"preserve": P0}, "v = 3\nx = 0\nmatch v:\n    case 7:\n        x = 1\nprint(x)\n"),
]


def check_programs(run, mods, kf):
    """witnesses of findings (still failing -> KNOWN-FINDING) and repaired inputs (must pass)"""
    n = 0
    fails = []
    for fid, site, kw, src in WITNESSES:
        m, f = site.split(".")
        mods["core"].parse.cache_clear()
        with common.quiet():
            new = getattr(mods[m], f)(src, **kw)
        before, after = run_text(src), run_text(new)
        n += 1
        listed = [x for x in kf if x.kind == "finding" and x.id == fid and x.fields.get("site") == site]
        if before != after:
            if listed:
                run.known_finding(fid, f"{listed[0].text} [witness prints {before!r} before, {after!r} after]")
            else:
                fails.append((site, {"source": src, "output": new, "problem": f"stdout {before!r} vs {after!r} (witness program)"}))
        elif listed:
            common.log(f"note: known finding {fid} no longer reproduces")
    for site, kw, src in REGRESSIONS:
        m, f = site.split(".")
        mods["core"].parse.cache_clear()
        with common.quiet():
            new = getattr(mods[m], f)(src, **kw)
        before, after = run_text(src), run_text(new)
        n += 1
        if before != after:
            fails.append((site, {"source": src, "output": new, "problem": f"stdout {before!r} vs {after!r} (input of a repaired defect)"}))
        if f == "delete_unused_functions_and_classes" and ("__init__" not in new or "__repr__" not in new or "unused" in new):
            fails.append((site, {"source": src, "output": new, "problem": "magic methods of a preserved class deleted (adbf84a)"}))
    return n, fails


def match_finding(kf, site, case):
    for f in kf:
        if f.kind != "finding":
            continue
        sig = SIGS.get(f.fields.get("sig", ""))
        if not sig or f.fields.get("site") not in (site, "*"):
            continue
        try:
            if sig[1](case):
                return f
        except Exception:  # noqa
            continue
    return None


# =================================================================================================
def _write_cases(wd, tag, items, gfun, ctype, okfun, shard=400):
    files = []
    for k in range(0, len(items), shard):
        body = ";\n ".join(gfun(c) for c in items[k:k + shard])
        p = wd / f"k{tag}_{k // shard}.v"
        p.write_text(HEADER + f"Definition cases : list ({ctype}) := [\n {body}\n].\n"
                              f"Eval vm_compute in (bad_idx {okfun} cases).\n")
        files.append((p, items[k:k + shard]))
    return files


def _eval_files(files):
    res = common.run_case_files([p for p, _ in files])
    bad, errs = [], []
    for p, items in files:
        rc, out = res[p]
        if rc != 0 and not out.strip():        # killed without a message (memory pressure): once more, alone
            rc, out = common.coqc(p, 900)
        idx = common.parse_nat_list(out) if rc == 0 else None
        if idx is None:
            errs.append({"file": p.name, "log": out[-1200:]})
        else:
            bad += [items[i] for i in idx]
    return bad, errs


def check(run, mods, wd, rnd) -> dict:
    t0 = time.time()
    tier = run.tier
    quick = tier == "quick"
    hist = Counter()
    timings = {}
    kf = common.load_findings("C02")
    det = _random.Random(20260929)
    failures = []          # (site, payload) : property-oracle failures with a concrete input
    disagreements = []     # correspondence problems (no failing input yet)
    reproduced = {}

    # ------------------------------------------------------------------ Part L
    l_cases, l_line, l_problems = [], [], []
    l_fired = {}
    fam = l_family(tier)
    if quick:       # all straight-line programs of <= 2 atoms, a third of the rest
        fam = [p for i, p in enumerate(fam) if (len(p) <= 2 and all(s[0] in ("asg", "ev") for s in p)) or i % 3 == 0]
    rands = [p for p in (l_rand_prog(rnd) for _ in range(60 if quick else 1500)) if M.well_formed(p)]
    dets = [p for p in (l_rand_prog(det) for _ in range(60 if quick else 1500)) if M.well_formed(p)]
    progs = [(p, 0, False) for p in fam] + [(p, m, False) for p in fam[:: (17 if quick else 2)] for m in (1, 2)] \
        + [(p, det.choice([0, 0, 1, 2]), False) for p in dets] + [(p, rnd.choice([0, 0, 1, 2]), True) for p in rands]
    n_oracle = 0
    for p, mode, seeded in progs:
        src, out, q = l_apply(mods, p, mode)
        if isinstance(q, tuple):
            l_problems.append({"rule": "fixes.undefine_unused_variables", "source": src, "output": out, "problem": list(q)})
            continue
        l_cases.append((p, q, src, out, mode))
        if all(s[0] in ("pass", "ev", "asg") for s in p) and mode == 0:
            l_line.append((p, q, src, out, mode))
        if q != p:
            hist["L:fired"] += 1
            l_fired.setdefault(src, (p, q, out, mode, seeded))
        else:
            hist["L:silent"] += 1
    timings["L_apply_s"] = round(time.time() - t0, 1)
    for src, (p, q, out, mode, seeded) in l_fired.items():
        if seeded:
            continue
        n_oracle += 1
        d = l_oracle(src, out, mode, 3 if quick else 4)
        if d:
            failures.append(("fixes.undefine_unused_variables", {"source": src, "output": out, **d,
                             "problem": "un-assigning changes the run: " + json.dumps(d)[:300]}))
    timings["L_oracle_s"] = round(time.time() - t0, 1)
    files_l = _write_cases(wd, "uv", l_cases, lambda c: f"({M.g_prog(c[0])}, {M.g_prog(c[1])})", "list stmt * list stmt", "(uv_case_ok 4)")
    files_ll = _write_cases(wd, "uvl", l_line, lambda c: f"({M.g_prog(c[0])}, {M.g_prog(c[1])})", "list stmt * list stmt", "uv_line_case_ok")

    # ------------------------------------------------------------------ Part O
    o_cases, o_sem, o_problems = [], [], []
    o_fired = {}
    sem_seen = set()
    n_rand = 50 if quick else 1500
    for rid in O_RULES:
        site = ".".join(O_RULES[rid][:2])
        famo = O_FAMILIES[rid](tier)
        if quick:
            famo = famo[:: max(1, len(famo) // 330)]
        famo = famo + (O_ALWAYS[rid]() if rid in O_ALWAYS else [])
        mods_in = [(m, False) for m in famo]
        mods_in += [(m, False) for m in (o_rand_module(det) for _ in range(n_rand)) if o_wellformed(m)]
        mods_in += [(m, True) for m in (o_rand_module(rnd) for _ in range(n_rand)) if o_wellformed(m)]
        for mod, seeded in mods_in:
            src, out, q = o_apply(mods, rid, mod)
            try:
                back = o_parse(src)
            except Unsupported:
                # a generated module outside the grammar the parser supports: skipped and counted, never a crash
                hist[f"{rid}:unsupported-input"] += 1
                continue
            if back != mod:
                o_problems.append({"rule": site, "source": src, "problem": ["printer/parser round trip"]})
                continue
            if isinstance(q, tuple):
                o_problems.append({"rule": site, "source": src, "output": out, "problem": list(q)})
                continue
            o_cases.append((rid, mod, q, src, out))
            fired = out != src
            hist[f"{rid}:{'fired' if fired else 'silent'}"] += 1
            if fired:
                o_fired.setdefault((rid, src), (mod, q, out, seeded))
            for text, term in ((src, mod), (out, q)):
                if text not in sem_seen and (fired or len(sem_seen) % 3 == 0):
                    sem_seen.add(text)
                    if re.search(r"__q\d", text):
                        hist["O:sem-skip-mangled"] += 1      # name mangling is not part of the object semantics
                        continue
                    tr, oc = o_run(text)
                    if oc is None or oc.startswith("other:"):
                        hist["O:sem-outside-model:" + str(oc)] += 1
                        continue
                    o_sem.append((term, tr, oc, text))
    timings["O_apply_s"] = round(time.time() - t0, 1)
    for (rid, src), (mod, q, out, seeded) in o_fired.items():
        if seeded:
            continue
        n_oracle += 1
        site = ".".join(O_RULES[rid][:2])
        b = o_run(src)
        if b[1] != "OOk":
            hist["O:oracle-original-raises"] += 1
            continue
        a = o_run(out)
        if a != b:
            case = {"source": src, "output": out, "before": repr(b), "after": repr(a),
                    "problem": f"trace / outcome {b!r} before, {a!r} after"}
            f = match_finding(kf, site, case)
            if f is None:
                failures.append((site, case))
            else:
                reproduced.setdefault(f.id, (f, []))[1].append(case)
    timings["O_oracle_s"] = round(time.time() - t0, 1)
    files_o = _write_cases(wd, "orule", o_cases, lambda c: f"({c[0]}, {g_mod(c[1])}, {g_mod(c[2])})", "orule * module * module", "o_case_ok", 300)
    files_os = _write_cases(wd, "osem", o_sem, lambda c: f"({g_mod(c[0])}, {glist(c[1])}, {c[2]})", "module * list tev * outc", "o_sem_case_ok", 300)

    # ------------------------------------------------------------------ Part U
    u_cases, u_sem, u_fired = [], [], {}
    site_u = "object_oriented.fix_unconventional_class_definitions"
    ufam = u_family(tier)
    for p in ufam:
        src, out, q = u_apply(mods, p)
        if isinstance(q[0], str):
            o_problems.append({"rule": site_u, "source": src, "output": out, "problem": list(q)})
            continue
        u_cases.append((p, q[0], q[1], src, out))
        hist[f"U:{'fired' if out != src else 'silent'}"] += 1
        if out != src:
            u_fired[src] = (p, out)
        if out != src or len(u_sem) % 4 == 0:
            try:
                ok, log, attrs = u_run(src)
                u_sem.append((p, ok, glist(log, _g_uval), glist(attrs if ok else [], lambda a: f"({a[0]}, {_g_uval(a[1])})"), src))
            except Unsupported:
                hist["U:sem-unsupported"] += 1
    for src, (p, out) in u_fired.items():
        n_oracle += 1
        tail = "print(sorted((k, repr(v)) for k, v in vars(C1).items() if k[:2] != '__' or k[:3] == '__q'))\n"
        b = run_text(U_STUBS + src + tail)
        if "<raised" in b:
            continue
        a = run_text(U_STUBS + out + tail)
        if a != b:
            case = {"source": src, "output": out, "before": b, "after": a, "problem": f"{b!r} before, {a!r} after"}
            f = match_finding(kf, site_u, case)
            if f is None:
                failures.append((site_u, case))
            else:
                reproduced.setdefault(f.id, (f, []))[1].append(case)
    files_u = _write_cases(wd, "urule", u_cases, lambda c: f"({g_uprog(c[0])}, {g_binds(c[1])}, {g_binds(c[2])})",
                           "uprog * list (name * vexpr) * list (name * vexpr)", "u_case_ok")
    files_us = _write_cases(wd, "usem", u_sem, lambda c: f"({g_uprog(c[0])}, {'true' if c[1] else 'false'}, {c[2]}, {c[3]})",
                            "uprog * bool * list uval * ns", "u_sem_case_ok")
    timings["U_s"] = round(time.time() - t0, 1)

    # ------------------------------------------------------------------ Part D
    d_cases, d_fired = [], 0
    site_d = "fixes.remove_duplicate_functions"
    for (i, j, nf, ng) in d_family(tier):
        src = d_module(i, j, nf, ng)
        tree = ast.parse(src)
        ids, names = _Intern(), _Intern()
        tf, tg = d_tokens(tree.body[0], ids, names), d_tokens(tree.body[1], ids, names)
        mods["core"].parse.cache_clear()
        try:
            with common.quiet():
                out = mods["fixes"].remove_duplicate_functions(src, preserve=P0)
        except Exception as e:  # noqa
            o_problems.append({"rule": site_d, "source": src, "problem": ["raised", f"{type(e).__name__}: {e}"]})
            continue
        merged = "def f2" not in out
        d_cases.append((tf, tg, merged, src, out))
        hist[f"D:{'merged' if merged else 'kept'}"] += 1
        if out != src:
            d_fired += 1
            n_oracle += 1
            b = run_text(D_PRELUDE + src)
            if "<raised" in b:
                continue
            a = run_text(D_PRELUDE + out)
            if a != b:
                case = {"source": src, "output": out, "before": b, "after": a, "problem": f"{b!r} before, {a!r} after"}
                f = match_finding(kf, site_d, case)
                if f is None:
                    failures.append((site_d, case))
                else:
                    reproduced.setdefault(f.id, (f, []))[1].append(case)
    files_d = _write_cases(wd, "dup", d_cases, lambda c: f"({g_toks(c[0])}, {g_toks(c[1])}, {'true' if c[2] else 'false'})",
                           "list tok * list tok * bool", "d_case_ok")
    n_prog, prog_fails = check_programs(run, mods, kf)
    failures += prog_fails
    timings["D_s"] = round(time.time() - t0, 1)

    # ------------------------------------------------------------------ evaluate the models
    bad_l, e1 = _eval_files(files_l)
    bad_ll, e2 = _eval_files(files_ll)
    bad_o, e3 = _eval_files(files_o)
    bad_os, e4 = _eval_files(files_os)
    bad_u, e5 = _eval_files(files_u)
    bad_us, e6 = _eval_files(files_us)
    bad_d, e7 = _eval_files(files_d)
    timings["coq_s"] = round(time.time() - t0, 1)
    for c in bad_l:
        disagreements.append({"kind": "liveness-check", "rule": "fixes.undefine_unused_variables", "source": c[2], "output": c[3],
                              "mode": c[4], "kernel": "RulesClsModel.uv_ok",
                              "explanation": "the rule un-assigned an assignment that the proved liveness analysis does not find dead"})
    for c in bad_ll:
        disagreements.append({"kind": "rule-model", "rule": "fixes.undefine_unused_variables", "source": c[2], "output": c[3],
                              "kernel": "RulesClsModel.uv_line", "explanation": "straight-line decision differs from the model"})
    for c in bad_o:
        disagreements.append({"kind": "rule-model", "rule": ".".join(O_RULES[c[0]][:2]), "source": c[3], "output": c[4],
                              "kernel": "RulesClsModel." + {"ORs": "rs_model", "OMs": "ms_model", "ODu": "du_model"}[c[0]],
                              "explanation": "the real rule and its Gallina model disagree on this module"})
    for c in bad_os:
        disagreements.append({"kind": "semantics", "source": c[3], "cpython": [c[1], c[2]], "term": g_mod(c[0]), "kernel": "RulesClsModel.run",
                              "explanation": "CPython and the object semantics disagree on a printed module"})
    for c in bad_u:
        disagreements.append({"kind": "rule-model", "rule": site_u, "source": c[3], "output": c[4], "kernel": "RulesClsModel.fu_model",
                              "explanation": "the real rule and its Gallina model disagree on which assignments move"})
    for c in bad_us:
        disagreements.append({"kind": "semantics", "source": c[4], "cpython": [c[1], c[2], c[3]], "kernel": "RulesClsModel.urun",
                              "explanation": "CPython and the class-body semantics disagree on a printed program"})
    for c in bad_d:
        disagreements.append({"kind": "rule-model", "rule": site_d, "source": c[3], "output": c[4], "kernel": "RulesClsModel.dup_eqb",
                              "explanation": "the real rule merges / keeps two functions, the numbering model says the opposite"})
    for e in e1 + e2 + e3 + e4 + e5 + e6 + e7:
        disagreements.append({"kind": "model-evaluation-failed", **e})
    for c in (l_problems + o_problems):
        disagreements.append({"kind": "rule-output-outside-fragment", **c})

    # failing-input search for a broken correspondence: the oracle on that very input (all scripts)
    searched = []
    if not failures:
        for d in disagreements[:12]:
            if d.get("rule") == "fixes.undefine_unused_variables" and d.get("output"):
                x = l_oracle(d["source"], d["output"], d.get("mode", 0), 5)
                if x:
                    searched.append(("fixes.undefine_unused_variables", {**d, **x, "problem": "found by the failing-input search"}))
            elif d.get("kind") == "rule-model" and d.get("output") and d.get("rule") in (site_u, site_d):
                pre = D_PRELUDE if d["rule"] == site_d else U_STUBS
                b, a = run_text(pre + d["source"]), run_text(pre + d["output"])
                if "<raised" not in b and a != b:
                    searched.append((d["rule"], {**d, "before": b, "after": a, "problem": "found by the failing-input search"}))
            elif d.get("kind") in ("rule-model", "rule-output-outside-fragment") and d.get("output") and "class C" in d.get("source", ""):
                b = o_run(d["source"])
                a = o_run(d["output"])
                if b[1] == "OOk" and a != b:
                    searched.append((d["rule"], {**d, "before": repr(b), "after": repr(a), "problem": "found by the failing-input search"}))

    # ------------------------------------------------------------------ verdicts
    for fid, (f, hits) in sorted(reproduced.items()):
        if re.match(r"F02cls-", fid):
            run.known_finding(fid, f"{f.text} [{len(hits)} instances, e.g. {hits[0]['problem'][:240]}]")
        else:
            hist[f"covered-by:{fid}"] += len(hits)
    seen_sites = Counter()
    for site, f in failures + searched:
        seen_sites[site] += 1
        if seen_sites[site] <= 2:
            run.violation({"tranche": TRANCHE, **f, "kind": "property-oracle", "site": site,
                           "explanation": "executing the rewritten program gives a different trace / outcome"}, True)
    if not failures and not searched:
        for d in disagreements[:5]:
            run.violation({"tranche": TRANCHE, **d}, False)
    elif disagreements:
        run.notes.append(f"cls tranche: {len(disagreements)} correspondence disagreements alongside the oracle failures")

    n_fired = len(l_fired) + len(o_fired) + len(u_fired) + d_fired
    samples = [s for s in list(l_fired)[:2]] + [k[1] for k in list(o_fired)[:: max(1, len(o_fired) // 4)]][:4]
    return {
        "evaluations": len(l_cases) + len(l_line) + len(o_cases) + len(o_sem) + len(u_cases) + len(u_sem) + len(d_cases) + n_oracle + n_prog,
        "distinct_nontrivial": n_fired,
        "rule": ("L: module-level MiniPy programs (all sequences of <= 3 of 8 assignment/event atoms, one if/while/for "
                 "with small bodies incl. break/continue between prefix and suffix atoms, nested samples, 3 reader modes, "
                 "seeded random): real undefine_unused_variables output accepted by the proved checker uv_ok; exact "
                 "uv_line on straight-line programs. O: printed class modules (structured families per rule + random): "
                 "real rule output == Gallina model (items up to order); run_module == CPython (trace, exception class). "
                 "Non-trivial = the real rule changed the text; distinct by (rule, source)."),
        "samples": samples,
        "modelled_rules": ["fixes.undefine_unused_variables", "object_oriented.remove_unused_self_cls",
                           "object_oriented.move_staticmethod_static_scope", "fixes.delete_unused_functions_and_classes",
                           "object_oriented.fix_unconventional_class_definitions", "fixes.remove_duplicate_functions"],
        "histogram": dict(hist), "liveness_cases": len(l_cases), "straight_line_cases": len(l_line),
        "object_rule_cases": len(o_cases), "object_semantics_cases": len(o_sem), "oracle_cases": n_oracle,
        "unconventional_cases": len(u_cases), "unconventional_semantics_cases": len(u_sem), "duplicate_cases": len(d_cases),
        "witness_and_regression_programs": n_prog,
        "correspondence_disagreements": len(disagreements), "oracle_failures": len(failures) + len(searched),
        "timings_cumulative": timings,
    }


TRUSTED_BASE = [
    "harness/c02_cls.py printers / parsers for module-level MiniPy programs and class modules (round trip asserted)",
    "RulesClsModel.run (object semantics: one base class, instance / class / super lookup, binding of plain, static and "
    "class methods, properties) is a definition, validated against CPython on every fired input and output",
    "MiniPy variables are always bound: that un-assigning introduces no NameError follows from the same liveness "
    "condition and is executed by the oracle on CPython",
]
UNMODELLED = []
ASSUMPTIONS = [
    "class names are not rebound, instances are only made by C() and module variables o<c>; no metaclasses, no "
    "multiple inheritance, no instance attributes",
    "undefine_unused_variables: the checker validates each output of the real rule (translation validation with a "
    "proved checker); the rule's own algorithm is modelled exactly on straight-line code only",
]


def replay(mods, data) -> int:
    print(json.dumps({k: data[k] for k in data if k in ("kind", "site", "rule", "kernel", "explanation", "problem")}, indent=1))
    src = data.get("source")
    site = data.get("site") or data.get("rule")
    if not src or not site:
        return 0
    m, f = site.split(".")
    fn = getattr(mods[m], f)
    mods["core"].parse.cache_clear()
    with common.quiet():
        try:
            new = fn(src, preserve=P0)
        except TypeError:
            new = fn(src)
    print("input:\n" + src + "output now:\n" + new)
    if f == "undefine_unused_variables":
        d = l_oracle(src, new, data.get("mode", 0), 5)
        print("oracle:", d)
        return 1 if d else 0
    b, a = o_run(src), o_run(new)
    print("before:", b, "after:", a)
    return 1 if (b[1] == "OOk" and a != b) else 0
