"""C01 corpus: closed, deterministic, terminating Python programs (seed-independent).

Three sources:
  (a) generated: program i of family F is derived from the index i through a fixed hash stream (no PRNG state, no
      dependence on VERIF_SEED): `flow` = control-flow skeletons whose every block prints a unique tag,
      `data` = typed expression / idiom programs (comprehensions, list/dict/set ops, string formatting, classes,
      try/except, with); every function result and every module-level name is printed;
  (b) per-rule trigger programs (hand-written, one or more per rule family);
  (c) repository examples read at run time from $VERIF_REPO/tests (integration pairs and the string literals of the
      unit example scripts); only those that run to completion stand-alone are used.
"""
from __future__ import annotations

import ast
import hashlib
from pathlib import Path


class Stream:
    """Deterministic choice stream derived from (family, index)."""

    def __init__(self, family: str, index: int):
        self.key = f"c01/{family}/{index}".encode()
        self.n = 0
        self.buf = b""

    def _byte(self) -> int:
        if not self.buf:
            self.buf = hashlib.sha256(self.key + b"/" + str(self.n).encode()).digest()
            self.n += 1
        b, self.buf = self.buf[0], self.buf[1:]
        return b

    def below(self, k: int) -> int:
        assert k > 0
        if k == 1:
            return 0
        return ((self._byte() << 8) | self._byte()) % k

    def pick(self, seq):
        return seq[self.below(len(seq))]

    def chance(self, num: int, den: int) -> bool:
        return self.below(den) < num

    def weighted(self, pairs):
        total = sum(w for _, w in pairs)
        r = self.below(total)
        for v, w in pairs:
            if r < w:
                return v
            r -= w
        return pairs[-1][0]


def ind(lines, n=1):
    return ["    " * n + l for l in lines]


# ------------------------------------------------------------------------------------------------
# (a1) control-flow skeletons


class FlowGen:
    ARGS = [(0, 0), (0, 1), (1, 0), (1, 1), (2, 1), (-1, 2), (3, 3)]

    def __init__(self, index: int):
        self.s = Stream("flow", index)
        self.tag = 0
        self.vars = ["v", "w"]
        self.loopvar = 0

    def newtag(self):
        self.tag += 1
        return self.tag

    def cond(self):
        s = self.s
        return s.weighted([
            ("p > 0", 4), ("q == 1", 3), ("p", 2), ("not p", 2), ("p and q", 2), ("p or q", 2), ("p > q", 3),
            ("v > 1", 3), ("w == 0", 2), ("True", 1), ("False", 1), ("p is None", 1), ("v in (1, 2)", 1),
            ("p == q", 2), ("not q", 1), ("p > 0 and q > 0", 1), ("v < w", 1), ("p >= 1", 1), ("q != 1", 1)])

    def simple(self, in_loop, in_func):
        s = self.s
        k = s.weighted([("print", 5), ("assign", 5), ("return", 2 if in_func else 0), ("brk", 2 if in_loop else 0),
                        ("pass", 1), ("raise", 1), ("expr", 1)])
        if k == "print":
            return [f"print({self.newtag()})"] if s.chance(2, 3) else [f"print({self.newtag()}, v, w)"]
        if k == "assign":
            v = s.pick(self.vars)
            return [s.pick([f"{v} = {s.below(4)}", f"{v} = {v} + 1", f"{v} += {1 + s.below(2)}", f"{v} = p",
                            f"{v} = {s.pick(self.vars)}", f"{v} = q * 2", f"{v} = {v} * 2 + 1"])]
        if k == "return":
            return [s.pick([f"return {self.newtag() * 100}", "return v", "return (v, w)", "return None", "return",
                            "return w + 1", "return True", "return False", f"return p > {s.below(2)}"])]
        if k == "brk":
            return [s.pick(["break", "continue"])]
        if k == "raise":
            return [f"raise ValueError({self.newtag()})"]
        if k == "expr":
            return [s.pick(["v", "v + 1", "p == q", "None", "(v, w)"])]
        return ["pass"]

    def block(self, depth, in_loop, in_func, n=None):
        s = self.s
        n = n or s.weighted([(1, 4), (2, 4), (3, 2)])
        out = []
        for _ in range(n):
            out += self.stmt(depth, in_loop, in_func)
        return out

    def stmt(self, depth, in_loop, in_func):
        s = self.s
        if depth <= 0:
            return self.simple(in_loop, in_func)
        k = s.weighted([("simple", 8), ("if", 7), ("for", 3), ("while", 2), ("whiletrue", 1), ("try", 2), ("with", 1),
                        ("ifbrk", 2 if in_loop else 0)])
        if k == "simple":
            return self.simple(in_loop, in_func)
        if k == "ifbrk":
            return [f"if {self.cond()}:"] + ind([s.pick(["break", "continue"])])
        if k == "if":
            out = [f"if {self.cond()}:"] + ind(self.block(depth - 1, in_loop, in_func))
            r = s.below(10)
            if r < 5:
                out += ["else:"] + ind(self.block(depth - 1, in_loop, in_func))
            elif r < 7:
                out += [f"elif {self.cond()}:"] + ind(self.block(depth - 1, in_loop, in_func))
                if s.chance(1, 2):
                    out += ["else:"] + ind(self.block(depth - 1, in_loop, in_func))
            return out
        if k == "for":
            self.loopvar += 1
            lv = f"i{self.loopvar}"
            it = s.pick(["[1, 2, 3]", "range(2)", "(p, q)", "range(p)", "[0]", "()", "range(3)", "[q]"])
            out = [f"for {lv} in {it}:"] + ind(self.block(depth - 1, True, in_func))
            if s.chance(1, 3):
                out += ["else:"] + ind(self.block(depth - 1, in_loop, in_func))
            return out
        if k == "while":
            self.loopvar += 1
            n = f"n{self.loopvar}"
            out = [f"{n} = {s.pick(['2', '3', 'p', 'q + 1'])}", f"while {n} > 0:"] + ind(
                [f"{n} -= 1"] + self.block(depth - 1, True, in_func))
            if s.chance(1, 3):
                out += ["else:"] + ind(self.block(depth - 1, in_loop, in_func))
            return out
        if k == "whiletrue":
            self.loopvar += 1
            n = f"n{self.loopvar}"
            body = [f"{n} += 1", f"if {n} > {1 + s.below(3)}:"] + ind(["break"]) + self.block(depth - 1, True, in_func)
            return [f"{n} = 0", f"while {s.pick(['True', '1'])}:"] + ind(body)
        if k == "try":
            body = self.block(depth - 1, in_loop, in_func)
            if s.chance(1, 2):
                body = body + [f"if {self.cond()}:"] + ind([f"raise ValueError({self.newtag()})"])
            out = ["try:"] + ind(body) + [f"except ValueError{s.pick([' as e', ''])}:"] + ind(
                self.block(depth - 1, in_loop, in_func, 1))
            r = s.below(6)
            if r == 0:
                out += ["else:"] + ind(self.block(depth - 1, in_loop, in_func, 1))
            elif r == 1:
                out += ["finally:"] + ind([f"print({self.newtag()})"])
            return out
        if k == "with":
            return ["with contextlib.nullcontext():"] + ind(self.block(depth - 1, in_loop, in_func))
        return ["pass"]

    def program(self) -> str:
        s = self.s
        depth = s.weighted([(1, 2), (2, 5), (3, 3)])
        body = ["v = 0", "w = 1"] if s.chance(3, 4) else ["v = p", "w = q"]
        body += self.block(depth, False, True, s.weighted([(2, 3), (3, 4), (4, 2)]))
        body += [s.pick(["return (v, w)", "return v", "return w", f"print({self.newtag()}, v, w)"])]
        lines = ["import contextlib", "", "", "def run(p, q):"] + ind(body) + ["", ""]
        lines += ["for _p, _q in %r:" % (self.ARGS,)] + ind(
            ["try:"] + ind(["print(_p, _q, run(_p, _q))"]) + ["except ValueError as _e:"] + ind(["print(_p, _q, 'ValueError', _e)"]))
        return "\n".join(lines) + "\n"


def flow_program(i: int) -> str:
    return FlowGen(i).program()


# ------------------------------------------------------------------------------------------------
# (a2) typed expression / idiom programs

INT_NAMES = ["a", "b", "n", "total", "count", "idx", "myValue", "k2", "res", "acc"]
LIST_NAMES = ["xs", "ys", "items", "out", "vals", "resultList", "seq"]
STR_NAMES = ["s", "t", "label", "msg", "textValue"]
DICT_NAMES = ["d", "m", "table", "lookup"]
SET_NAMES = ["st", "seen", "uniq"]


class _Shadow(dict):
    """Environment view used inside an idiom: reads see the bindings from before the idiom, writes go to the real one."""

    def __init__(self, real):
        super().__init__(real)
        self.ro = dict(real)
        self.real = real

    def __setitem__(self, k, v):
        self.real[k] = v

    def items(self):
        return self.ro.items()

    def __contains__(self, k):
        return k in self.real


class DataGen:
    def __init__(self, index: int):
        self.s = Stream("data", index)
        self.tmp = 0

    # ---- expressions; env: dict name -> type in {"int","bool","list","str","dict","set"}
    def names(self, env, ty):
        return [n for n, t in env.items() if t == ty]

    def e_int(self, env, d):
        s = self.s
        vs = self.names(env, "int")
        if d <= 0 or s.chance(1, 3):
            if vs and s.chance(3, 4):
                return s.pick(vs)
            return str(s.pick([0, 1, 2, 3, 5, 10, -1]))
        k = s.below(14)
        if k < 4:
            return f"{self.e_int(env, d - 1)} {s.pick(['+', '-', '*'])} {self.e_int(env, d - 1)}"
        if k == 4:
            return f"({self.e_int(env, d - 1)}) % {s.pick([2, 3, 5])}"
        if k == 5:
            return f"({self.e_int(env, d - 1)}) // {s.pick([2, 3])}"
        if k == 6:
            return f"len({self.e_list(env, d - 1) if s.chance(1, 6) else (s.pick(self.names(env, 'list') or ['[4, 4]']))})"
        if k == 7:
            return f"sum({self.e_list(env, d - 1)})"
        if k == 8:
            return f"max({self.e_list(env, d - 1)} + [0])"
        if k == 9:
            return f"abs({self.e_int(env, d - 1)})"
        if k == 10:
            return f"({self.e_int(env, d - 1)} if {self.e_bool(env, d - 1)} else {self.e_int(env, d - 1)})"
        if k == 11:
            return f"int({self.e_bool(env, d - 1)})"
        if k == 12:
            return f"sum([{self.e_int(dict(env, z='int'), d - 1)} for z in {self.e_list(env, d - 1)}])"
        return f"min({self.e_int(env, d - 1)}, {self.e_int(env, d - 1)})"

    def e_bool(self, env, d):
        s = self.s
        if d <= 0 or s.chance(1, 4):
            return f"{self.e_int(env, 0)} {s.pick(['<', '<=', '==', '!=', '>', '>='])} {self.e_int(env, 0)}"
        k = s.below(14)
        if k < 4:
            return f"{self.e_int(env, d - 1)} {s.pick(['<', '<=', '==', '!=', '>', '>='])} {self.e_int(env, d - 1)}"
        if k == 4:
            return f"not {self.e_bool(env, d - 1)}"
        if k == 5:
            return f"({self.e_bool(env, d - 1)} and {self.e_bool(env, d - 1)})"
        if k == 6:
            return f"({self.e_bool(env, d - 1)} or {self.e_bool(env, d - 1)})"
        if k == 7:
            return f"{self.e_int(env, d - 1)} {s.pick(['in', 'not in'])} {self.e_list(env, d - 1)}"
        if k == 8:
            v = self.e_int(env, 0)
            c = s.pick([0, 1, 2])
            return s.pick([f"({v} > {c} and {v} >= {c})", f"({v} > {c} and {v} > {c + 1})", f"({v} < {c} or {v} < {c + 2})",
                           f"({v} >= {c} and {v} <= {c})", f"not {v} == {c}", f"not {v} < {c}", f"({v} == {c} or {v} == {c + 1})"])
        if k == 9:
            return s.pick(["True", "False", f"{(self.names(env, 'int') or ['0'])[0]} == None", f"{(self.names(env, 'list') or ['[]'])[0]} is not None",
                           f"bool({self.e_list(env, 0)})", f"len({self.e_list(env, 0)}) == 0", f"len({self.e_list(env, 0)}) > 0"])
        if k == 10:
            return f"{self.e_int(env, 0)} in {s.pick(['[1, 2, 3]', '(0, 1)', '{2, 3}', '[0]', 'range(3)'])}"
        if k == 11:
            return f"any([{self.e_bool(dict(env, z='int'), d - 1)} for z in {self.e_list(env, d - 1)}])"
        if k == 12:
            return f"all({self.e_bool(dict(env, z='int'), d - 1)} for z in {self.e_list(env, d - 1)})"
        return f"isinstance({self.e_int(env, 0)}, int)"

    def e_list(self, env, d):
        s = self.s
        vs = self.names(env, "list")
        if d <= 0 or s.chance(1, 3):
            if vs and s.chance(3, 4):
                return s.pick(vs)
            return s.pick(["[1, 2, 3]", "[3, 1, 2]", "[]", "[0, 0, 1]", "[5]", "[2, 4, 6, 8]", "[1, -1]"])
        k = s.below(15)
        z = dict(env, z="int")
        if k == 0:
            return f"list(range({self.e_int(env, d - 1)} % 6))"
        if k == 1:
            return f"[{self.e_int(z, d - 1)} for z in {self.e_list(env, d - 1)}]"
        if k == 2:
            return f"[{self.e_int(z, d - 1)} for z in {self.e_list(env, d - 1)} if {self.e_bool(z, d - 1)}]"
        if k == 3:
            return f"sorted({self.e_list(env, d - 1)})"
        if k == 4:
            return f"{self.e_list(env, d - 1)} + {self.e_list(env, d - 1)}"
        if k == 5:
            return f"list({self.e_list(env, d - 1)})"
        if k == 6:
            return f"{self.e_list(env, 0)}[{s.pick(['1:', ':2', '::2', '::-1', ':-1'])}]"
        if k == 7:
            return f"list(reversed({self.e_list(env, d - 1)}))"
        if k == 8:
            return f"list(map(lambda z: {self.e_int(z, d - 1)}, {self.e_list(env, d - 1)}))"
        if k == 9:
            return f"list(filter(lambda z: {self.e_bool(z, d - 1)}, {self.e_list(env, d - 1)}))"
        if k == 10:
            return f"[z for z in {self.e_list(env, d - 1)}]"
        if k == 11:
            return s.pick([f"sorted(list({self.e_list(env, d - 1)}))", f"list(sorted({self.e_list(env, d - 1)}))",
                           f"sorted(set({self.e_list(env, d - 1)}))", f"sorted({self.e_list(env, d - 1)}, reverse=True)",
                           f"list(reversed(sorted({self.e_list(env, d - 1)})))", f"sorted(reversed({self.e_list(env, d - 1)}))",
                           f"sorted({self.e_list(env, d - 1)}, key=lambda z: -z)", f"sorted({self.e_list(env, d - 1)})[:2]",
                           f"list(set({self.e_list(env, d - 1)}))[:0]", f"list(tuple({self.e_list(env, d - 1)}))"])
        if k == 12:
            return f"[z for z in range({s.pick([5, 8, 10])}) if {s.pick(['z > 2', 'z < 4', 'z >= 3 and z < 7', 'z % 2 == 0', 'z > 1 and z > 3'])}]"
        if k == 13:
            ds = self.names(env, "dict")
            if ds:
                dd = s.pick(ds)
                return s.pick([f"list({dd}.keys())", f"list({dd}.values())", f"[k for k in {dd}.keys()]", f"[v for k, v in {dd}.items()]",
                               f"[k for k, v in {dd}.items()]", f"sorted({dd})"])
            return f"[*{self.e_list(env, d - 1)}, {self.e_int(env, 0)}]"
        return f"[{self.e_int(env, d - 1)}, {self.e_int(env, d - 1)}]"

    def e_str(self, env, d):
        s = self.s
        vs = self.names(env, "str")
        if d <= 0 or s.chance(1, 3):
            if vs and s.chance(2, 3):
                return s.pick(vs)
            return s.pick(['"ab"', '"x"', '""', '"Hello World"', "'it''s'", '"a,b"'])
        k = s.below(9)
        if k == 0:
            return f'f"{{{self.e_int(env, d - 1)}}}-{{{self.e_str(env, 0)}}}"'
        if k == 1:
            return f"str({self.e_int(env, d - 1)})"
        if k == 2:
            return f'"%d:%s" % ({self.e_int(env, d - 1)}, {self.e_str(env, 0)})'
        if k == 3:
            return f'"{{}}/{{}}".format({self.e_int(env, d - 1)}, {self.e_int(env, 0)})'
        if k == 4:
            return f"{self.e_str(env, d - 1)} + {self.e_str(env, d - 1)}"
        if k == 5:
            return f'",".join(str(z) for z in {self.e_list(env, d - 1)})'
        if k == 6:
            return f"{self.e_str(env, 0)}.{s.pick(['upper()', 'lower()', 'strip()', 'title()'])}"
        if k == 7:
            return f'",".join([str(z) for z in {self.e_list(env, d - 1)}])'
        return f"repr({self.e_list(env, d - 1)})"

    def e_dict(self, env, d):
        s = self.s
        vs = self.names(env, "dict")
        if vs and s.chance(1, 2):
            return s.pick(vs)
        z = dict(env, z="int")
        return s.pick(["{1: 2, 3: 4}", "{}", "{0: 0}", "{1: 1, 1: 2}", f"{{z: {self.e_int(z, d)} for z in {self.e_list(env, d)}}}",
                       f"dict(zip({self.e_list(env, 0)}, {self.e_list(env, 0)}))", "dict()", "{**{1: 2}, **{3: 4}}", "{**{1: 2}}"])

    def e_set(self, env, d):
        s = self.s
        vs = self.names(env, "set")
        if vs and s.chance(1, 2):
            return s.pick(vs)
        z = dict(env, z="int")
        return s.pick(["{1, 2}", "set()", "{1, 1, 2}", f"set({self.e_list(env, d)})", f"{{{self.e_int(z, d)} for z in {self.e_list(env, d)}}}",
                       f"set([{self.e_int(env, 0)}, {self.e_int(env, 0)}])", "{*[1, 2], 3}", f"set(z for z in {self.e_list(env, d)})"])

    def expr(self, env, ty, d):
        return {"int": self.e_int, "bool": self.e_bool, "list": self.e_list, "str": self.e_str, "dict": self.e_dict,
                "set": self.e_set}[ty](env, d)

    def fresh(self, env, ty):
        pool = {"int": INT_NAMES, "bool": ["flag", "ok", "isSet"], "list": LIST_NAMES, "str": STR_NAMES, "dict": DICT_NAMES,
                "set": SET_NAMES}[ty]
        cand = [n for n in pool if n not in env]
        if cand:
            return self.s.pick(cand)
        self.tmp += 1
        return f"{pool[0]}_{self.tmp}"

    # ---- statements: return list of lines; env is updated in place when a name is (definitely) bound
    def stmts(self, env, depth, n, in_loop=False, in_func=True):
        out = []
        for _ in range(n):
            out += self.stmt(env, depth, in_loop, in_func)
        return out

    def idiom(self, env, depth, in_loop, in_func):
        s = self.s
        real_env = env
        env = _Shadow(real_env)          # expressions read the bindings that existed BEFORE this idiom
        src = self.e_list(env, 1)
        z = dict(env.ro, x="int")
        k = s.weighted([(0, 6), (1, 5), (2, 3), (3, 2), (4, 6), (5, 1), (6, 2), (7, 2), (8, 5), (9, 5), (10, 5), (11, 1), (12, 6),
                        (13, 5), (14, 5), (15, 1), (16, 4), (17, 5), (18, 3), (19, 5), (20, 5), (21, 5)])
        if k == 0:   # accumulate list
            o = self.fresh(env, "list"); env[o] = "list"
            cond = s.chance(1, 2)
            body = [f"{o}.append({self.e_int(z, 1)})"]
            if cond:
                body = [f"if {self.e_bool(z, 1)}:"] + ind(body)
            return [f"{o} = {s.pick(['[]', 'list()', '[0]'])}", f"for x in {src}:"] + ind(body)
        if k == 1:   # accumulate set
            o = self.fresh(env, "set"); env[o] = "set"
            body = [f"{o}.add({self.e_int(z, 1)})"]
            if s.chance(1, 2):
                body = [f"if {self.e_bool(z, 1)}:"] + ind(body)
            return [f"{o} = {s.pick(['set()', '{0}'])}", f"for x in {src}:"] + ind(body)
        if k == 2:   # accumulate dict
            o = self.fresh(env, "dict"); env[o] = "dict"
            body = [f"{o}[{self.e_int(z, 0)}] = {self.e_int(z, 1)}"]
            if s.chance(1, 3):
                body = [f"if {self.e_bool(z, 1)}:"] + ind(body)
            return [f"{o} = {s.pick(['{}', 'dict()'])}", f"for x in {src}:"] + ind(body)
        if k == 3:   # accumulate sum / count
            o = self.fresh(env, "int"); env[o] = "int"
            body = [f"{o} += {self.e_int(z, 1)}"]
            if s.chance(1, 2):
                body = [f"if {self.e_bool(z, 1)}:"] + ind(body)
            return [f"{o} = {s.pick(['0', '1'])}", f"for x in {src}:"] + ind(body)
        if k == 4:   # if-assign
            o = self.fresh(env, "int"); env[o] = "int"
            return [f"if {self.e_bool(env, 1)}:"] + ind([f"{o} = {self.e_int(env, 1)}"]) + ["else:"] + ind([f"{o} = {self.e_int(env, 1)}"])
        if k == 5 and in_func:   # if-return bool
            c = self.e_bool(env, 1)
            return s.pick([[f"if {c}:", "    return True", "return False"],
                           [f"if {c}:", "    return False", "else:", "    return True"],
                           [f"if {self.e_int(env, 0)}:", "    return True", "return False"],
                           [f"if {self.e_list(env, 0)}:", "    return True", "else:", "    return False"]])
        if k == 6:   # common code in branches
            o = self.fresh(env, "int"); env[o] = "int"
            v = s.pick(self.names(env, "int") or [o])
            tail = s.pick([f"print({v})", f"{o} = {self.e_int(env, 0)}", f"{v} = 0"])
            head = s.pick([f"{v} = {self.e_int(env, 0)}", f"print({self.e_int(env, 0)})"])
            b1 = [f"{o} = 1", tail]
            b2 = [f"{o} = 2", tail]
            if s.chance(1, 2):
                b1, b2 = [head] + b1, [head] + b2
            return [f"if {self.e_bool(env, 1)}:"] + ind(b1) + ["else:"] + ind(b2)
        if k == 7:   # grouping / defaultdict idiom
            o = self.fresh(env, "dict"); env[o] = "dict"
            key = s.pick(["x % 2", "x", "x // 2"])
            return [f"{o} = {{}}", f"for x in {src}:"] + ind(
                s.pick([[f"if {key} in {o}:", f"    {o}[{key}].append(x)", "else:", f"    {o}[{key}] = [x]"],
                        [f"if {key} not in {o}:", f"    {o}[{key}] = []", f"{o}[{key}].append(x)"],
                        [f"{o}[{key}] = {o}.get({key}, 0) + 1"],
                        [f"if {key} in {o}:", f"    {o}[{key}] += x", "else:", f"    {o}[{key}] = x"]]))
        if k == 8:   # enumerate / index loops
            o = self.fresh(env, "list"); env[o] = "list"
            ls = self.names(env, "list")
            l0 = s.pick([l for l in ls if l != o] or ["[4, 5, 6]"])
            return [f"{o} = []"] + s.pick([
                [f"for i, x in enumerate({l0}):", f"    {o}.append(x)"],
                [f"for i, x in enumerate({l0}):", f"    {o}.append(i)"],
                [f"for i, x in enumerate({l0}):", f"    {o}.append(i * x)"],
                [f"for i in range(len({l0})):", f"    {o}.append({l0}[i])"] if l0[0] != "[" else [f"for x in {l0}:", f"    {o}.append(x)"],
                [f"for x, y in zip({l0}, {l0}):", f"    {o}.append(x)"],
                [f"for x, y in zip({l0}, {src}):", f"    {o}.append(x + y)"]])
        if k == 9:   # dict iteration
            o = self.fresh(env, "list"); env[o] = "list"
            dd = self.e_dict(env, 1)
            return [f"{o} = []"] + s.pick([
                [f"for k, v in {dd}.items():", f"    {o}.append(k)"],
                [f"for k, v in {dd}.items():", f"    {o}.append(v)"],
                [f"for k in {dd}.keys():", f"    {o}.append(k)"],
                [f"for k, v in {dd}.items():", f"    {o}.append(k + v)"]])
        if k == 10:  # build collections incrementally
            ty = s.pick(["dict", "set", "list"])
            o = self.fresh(env, ty); env[o] = ty
            if ty == "dict":
                return [f"{o} = {s.pick(['{}', '{1: 1}', 'dict()'])}", f"{o}[{self.e_int(env, 0)}] = {self.e_int(env, 0)}",
                        s.pick([f"{o}[7] = 8", f"{o}.update({{9: 1}})", f"{o}.update({self.e_dict(env, 0)})"])]
            if ty == "set":
                return [f"{o} = {s.pick(['set()', '{1}'])}", f"{o}.add({self.e_int(env, 0)})",
                        s.pick([f"{o}.add(7)", f"{o}.update({{9, 1}})", f"{o}.update({self.e_list(env, 0)})"])]
            return [f"{o} = {s.pick(['[]', '[1]', 'list()'])}", f"{o}.append({self.e_int(env, 0)})",
                    s.pick([f"{o}.append(7)", f"{o}.extend([9, 1])", f"{o}.extend({self.e_list(env, 0)})", f"{o} += [3]"])]
        if k == 11:  # loop-invariant assignment / unused / pointless
            o = self.fresh(env, "int"); env[o] = "int"
            return [f"{o} = 0", f"for x in {src}:"] + ind(s.pick([[f"{o} = {self.e_int(env, 0)}", f"print(x + {o})"],
                                                                   [f"{o} = 5"], [f"{o} = x"], ["y = 3", f"{o} += y"]]))
        if k == 12:  # try / except
            o = self.fresh(env, "int"); env[o] = "int"
            risky = s.pick([f"{o} = {self.e_int(env, 0)} // ({self.e_int(env, 0)} % 2)", f"{o} = {self.e_list(env, 0)}[{self.e_int(env, 0)}]",
                            f"{o} = {self.e_dict(env, 0)}[{self.e_int(env, 0)}]", f"{o} = int({self.e_str(env, 0)})"])
            out = [f"{o} = -1", "try:"] + ind([risky]) + ["except (ZeroDivisionError, IndexError, KeyError, ValueError):"] + ind(
                s.pick([[f"{o} = -2"], ["pass"], [f"print({self.e_int(env, 0)})"]]))
            if s.chance(1, 4):
                out += ["finally:"] + ind([f"print({o})"])
            return out
        if k == 13:  # min / max / first-match loops
            o = self.fresh(env, "int"); env[o] = "int"
            return s.pick([
                [f"{o} = 0", f"for x in {src}:", f"    if x > {o}:", f"        {o} = x"],
                [f"{o} = -1", f"for x in {src}:", f"    if {self.e_bool(z, 0)}:", f"        {o} = x", "        break"],
                [f"{o} = 0", f"for x in {src}:", f"    if {self.e_bool(z, 0)}:", "        continue", f"    {o} += x"],
                [f"for x in {src}:", f"    if {self.e_bool(z, 0)}:", f"        {o} = x", "        break", "else:", f"    {o} = -1"]])
        if k == 14:  # nested loops
            o = self.fresh(env, "list"); env[o] = "list"
            return [f"{o} = []", f"for x in {src}:", f"    for y in {self.e_list(env, 0)}:"] + ind(
                s.pick([[f"{o}.append(x * y)"], ["if x < y:", f"    {o}.append(x + y)"], [f"{o}.append((x, y)[0])"]]), 2)
        if k == 15:  # string building
            o = self.fresh(env, "str"); env[o] = "str"
            return [f'{o} = ""', f"for x in {src}:"] + ind([s.pick([f"{o} += str(x)", f'{o} = {o} + "%d," % x', f'{o} += f"{{x}};"'])])
        if k == 16:  # with
            o = self.fresh(env, "int"); env[o] = "int"
            return ["with contextlib.nullcontext():"] + ind([f"{o} = {self.e_int(env, 1)}"])
        if k == 17:  # while with counter
            o = self.fresh(env, "int"); env[o] = "int"
            c = self.fresh(env, "int"); env[c] = "int"
            return [f"{o} = 0", f"{c} = {self.e_int(env, 0)} % 5", f"while {c} > 0:"] + ind(
                [f"{c} -= 1"] + s.pick([[f"{o} += {c}"], [f"if {c} % 2:", "    continue", f"{o} += 1"], [f"if {o} > 3:", "    break", f"{o} += 2"]]))
        if k == 18:  # math iterators
            o = self.fresh(env, "int"); env[o] = "int"
            n = s.pick(["3", "5", self.e_int(env, 0) + " % 5"])
            return [f"{o} = " + s.pick([f"sum(range({n}))", f"sum([i * 2 for i in range({n})])", f"sum(i for i in range(1, {n}))",
                                        f"sum([1 for i in range({n})])", f"len([i for i in range({n})])", f"sum(range(2, {n}))",
                                        f"sum([i + 1 for i in range({n})])"])]
        if k == 19:  # lambdas / sorted keys
            o = self.fresh(env, "list"); env[o] = "list"
            return [f"{o} = " + s.pick([f"sorted({src}, key=lambda x: x)", f"list(map(lambda x: abs(x), {src}))", f"list(map(str, {src}))[:0]",
                                        f"[abs(x) for x in {src}]", f"list(filter(None, {src}))", f"sorted({src}, key=lambda x: abs(x))",
                                        f"[y for y in [x * 2 for x in {src}] if y > 2]", f"[y for y in (x for x in {src})]"])]
        if k == 20:  # contains / heapq shapes
            o = self.fresh(env, "int"); env[o] = "int"
            return [f"{o} = " + s.pick([f"sorted({src} + [0])[0]", f"sorted({src} + [0])[-1]", f"int({self.e_int(env, 0)} in [1, 2, 3])",
                                        f"int({self.e_int(env, 0)} in list({src}))", f"sum(sorted({src})[:2])", f"len(list({src}))",
                                        f"len([x for x in {src}])", f"max({src} + [1])"])]
        # k == 21: unused / dead
        o = self.fresh(env, "int"); env[o] = "int"
        return s.pick([[f"{o} = {self.e_int(env, 1)}", f"unused = {self.e_int(env, 0)}"],
                       [f"{o} = 1", f"{o} = {self.e_int(env, 1)}"],
                       [f"{o} = {self.e_int(env, 0)}", f"{self.e_int(env, 0)}"],
                       [f"{o} = {self.e_int(env, 0)}", f"if False:", f"    {o} = 9"],
                       [f"{o} = {self.e_int(env, 0)}", f"if {self.e_bool(env, 0)}:", "    pass"],
                       [f"{o} = {self.e_int(env, 0)}", f"if {self.e_bool(env, 0)}:", "    pass", "else:", f"    {o} += 1"]])

    def stmt(self, env, depth, in_loop, in_func):
        s = self.s
        k = s.weighted([("idiom", 10), ("assign", 6), ("aug", 2), ("if", 3 if depth > 0 else 0), ("for", 2 if depth > 0 else 0),
                        ("print", 2), ("mut", 2)])
        if k == "idiom":
            return self.idiom(env, depth, in_loop, in_func)
        if k == "assign":
            ty = s.weighted([("int", 5), ("list", 4), ("str", 2), ("dict", 2), ("set", 1), ("bool", 1)])
            e = self.expr(env, ty, 2)
            reuse = self.names(env, ty)
            n = s.pick(reuse) if reuse and s.chance(1, 3) else self.fresh(env, ty)
            env[n] = ty
            return [f"{n} = {e}"]
        if k == "aug":
            vs = self.names(env, "int")
            if not vs:
                return ["pass"]
            return [f"{s.pick(vs)} {s.pick(['+=', '-=', '*='])} {self.e_int(env, 1)}"]
        if k == "if":
            e1, e2 = dict(env), dict(env)
            out = [f"if {self.e_bool(env, 2)}:"] + ind(self.stmts(e1, depth - 1, 1 + s.below(2), in_loop, in_func))
            if s.chance(1, 2):
                out += ["else:"] + ind(self.stmts(e2, depth - 1, 1 + s.below(2), in_loop, in_func))
                for n2, t2 in e1.items():
                    if e2.get(n2) == t2:
                        env.setdefault(n2, t2)
            return out
        if k == "for":
            e1 = dict(env, x="int")
            return [f"for x in {self.e_list(env, 1)}:"] + ind(self.stmts(e1, depth - 1, 1 + s.below(2), True, in_func))
        if k == "print":
            ty = s.pick(["int", "list", "str", "bool"])
            return [f"print({self.expr(env, ty, 1)})"]
        # mutate a collection
        ls = self.names(env, "list")
        if ls:
            l0 = s.pick(ls)
            if in_loop:
                return [s.pick([f"{l0}.sort()", f"{l0}.reverse()", f"{l0}[:] = {l0}[:3]"])]
            return [s.pick([f"{l0}.append({self.e_int(env, 1)})", f"{l0}.extend({self.e_list(env, 0)})", f"{l0}.sort()", f"{l0}.reverse()",
                            f"{l0}.insert(0, {self.e_int(env, 0)})"])]
        return ["pass"]

    def show(self, env, exclude=()):
        parts = []
        for n, t in env.items():
            if n in exclude:
                continue
            parts.append(f"sorted({n})" if t == "set" else n)
        return parts

    def function(self, name, method=False):
        s = self.s
        params = {"a": "int", "b": "int", "xs": "list"}
        env = dict(params)
        body = self.stmts(env, 2, 2 + s.below(3))
        vis = self.show(env)
        keep = [v for v in vis if s.chance(3, 4)] or vis[:1]
        if method and s.chance(5, 6):
            keep = keep + ["self.base"]
        body += [f"return ({', '.join(keep)},)"]
        sig = "self, a, b, xs" if method else "a, b, xs"
        return [f"def {name}({sig}):"] + ind(body)

    def klass(self, name):
        s = self.s
        lines = [f"class {name}:"]
        if s.chance(1, 2):
            lines += ind([f"scale = {s.pick([1, 2, 3])}"])
        lines += ind(["def __init__(self, base):", "    self.base = base", ""])
        m1 = s.pick([["def total(self, xs):", "    return self.base + sum(xs)"],
                     ["def total(self, xs):", "    result = self.base", "    for x in xs:", "        result += x", "    return result"],
                     ["def total(self, xs):", "    out = []", "    for x in xs:", "        out.append(x + self.base)", "    return out"]])
        lines += ind(m1 + [""])
        lines += ind(self.function("helper", method=True) + [""])
        if s.chance(1, 2):
            lines += ind(["@staticmethod", "def twice(v):", "    return v * 2", ""])
        if s.chance(1, 3):
            lines += ind(["@property", "def size(self):", "    return self.base * 2", ""])
        return lines

    def program(self) -> str:
        s = self.s
        lines = ["import contextlib"]
        if s.chance(1, 3):
            lines += [s.pick(["import math", "import os, sys", "from math import floor", "import json", "import sys"])]
        lines += ["", ""]
        nf = 1 + s.below(2)
        fnames = [s.pick(["compute", "process", "buildTable", "helper_fn", "run"]) + str(i) for i in range(nf)]
        for fn in fnames:
            lines += self.function(fn) + ["", ""]
        has_class = s.chance(1, 3)
        if has_class:
            cname = s.pick(["Box", "acc_holder", "Counter2"])
            lines += self.klass(cname) + ["", ""]
        args = ["(1, 2, [1, 2, 3])", "(0, 0, [])", "(3, -1, [4, 0, 4, 2])", "(2, 2, [5])"]
        for fn in fnames:
            lines += [f"for _args in [{', '.join(args)}]:", f"    print({fn}(*_args))"]
        if has_class:
            lines += [f"_obj = {cname}(2)", "print(_obj.total([1, 2]))", "print(_obj.helper(1, 2, [3, 1]))"]
        if s.chance(1, 2):
            env = {"g_n": "int", "g_xs": "list"}
            lines += ["g_n = 3", "g_xs = [2, 7, 1]"]
            top = self.stmts(env, 1, 1 + s.below(3), False, False)
            lines += top + [f"print({', '.join(self.show(env)) or 0})"]
        return "\n".join(lines) + "\n"


def data_program(i: int) -> str:
    return DataGen(i).program()


# ------------------------------------------------------------------------------------------------
# (b) per-rule trigger programs: closed, every interesting value is printed

TRIGGERS = {
    "delete_commented_code": "x = 1\n# y = 2\n# print(y)\nprint(x)\n# some prose comment here\n",
    "remove_dead_ifs": "def f(a):\n    if True:\n        print('t')\n    else:\n        print('e')\n    if False:\n        print('never')\n    elif a:\n        print('a')\n    if 0:\n        print('zero')\n    if a or True:\n        print('or')\n    while False:\n        print('w')\n    return 1 if True else 2\n\n\nprint(f(0), f(1))\n",
    "delete_unreachable_code": "def f(a):\n    for i in range(3):\n        if i == a:\n            break\n        continue\n        print('dead')\n    else:\n        return 'else'\n    return i\n    print('dead')\n\n\ndef g(a):\n    while True:\n        a += 1\n        if a > 3:\n            break\n    return a\n\n\ndef h(a):\n    try:\n        if a:\n            raise ValueError(a)\n        return 'ok'\n    except ValueError:\n        return 'err'\n    return 'after'\n\n\nprint(f(1), f(7), g(0), h(0), h(1))\n",
    "loop_else_break": "def first_gap(rows):\n    for row in [1, 2, 3]:\n        for cell in rows:\n            if cell == row:\n                break\n        else:\n            break\n        return row\n    print('no row matched')\n    return -1\n\n\ndef drain(limit):\n    total = 0\n    for step in (1, 2, 3, 4):\n        n = step\n        while n < limit:\n            n += 2\n        else:\n            total += n\n            continue\n        return total\n    print('drained', total)\n    return total * 2\n\n\nprint(first_gap([1]), first_gap([5]), first_gap([2, 1]))\nprint(drain(0), drain(4))\n",
    "match_case_exits": "def command_loop(cmds):\n    log = []\n    it = iter(cmds)\n    while True:\n        match next(it):\n            case 'quit':\n                break\n            case 'skip':\n                continue\n            case other:\n                log.append(other)\n    print('log', log)\n    return len(log)\n\n\ndef first_usable(rows):\n    for row in [1, 2, 3]:\n        match rows.get(row):\n            case None:\n                continue\n            case -1:\n                break\n            case _:\n                pass\n        return row\n    print('nothing usable')\n    return -1\n\n\nprint(command_loop(['a', 'skip', 'b', 'quit', 'c']))\nprint(first_usable({}), first_usable({2: 5}), first_usable({1: -1, 2: 5}))\n",
    "while_true_paths": "def count_up(limit):\n    count = 0\n    while True:\n        count += 1\n        if count > limit:\n            break\n    return count\n\n\ndef find(limit):\n    n = 0\n    while 1:\n        n += 2\n        if n > limit:\n            return n\n        if n == 4:\n            break\n    return -n\n\n\ndef with_try(k):\n    while True:\n        try:\n            if k > 2:\n                break\n            k += 1\n        finally:\n            print('f', k)\n    return k\n\n\nprint(count_up(3), find(1), find(10), with_try(0))\n",
    "raise_from": "def f(v):\n    try:\n        return int(v)\n    except ValueError:\n        raise RuntimeError('bad')\n\n\ntry:\n    f('x')\nexcept RuntimeError as e:\n    print(type(e).__name__, e, type(e.__cause__).__name__, type(e.__context__).__name__)\nprint(f('3'))\n",
    "undefine_unused": "def f(a):\n    x = a + 1\n    y = print('side')\n    z = [a for _ in range(2)]\n    x = 5\n    return x\n\n\ndef g():\n    a, b = 1, 2\n    c = d = 3\n    return b + d\n\n\nprint(f(1), g())\n",
    "pointless_statements": "import sys\n\n\ndef f(xs):\n    xs\n    1 + 2\n    xs.append(1)\n    [print(x) for x in xs]\n    {print(x): 1 for x in xs}\n    len(xs)\n    next(iter(xs))\n    xs[0]\n    'doc'\n    (lambda: print('no'))\n    return xs\n\n\nprint(f([0]))\nsys.argv\n",
    "next_statement": "it = iter([1, 2, 3])\nnext(it)\nprint(next(it))\n",
    "for_else_effects": "for _ in range(2):\n    pass\nelse:\n    print('else ran')\nfor i in []:\n    pass\nprint('end')\n",
    "move_before_loop": "def f(n):\n    out = []\n    for i in range(n):\n        k = 5\n        out.append(i + k)\n    return out\n\n\ndef g(a):\n    x = 0\n    while a:\n        x = 2\n        a = 0\n    return x\n\n\ndef h(xs):\n    y = 1\n    for x in xs:\n        y = 7\n    return y\n\n\nprint(f(3), f(0), g(0), g(1), h([]), h([1]))\n",
    "class_defs": "class A(object):\n    def __init__(self):\n        self.v = 1\n\n\nclass B():\n    x = 2\n\n\nprint(A().v, B.x)\n",
    "unused_functions": "def used():\n    return 1\n\n\ndef unused():\n    print('never')\n\n\nclass Unused:\n    pass\n\n\ndef indirect():\n    return used()\n\n\nhandlers = {'k': indirect}\nprint(handlers['k']())\n",
    "unused_self": "class K:\n    def a(self, x):\n        return x + 1\n\n    def b(self):\n        return self.a(2)\n\n    @classmethod\n    def c(cls, y):\n        return y * 2\n\n    def d(self):\n        return 4\n\n\nk = K()\nprint(k.a(1), k.b(), K.c(3), k.c(4), k.d(), K.d(k))\n",
    "staticmethod_to_function": "class K:\n    @staticmethod\n    def helper(x):\n        return x * 3\n\n    def go(self):\n        return self.helper(2) + K.helper(1)\n\n\nprint(K().go())\n",
    "singleton_eq": "def f(x):\n    return (x == None, x != None, x == True, x == False, None == x)\n\n\nprint(f(None), f(0), f(1), f(True), f(False), f([]))\n",
    "imports_toplevel": "def f():\n    import math\n    return math.floor(2.5)\n\n\ndef g():\n    from os import path as p\n    return p.basename('/a/b')\n\n\nprint(f(), g())\n",
    "common_code_in_ifs": "def f(x):\n    if x > 0:\n        x = 0\n        print('pos')\n    else:\n        x = 0\n        print('neg')\n    return x\n\n\ndef g(x):\n    if x:\n        print('a')\n        print('tail')\n    else:\n        print('b')\n        print('tail')\n\n\ndef h(x, y):\n    if x:\n        y += 1\n        r = y\n    elif y:\n        y += 1\n        r = -y\n    else:\n        y += 1\n        r = 0\n    return r\n\n\nx = 5\nif x > 0:\n    x = 0\n    print('pos')\nelse:\n    x = 0\n    print('neg')\nprint(f(5), f(-5), g(0), g(1), h(0, 0), h(1, 0), h(0, 1))\n",
    "if_control_flow": "def f(a, b):\n    if a:\n        if b:\n            return 1\n        else:\n            return 2\n    else:\n        if b:\n            return 3\n        else:\n            return 4\n\n\ndef g(a, b):\n    if a:\n        if b:\n            return 'x'\n    if a:\n        return 'y'\n    return 'z'\n\n\nprint([f(a, b) for a in (0, 1) for b in (0, 1)], [g(a, b) for a in (0, 1) for b in (0, 1)])\n",
    "swap_if_else": "def f(x):\n    if x:\n        pass\n    else:\n        print('no')\n    if not x:\n        print('1')\n    else:\n        print('2')\n        print('3')\n        print('4')\n    if x == 2:\n        a = 1\n    else:\n        a = 2\n        a += 1\n        a += 2\n        a *= 3\n    return a\n\n\nprint(f(0), f(1), f(2))\n",
    "early_return": "def f(x):\n    if x > 10:\n        x += 1\n        x *= 12\n        print(x > 30)\n        y = 100 - x\n    else:\n        y = 13\n    return y\n\n\ndef g(x):\n    r = 0\n    if x:\n        r = 1\n        print('a')\n        print('b')\n        print('c')\n    return r\n\n\nprint(f(11), f(1), g(0), g(1))\n",
    "early_continue": "def f(xs):\n    out = []\n    for x in xs:\n        if x % 2:\n            out.append(x)\n            out.append(x + 1)\n            out.append(x + 2)\n    for x in xs:\n        if x > 1:\n            print(x)\n            print(x * 2)\n            print(x * 3)\n        else:\n            print('small')\n    return out\n\n\nprint(f([1, 2, 3]))\n",
    "redundant_enumerate": "xs = [4, 5, 6]\nfor i, x in enumerate(xs):\n    print(x)\nfor i, x in enumerate(xs):\n    print(i)\nprint([x for i, x in enumerate(xs)], [i for i, x in enumerate(xs)], [i for i, _ in enumerate(xs, 2)])\nfor i, _ in enumerate(xs):\n    print(i)\nfor _, x in enumerate(xs):\n    print(x)\nprint([i for i, _ in enumerate(xs)], [x for _, x in enumerate(xs)])\n",
    "unused_zip_args": "xs = [1, 2, 3]\nys = [4, 5]\nfor x, _ in zip(xs, ys):\n    print(x)\nprint([y for _, y in zip(xs, ys)], [x for x, y in zip(xs, ys)])\n",
    "map_filter_lambda": "xs = [1, 2, 3, 0]\nprint(list(map(lambda x: x + 1, xs)), list(filter(lambda x: x > 1, xs)), list(filter(None, xs)))\nm = map(lambda x: print('lazy', x), xs)\nprint('before')\nlist(m)\nprint(sum(map(lambda x: x * x, xs)), list(map(lambda x, y: x + y, xs, xs)))\n",
    "replace_with_filter": "def f(xs):\n    out = []\n    for x in xs:\n        if x:\n            out.append(x)\n    for x in xs:\n        if not x:\n            continue\n        out.append(-x)\n    return out\n\n\nprint(f([0, 1, 2]))\n",
    "merge_chained_comps": "xs = [1, 2, 3, 4]\nprint([y for y in [x * 2 for x in xs] if y > 2], [y + 1 for y in (x * 2 for x in xs)], sum(y for y in [x for x in xs if x > 1]))\nprint({y for y in [x % 2 for x in xs]}, [y for y in {x % 3 for x in xs}])\n",
    "comprehension_casts": "xs = [3, 1, 2]\nprint(list([x for x in xs]), set([x for x in xs]) == {1, 2, 3}, list(x for x in xs), sorted(set(x for x in xs)))\nprint(sorted(list({x: 1 for x in xs})), dict({x: 1 for x in xs}), list(iter([x for x in xs])), tuple([x for x in xs]))\nprint(sorted(set({x for x in xs})), list(list(xs)), sum([x for x in xs]), any([x > 2 for x in xs]))\n",
    "chain_casts": "import itertools\nxs = [[1], [2, 3]]\nprint(list(itertools.chain(*xs)), list(itertools.chain.from_iterable(xs)), sum(itertools.chain([1], (2,))))\nprint(list(itertools.chain(list(xs[0]), tuple(xs[1]))))\n",
    "remove_redundant_else": "def f(x):\n    if x > 1:\n        return 'big'\n    elif x > 0:\n        return 'one'\n    else:\n        print('small')\n        return 'small'\n\n\ndef g(xs):\n    for x in xs:\n        if x:\n            continue\n        else:\n            print('zero')\n        if x is None:\n            break\n        else:\n            print('not none')\n\n\ndef h(x):\n    if x:\n        raise ValueError(x)\n    else:\n        y = 2\n    return y\n\n\nprint(f(2), f(1), f(0), g([1, 0]), h(0))\n",
    "fix_if_return": "def f(x):\n    if x:\n        return True\n    return False\n\n\ndef g(x):\n    if x > 2:\n        return True\n    else:\n        return False\n\n\ndef h(x):\n    if x in (1, 2):\n        return False\n    return True\n\n\ndef k(x):\n    if x:\n        return False\n    else:\n        return True\n\n\nprint(f(5), f(0), f([]), f('a'), g(3), g(1), h(1), h(3), k(0), k(2))\n",
    "fix_if_assign": "def f(x):\n    if x:\n        y = True\n    else:\n        y = False\n    if x > 1:\n        z = 10\n    else:\n        z = 20\n    if x:\n        w = False\n    else:\n        w = True\n    return (y, z, w)\n\n\nprint(f(0), f(1), f(5), f(1.5))\n",
    "functions_with_literals": "a = list()\nb = dict()\nc = tuple()\nd = set()\ne = list([1, 2])\nf = tuple((1, 2))\ng = dict({1: 2})\nh = set({1})\ni = list((1, 2))\nj = tuple([3])\nk = set([1, 2])\nl = str()\nm = int()\nprint(a, b, c, d, e, f, g, h, i, j, sorted(k), repr(l), m)\n",
    "collection_add_update": "x = {1, 2}\nx.add(3)\ny = [1]\ny.append(2)\ny.extend([3, 4])\nz = {1}\nz.update({5, 6})\nw = [0]\nw.insert(0, 9)\nv = [1, 2]\nv.extend(v)\nu = []\nu.append(u)\nprint(sorted(x), y, sorted(z), w, v, len(u))\n",
    "collection_unpacks": "a = [1, 2]\nb = (3,)\nprint([*a, *b], (*a, 0), [*[1, 2], 3], {*a, *b} == {1, 2, 3}, [*a], [*[], *()], (*(1, 2), *[3]))\nprint({**{1: 2}, **{3: 4}}, {**{1: 2}, 1: 3}, {1: 0, **{1: 2}}, dict(**{'k': 1}))\n",
    "duplicate_elts": "calls = []\n\n\ndef t(v):\n    calls.append(v)\n    return v\n\n\nprint(sorted({1, 1, 2, 1}), {1: 'a', 2: 'b', 1: 'c'}, {t(1): t(2), t(1): t(3)}, sorted({t(5), t(5)}), calls)\nprint({True: 'a', 1: 'b', 1.0: 'c'}, len({0, False, 0.0}))\n",
    "starred_args": "def f(*args, **kw):\n    return (args, sorted(kw.items()))\n\n\nprint(f(*[1, 2]), f(*(3,), *[4]), f(**{'a': 1}), f(*[], **{}), f(*[1], x=2))\n",
    "for_to_comprehension": "def f(xs):\n    a = []\n    for x in xs:\n        a.append(x * 2)\n    b = set()\n    for x in xs:\n        if x > 1:\n            b.add(x)\n    c = [0]\n    for x in xs:\n        for y in xs:\n            if x < y:\n                c.append((x, y))\n    d = {}\n    for x in xs:\n        d[x] = x * x\n    e = 0\n    for x in xs:\n        e += x\n    g = []\n    for x in xs:\n        g.append(len(g))\n    h = []\n    for x in xs:\n        h += [x]\n    return (a, sorted(b), c, d, e, g, h)\n\n\nprint(f([1, 2, 3]), f([]))\n",
    "comp_side_effect_order": "def f(xs):\n    seen = []\n    out = []\n    for x in xs:\n        if x not in out:\n            out.append(x)\n    res = []\n    for x in xs:\n        res.append(len(res) + x)\n    acc = []\n    for x in xs:\n        seen.append(x)\n        acc.append(len(seen))\n    return (out, res, acc)\n\n\nprint(f([1, 1, 2, 3, 2]))\n",
    "comp_add_plus": "xs = [1, 2]\na = {x for x in xs}\na.add(7)\nb = [x for x in xs]\nb.append(8)\nc = [x for x in xs]\nc.extend([9])\nd = {x for x in xs}\nd.update([3])\nprint(sorted(a), b, c, sorted(d))\n",
    "nested_comprehensions": "print([x for x in (y for y in range(5))], [[y for y in range(x)] for x in range(3)], [x for x in [y for y in range(4) if y % 2]])\nprint(sum(x for x in (y * 2 for y in range(4))), {k: v for k, v in [(i, i * i) for i in range(3)]})\n",
    "redundant_starred": "import itertools\nxs = [1, 2]\nprint(list(zip(*[xs, xs])), max(*[1, 2]), list(itertools.chain(*[[1], [2]])), [*(x for x in xs)], print(*[1, 2]))\n",
    "implicit_dict_kvi": "d = {1: 'a', 2: 'b'}\nprint([k for k, v in d.items()], [v for k, v in d.items()], [(k, d[k]) for k in d], [d[k] for k in d.keys()], [k for k in d.keys()])\nfor k, _ in d.items():\n    print(k)\nfor k in d:\n    print(k, d[k])\nfor k, v in d.items():\n    print(d[k], v)\nprint(1 in d.keys(), 'a' in d.values(), sorted(d.keys()), list(d.keys())[0])\n",
    "dict_literals": "a = {}\na[1] = 2\na[3] = 4\nb = {1: 1}\nb.update({2: 2})\nb.update(c=3) if False else None\nc = {x: 1 for x in range(2)}\nc[5] = 6\nd = {x: x for x in range(2)}\nd.update({9: 9})\ne = {}\ne[1] = e.get(1, 0) + 1\ne[1] = e.get(1, 0) + 1\ng = {}\ng[1] = len(g)\ng[2] = len(g)\nprint(a, b, c, d, e, g)\n",
    "dict_unpacks": "a = {1: 2}\nprint({**a}, {**a, **a}, {**{1: 2, 3: 4}}, {**a, 5: 6}, {0: 0, **a}, {**{}, **a})\n",
    "subscript_looping": "xs = [[1, 2], [3, 4]]\nprint([x[0] for x in xs], [x[1] for x in xs], [r[0] for r in xs if r[1] > 2], [(x[0], x[1]) for x in xs])\n",
    "transposes_plain": "class M:\n    def __init__(self, v):\n        self.v = v\n\n    @property\n    def T(self):\n        print('T', self.v)\n        return M(-self.v)\n\n\nm = M(1)\nprint(m.T.T.v, m.T.v)\n",
    "implicit_defaultdict": "def f(pairs):\n    d = {}\n    for k, v in pairs:\n        if k in d:\n            d[k].append(v)\n        else:\n            d[k] = [v]\n    e = {}\n    for k, v in pairs:\n        if k not in e:\n            e[k] = set()\n        e[k].add(v)\n    g = {}\n    for k, v in pairs:\n        if k in g:\n            g[k] += v\n        else:\n            g[k] = v\n    return (d, {k: sorted(v) for k, v in e.items()}, g, 9 in d, d.get(9), sorted(d), type(d).__name__ in ('dict', 'defaultdict'))\n\n\nr = f([(1, 2), (1, 3), (2, 4)])\nprint(r)\ntry:\n    print(r[0][7])\nexcept KeyError:\n    print('KeyError')\nprint(dict(r[0]) == r[0], len(r[0]))\n",
    "redundant_lambda": "def f(x):\n    return x + 1\n\n\ng = lambda x: f(x)\nh = lambda: f(1)\nk = lambda x, y: max(x, y)\nj = lambda *a: f(*a)\nfs = []\nfor i in range(3):\n    fs.append(lambda v: f(v))\nprint(g(1), h(), k(1, 2), j(4), [q(1) for q in fs], sorted([3, 1], key=lambda x: f(x)))\n",
    "redundant_comprehensions": "xs = [1, 2, 3]\nd = {1: 2}\nprint([x for x in xs], {x for x in xs} == set(xs), {k: v for k, v in d.items()}, list(x for x in xs), [x for x in range(3)], [(a, b) for a, b in zip(xs, xs)])\nys = [x for x in xs]\nys.append(4)\nprint(xs, ys, [x for x in xs] is xs)\n",
    "boolop_values": "def t(v):\n    print('eval', v)\n    return v\n\n\nx = 3\nprint(x and True, x or False, True and x, False or x, x and False, x or True, 0 or x or 0, x and 1 and 2, None or 0 or [], 0 and t(1), 1 or t(2), t(0) or False or t(5), [] and t(3), bool(x and True), x and x)\nprint((x or False) and 7, not (x and False), (False or 0) or '', 0 or False, False or 0, '' and 0, 1 and [] and 2)\n",
    "simplify_boolean": "def f(x, y):\n    return (x > 1 and x > 3, x > 1 or x > 3, x >= 2 and x <= 2, x < 1 and x > 3, x > 0 and x >= 0, x > 0 or x >= 0, x == 1 and x == 2, x != 1 or x != 2,\n            x < 5 and x < 5, not x > 2, not (x == y), not (x != y), not x < y, not (x in (1, 2)), not (x is None), not not x, x > 1 and y > 1 and x > 2,\n            (x > 1 and y) or (x > 1 and not y), x >= 3 and x > 2, x <= 0 or x < 1, 1 < x and 3 < x, x > 1 and 3 < x, x == 2 and x > 1, x == 2 or x > 1)\n\n\nfor x in range(-1, 6):\n    print(x, f(x, 2))\nprint(f(2.5, 0), f(0.5, 1))\n",
    "constrained_range": "print([x for x in range(10) if x > 3], [x for x in range(10) if x < 4], [x for x in range(2, 10) if x >= 5 and x < 8], [x for x in range(0, 10, 2) if x > 2], [x for x in range(-1, 3) if x < 0], [x for x in range(0, 5) if x <= 5], [x for x in range(5) if x > 7], [x for x in range(10) if 3 < x], [x for x in range(3, 10) if x > 1], [x for x in range(10, 0, -1) if x > 5], [x for x in range(10) if x != 3], [x for x in range(10) if x > 2 if x < 6])\n",
    "math_iterators": "for n in (-3, 0, 1, 4):\n    print(n, sum(range(n)), sum(range(1, n)), sum(range(n, 0)), sum(range(2, n + 2)), sum([i for i in range(n)]), sum([i * 2 for i in range(n)]), sum([1 for _ in range(n)]), sum(i * i for i in range(n)), sum([i + n for i in range(n)]), sum(range(0, n, 2)), sum([x for x in range(n) if x > 1]))\nprint(sum(range(5, 3)), sum([i for i in range(3, 7)]), type(sum(range(4))).__name__, type(sum([i * 2 for i in range(4)])).__name__)\n",
    "inline_math_comprehensions": "xs = [1, 2, 3]\nys = [x * 2 for x in xs]\nprint(sum(ys))\nzs = [x + 1 for x in xs]\nprint(sum(zs), zs)\nws = [x for x in xs if x > 1]\nt = sum(ws)\nprint(t, max([x * x for x in xs]), min(x for x in xs), sorted([x for x in xs])[0])\n",
    "negated_comparison": "def f(a, b):\n    return (not a < b, not a <= b, not a > b, not a >= b, not a == b, not a != b, not (a < b <= b))\n\n\ndef g(a, b):\n    return (-a < 0, not -a > b, not -a == -b)\n\n\nprint(g(1, 2), g(2, -3), f(1, 2), f(2, 1), f(2, 2), f(float('nan'), 1), f({1}, {2}), f({1}, {1, 2}))\n",
    "contains_types": "x = 2\nprint(x in [1, 2, 3], x in (1, 2), x in {1, 2}, x in [1, [2]], [2] in [[2], 3], x in list(range(3)), x in [x, 5], 'a' in ['a', 'b'], x in [1.0, 2.0], None in [None, 0])\nfor v in [1, 2, 2]:\n    print(v)\nfor v in {3}:\n    print(v)\nprint([v for v in [3, 1, 2]], 2 in sorted([3, 2]), 1 in list({1, 2}), 5 in tuple([5]))\n",
    "chained_calls": "xs = [3, 1, 2, 1]\nprint(sorted(list(xs)), list(sorted(xs)), sorted(sorted(xs)), list(reversed(sorted(xs))), sorted(reversed(xs)), sorted(set(xs)), set(sorted(xs)) == {1, 2, 3}, list(list(xs)), tuple(list(xs)), list(tuple(xs)), sum(list(xs)), sum(sorted(xs)), min(sorted(xs)), max(reversed(xs)), len(list(xs)), len(set(xs)), len(sorted(xs)), sorted(tuple(xs)), list(iter(xs)), set(set(xs)) == set(xs), sorted(xs, reverse=True), list(reversed(list(xs))), sorted(list(reversed(xs))), reversed(list(xs)).__class__.__name__ != '', iter(list(xs)).__class__.__name__ != '')\nps = [(1, 'b'), (1, 'a'), (0, 'c')]\nprint(sorted(reversed(ps), key=lambda p: p[0]), sorted(ps, key=lambda p: p[0]), sorted(sorted(ps), key=lambda p: p[0]), list(reversed(sorted(ps, key=lambda p: p[0]))), sorted(ps, key=lambda p: p[0], reverse=True))\n",
    "redundant_iter": "xs = [1, 2]\nfor x in iter(xs):\n    print(x)\nfor x in list(xs):\n    xs.append(x + 10)\nprint(xs)\nfor x in sorted(xs):\n    print(x)\nfor x in tuple(xs):\n    if len(xs) < 6:\n        xs.append(0)\nprint(xs, [x for x in list(xs)], [x for x in iter(xs)], sum(x for x in list(xs)))\nfor k in list({1: 2}.keys()):\n    print(k)\nd = {1: 2, 3: 4}\nfor k in list(d):\n    del d[k]\nprint(d)\n",
    "sorted_heapq": "xs = [3, 1, 2, 5, 4]\nprint(sorted(xs)[0], sorted(xs)[-1], sorted(xs)[:2], sorted(xs)[-2:], sorted(xs, reverse=True)[0], sorted(xs, key=lambda x: -x)[0], sorted(xs)[1], sorted(xs)[:0], sorted(xs, key=lambda x: x % 3)[:2], sorted(xs, key=lambda x: x % 3)[-2:], sorted(xs)[::2], list(sorted(xs))[0], sorted([(1, 'b'), (1, 'a')], key=lambda p: p[0])[-1], sorted([(1, 'b'), (1, 'a')], key=lambda p: p[0])[0])\n",
    "missing_context_manager": "import os\nimport tempfile\n\n\ndef f(p):\n    h = open(p, 'w')\n    h.write('data')\n    h.close()\n    g = open(p)\n    d = g.read()\n    g.close()\n    return d\n\n\nfd, path = tempfile.mkstemp()\nos.close(fd)\nprint(f(path))\nos.unlink(path)\n",
    "duplicate_functions": "def f(a):\n    return a + 1\n\n\ndef g(a):\n    return a + 1\n\n\ndef h(b):\n    return b + 1\n\n\ndef k(a):\n    '''doc'''\n    return a + 1\n\n\nprint(f(1), g(2), h(3), k(4), f is g, f.__doc__, k.__doc__)\n",
    "duplicate_imports": "import os\nimport os\nimport os.path\nfrom math import floor\nfrom math import floor, ceil\nimport sys as s\nimport sys\nprint(os.sep, os.path.sep, floor(1.5), ceil(1.5), s is sys)\n",
    "overused_constant": "def f():\n    return ['some long constant string', 'some long constant string', 'some long constant string', 'some long constant string', 'some long constant string']\n\n\ndef g(x='some long constant string'):\n    return x + 'some long constant string'\n\n\nprint(f(), g(), 'some long constant string' in f())\n",
    "assign_immediate_return": "def f(x):\n    y = x * 2\n    return y\n\n\ndef g(xs):\n    out = [x for x in xs]\n    return out\n\n\ndef h(x):\n    y = x\n    y += 1\n    return y\n\n\ndef k(x):\n    global z\n    z = x + 1\n    return z\n\n\nz = 0\nprint(f(2), g([1]), h(1), k(5), z)\n",
    "naming": "def myFunc(someArg):\n    localVar = someArg + 1\n    LOCAL_CONST = 2\n    return localVar * LOCAL_CONST\n\n\nclass my_class:\n    classAttr = 3\n\n    def someMethod(self):\n        return self.classAttr\n\n\nmodule_const = 7\nMixedCase = 8\n_private = 9\nprint(myFunc(1), my_class().someMethod(), module_const, MixedCase, _private)\n",
    "naming_collision": "def f():\n    myVar = 1\n    my_var = 2\n    my_Var = 3\n    return (myVar, my_var, my_Var)\n\n\ndef g(value):\n    Value = value + 1\n    VALUE = Value + 1\n    return (value, Value, VALUE)\n\n\nX = 1\nx = 2\n\n\ndef h():\n    x = 5\n    return x + X\n\n\nprint(f(), g(0), X, x, h())\n",
    "naming_builtin_shadow": "def f(list_, Type, id_):\n    Sum = list_ + [Type]\n    Len = len(Sum)\n    return (Sum, Len, id_)\n\n\ndef g():\n    Print = 3\n    print(Print)\n    Max = max(1, 2)\n    return Max\n\n\nprint(f([1], 2, 3), g())\n",
    "naming_attrs_kwargs": "def f(firstArg, secondArg=2):\n    return firstArg - secondArg\n\n\nclass P:\n    def __init__(self, xVal):\n        self.xVal = xVal\n\n    def getX(self):\n        return self.xVal\n\n\np = P(xVal=4)\nprint(f(firstArg=5), f(1, secondArg=0), p.getX(), p.xVal, getattr(p, 'xVal'))\n",
    "naming_globals_nonlocal": "counter = 0\n\n\ndef bump():\n    global counter\n    counter += 1\n    return counter\n\n\ndef outer():\n    totalCount = 0\n\n    def inner():\n        nonlocal totalCount\n        totalCount += 2\n        return totalCount\n    inner()\n    return inner()\n\n\nprint(bump(), bump(), counter, outer())\n",
    "missing_imports": "def never_called():\n    return (os.getcwd(), math.floor(2.5), sys.maxsize, re.sub('a', 'b', 'aa'), functools.reduce(max, [1, 2]))\n\n\nhandlers = [never_called]\nprint(len(handlers))\n",
    "unused_imports": "import os\nimport sys\nimport json, math\nfrom collections import OrderedDict, defaultdict\nimport os.path as osp\nprint(math.pi > 3, defaultdict(int)[1], osp.sep)\n",
    "import_side_effect_order": "import sys\nimport json\nimport os\nprint(sorted(k for k in ('os', 'json') if k in sys.modules))\n",
    "starred_imports": "from math import *\nfrom os.path import *\nprint(floor(2.5), basename('/x/y'), pi > 3)\n",
    "reimported_names": "from os.path import os as o\nfrom json.decoder import JSONDecodeError\nprint(o.sep, JSONDecodeError.__name__)\n",
    "sort_imports": "import sys\nimport os\nfrom math import pi\nimport json\nprint(os.sep, len(sys.argv) >= 0, pi > 3, json.dumps(1))\n",
    "line_lengths": "def long_function_name(argument_one, argument_two, argument_three, argument_four, argument_five, argument_six):\n    return [argument_one, argument_two, argument_three, argument_four, argument_five, argument_six, argument_one + argument_two]\n\n\nvalues = long_function_name(1, 2, 3, 4, 5, 6) + long_function_name(7, 8, 9, 10, 11, 12) + long_function_name(13, 14, 15, 16, 17, 18)\nprint(values, 'a string literal that is quite long and must not be changed by any line length stage at all, never ever', '''multi\n   line   \n\tstring''')\n",
    "whitespace_literals": "s = '''a\t b   \n\n\n\n\nc'''\nt = 'x\\ty'\nprint(repr(s), repr(t))\nif True:\n\tprint('tab indented')\n",
    "logging_args": "import logging\nimport io\nbuf = io.StringIO()\nlogging.basicConfig(stream=buf, level=logging.INFO, format='%(message)s')\nx = 5\nlogging.info('value %s' % x)\nlogging.info(f'value {x}')\nlogging.info('value {}'.format(x))\nlogging.info('100%')\nlogging.info('%d%%' % x)\nprint(buf.getvalue())\n",
    "escape_sequences": "import re\nprint(re.sub('\\\\d', 'N', 'a1b2'), len('\\\\d'), 'a\\\\qb', len('\\n'))\n",
    "closures_defaults": "def make():\n    fs = []\n    for i in range(3):\n        def f(x, i=i):\n            return x + i\n        fs.append(f)\n    return [f(1) for f in fs]\n\n\ndef acc(x, store=[]):\n    store.append(x)\n    return list(store)\n\n\nprint(make(), acc(1), acc(2))\n",
    "generators": "def gen(n):\n    for i in range(n):\n        if i % 2:\n            continue\n        yield i\n    return\n\n\ndef gen2():\n    yield from gen(5)\n    print('after')\n\n\ndef gen3(xs):\n    out = []\n    for x in xs:\n        out.append(x)\n        yield len(out)\n\n\nprint(list(gen(5)), list(gen2()), list(gen3([7, 7])))\n",
    "exceptions_flow": "def f(x):\n    try:\n        if x == 0:\n            raise KeyError('k')\n        elif x == 1:\n            return 'one'\n        print('body end')\n    except KeyError as e:\n        print('caught', e)\n        return 'handled'\n    else:\n        print('else')\n    finally:\n        print('finally', x)\n    return 'end'\n\n\ndef g(x):\n    assert x, 'falsy'\n    return x\n\n\nprint(f(0), f(1), f(2))\ntry:\n    g(0)\nexcept AssertionError as e:\n    print('AE', e)\n",
    "with_suppress": "import contextlib\n\n\ndef f():\n    with contextlib.suppress(ValueError):\n        raise ValueError('x')\n    print('after with')\n    return 'done'\n\n\ndef g():\n    with contextlib.suppress(ValueError):\n        return 'inside'\n    return 'outside'\n\n\nprint(f(), g())\n",
    "dunder_main": "def main():\n    print('main ran')\n    return 0\n\n\nif __name__ == '__main__':\n    main()\n",
    "class_features": "class Base:\n    registry = []\n\n    def __init_subclass__(cls, **kw):\n        Base.registry.append(cls.__mro__[1] is Base)\n\n    def __repr__(self):\n        return 'B'\n\n    def __eq__(self, other):\n        return True\n\n    def __hash__(self):\n        return 1\n\n\nclass Child(Base):\n    def method(self):\n        return super().__repr__() + 'c'\n\n    def __len__(self):\n        return 3\n\n\nc = Child()\nprint(c, c.method(), len(c), Base.registry, c == 1, len({c, Child()}), bool(c))\n",
    "property_setter": "class T:\n    def __init__(self):\n        self._v = 0\n\n    @property\n    def v(self):\n        return self._v\n\n    @v.setter\n    def v(self, val):\n        self._v = val * 2\n\n\nt = T()\nt.v = 4\nprint(t.v)\n",
    "string_formatting": "name = 'w'\nn = 3\nprint('%s-%d' % (name, n), '{}:{}'.format(name, n), f'{name!r}:{n:03d}', '{0}{0}'.format(name), '%(a)s' % {'a': 1}, '{x}'.format(x=n), name + str(n), '%s' % name, '%s' % (n,), str(n) + '', f'{n}', f'{name}', ''.join([name, name]), '%5.2f|' % 3.14159)\n",
    "int_float_ops": "a = 7\nb = 2\nprint(a / b, a // b, a % b, -a // b, -a % b, a ** b, a ** -1, 2 ** 0.5 > 1, a * 1, a + 0, a - 0, a * 0, 1 * a, 0 + a, a / 1, a // 1, a ** 1, a ** 0, --a, -(-a), +a, a - -b, 1 / 4 + 1 / 4, (a + b) * 2, a + b * 2, a - (b - 1), a - b - 1, a / (b / 2), a / b / 2, (a * b) ** 2, -a ** 2, (-a) ** 2, not a + 1, 7 // 2 * 2, 7 // (2 * 2))\nx = [1, 2]\nprint(x * 1, x * 0, x + [], [] + x, x[0:], x[:], x[::1], 'ab' * 1, 'ab' + '', x is x[:])\n",
    "global_state_order": "log = []\n\n\ndef a():\n    log.append('a')\n    return 1\n\n\ndef b():\n    log.append('b')\n    return 2\n\n\nif a() > 0 and b() > 0:\n    r = a() + b()\nelse:\n    r = b() + a()\nv = [a(), b()][0] if b() else a()\nprint(r, v, log)\n",
    "loop_var_after_loop": "def f(xs):\n    for i in xs:\n        pass\n    return i\n\n\ndef g(xs):\n    out = []\n    for x in xs:\n        out.append(x)\n    return (out, x)\n\n\ndef h(n):\n    r = [i for i in range(n)]\n    i = 99\n    return (r, i)\n\n\nprint(f([1, 2]), g([3, 4]), h(2))\n",
    "aug_assign_aliasing": "a = [1]\nb = a\na += [2]\nc = a\na = a + [3]\nprint(a, b, c, b is c, a is b)\nd = {}\nfor k in [1, 2, 1]:\n    d.setdefault(k, []).append(k)\nprint(d)\n",
    "walrus_ternary_lambda": "xs = [1, 5, 3]\nif (n := len(xs)) > 2:\n    print(n)\nprint([y for x in xs if (y := x * 2) > 4], (lambda a, b=2: a * b)(3), (1 if xs else 2), [0, 1][bool(xs)], xs and xs[0], not xs or xs[-1])\n",
    "match_statement": "def f(v):\n    match v:\n        case 1:\n            return 'one'\n        case [a, b]:\n            return a + b\n        case {'k': k}:\n            return k\n        case _:\n            return 'other'\n\n\nprint(f(1), f([2, 3]), f({'k': 9}), f(None))\n",
    "async_code": "import asyncio\n\n\nasync def work(n):\n    out = []\n    for i in range(n):\n        out.append(i * 2)\n    await asyncio.sleep(0)\n    return out\n\n\nasync def main():\n    r = await asyncio.gather(work(2), work(3))\n    if r:\n        return r\n    else:\n        return None\n\n\nprint(asyncio.run(main()))\n",
    "recursion_and_globals": "memo = {}\n\n\ndef fib(n):\n    if n in memo:\n        return memo[n]\n    if n < 2:\n        result = n\n    else:\n        result = fib(n - 1) + fib(n - 2)\n    memo[n] = result\n    return result\n\n\nprint(fib(15), len(memo))\n",
    "shadowed_builtins": "def f(xs):\n    sum = 0\n    for x in xs:\n        sum += x\n    return sum\n\n\ndef g(xs):\n    list = [x for x in xs]\n    return list\n\n\nsorted_ = sorted\n\n\ndef sorted(v):\n    return 'mine'\n\n\nprint(f([1, 2]), g([1]), sorted([2, 1]), sorted_([2, 1]), [x for x in sorted([3])])\n",
    "del_and_scopes": "x = 1\ndel x\ntry:\n    print(x)\nexcept NameError:\n    print('gone')\ny = 2\n\n\ndef f():\n    y = 3\n    del y\n    try:\n        return y\n    except UnboundLocalError:\n        return 'unbound'\n\n\nprint(f(), y)\n",
}


# ------------------------------------------------------------------------------------------------
# (c) repository examples, read from $VERIF_REPO at run time


def repo_examples(repo: Path) -> list[tuple[str, str]]:
    import warnings
    warnings.filterwarnings("ignore", category=SyntaxWarning)
    out, seen = [], set()

    def add(name, text):
        if text in seen or len(text) > 6000 or "\n" not in text.strip():
            return
        try:
            ast.parse(text)
        except (SyntaxError, ValueError):
            return
        seen.add(text)
        out.append((name, text))

    integ = repo / "tests" / "integration" / "integration_test_cases.py"
    if integ.exists():
        tree = ast.parse(integ.read_text())
        k = 0
        for node in ast.walk(tree):
            if isinstance(node, ast.Tuple) and len(node.elts) == 2 and all(
                    isinstance(e, ast.Constant) and isinstance(e.value, str) for e in node.elts):
                add(f"integration:{k}:in", node.elts[0].value)
                add(f"integration:{k}:out", node.elts[1].value)
                k += 1
    for p in sorted((repo / "tests" / "unit").glob("test_*.py")):
        try:
            tree = ast.parse(p.read_text())
        except SyntaxError:
            continue
        k = 0
        for node in ast.walk(tree):
            if isinstance(node, ast.Constant) and isinstance(node.value, str) and "\n" in node.value:
                add(f"unit:{p.stem}:{k}", node.value)
                k += 1
    return out
