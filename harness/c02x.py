"""C02X -- development runner for the expression / collection tranche of C02 (harness/c02_expr.py).
Not registered; the coordinator folds coq/props/C02_expr.v.part and c02_expr.check into C02."""
from __future__ import annotations

import json
import random
from pathlib import Path

from . import common, c02_expr

PID = "C02X"


def check(run: common.Run):
    wd = common.workdir(PID)
    ps = common.proof_step(run, PID, wd)
    mods = common.import_impl()
    rnd = random.Random(run.seed)
    cov = c02_expr.check(run, mods, wd, rnd)
    if ps.get("props") and not ps["props"]["ok"]:
        pr = ps["props"]
        run.violation({"kind": "proof", "file": pr["file"], "broken": pr.get("broken"), "log": pr["log"],
                       "explanation": "a property theorem no longer checks"}, False)
    run.coverage.update(cov, exhaustive=False,
                        trusted_base=common.TRUSTED_BASE_COMMON + c02_expr.TRUSTED_BASE,
                        unmodelled=c02_expr.UNMODELLED)
    run.assumptions += c02_expr.ASSUMPTIONS


def replay(path: str) -> int:
    data = json.loads(Path(path).read_text())
    print(json.dumps({k: data[k] for k in data if k in ("kind", "explanation", "site", "source", "output", "problem",
                                                        "rule", "impl_yields", "expr", "env")}, indent=1))
    mods = common.import_impl()
    return c02_expr.replay(mods, data)
