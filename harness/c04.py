"""C04 -- The formatter is total: it never raises and always terminates (kernel K7; partial).

Theorems: coq/props/C04.v (bounded driving of format_code / fix / chain / format_files, early
returns on skip_file and invalid input).  Correspondence: the real format_code over scripted
stages (stage trace = model trace, in particular around the pass budget), early returns on real
strings.  Freedom from arbitrary exceptions inside the stage functions is NOT a theorem: it is
swept -- format_code under all 8 option combinations in isolated workers with a timeout over a
deterministic corpus (every Python 3.12 construct, adversarial constants, statements at EOF,
invalid and indented input, repository examples)."""
from __future__ import annotations

import ast
import json
import random
import time
from collections import Counter
from pathlib import Path

from . import common, drv, drv_findings as dfind, drv_sweep as sw, tables

PID = "C04"


# ---- known-finding predicates (keyed by sig=) over an error record of the sweep ----------------------

def _parse_module_or_fragment(src: str):
    import textwrap
    for t in (src, textwrap.dedent(src.expandtabs(4))):
        try:
            return ast.parse(t), t
        except (SyntaxError, ValueError):
            continue
    return None, src


def _last_line_in_if_else(src: str) -> bool:
    tree, src = _parse_module_or_fragment(src)
    if tree is None:
        return False
    nlines = len(src.splitlines())
    return any(isinstance(n, ast.If) and n.orelse and n.end_lineno == nlines for n in ast.walk(tree))


def _has_non_ascii_identifier(src: str) -> bool:
    tree, src = _parse_module_or_fragment(src)
    if tree is None:
        return False
    for n in ast.walk(tree):
        for attr in ("id", "name", "arg", "attr"):
            v = getattr(n, attr, None)
            if isinstance(v, str) and not v.isascii():
                return True
    return False


def _sig_literal_value(e) -> bool:
    # a non-ValueError exception propagating out of core.literal_value
    return "literal_value" in e["frames"] and e["type"] != "ValueError" and not e.get("timeout")


def _sig_non_ascii(e) -> bool:
    return e["type"] == "RuntimeError" and "rename_variable" in e["frames"] and _has_non_ascii_identifier(e["input"])


def _sig_eof_insert(e) -> bool:
    return (e["type"] == "IndexError" and e["frames"][-1:] == ["get_charnos"]
            and "fill_transaction" in e["frames"] and _last_line_in_if_else(e["input"]))


def _sig_range_step(e) -> bool:
    # sum/len-style aggregate over range(a, b, step) with a symbolic bound: math.floor() of a sympy expression
    if e["type"] != "TypeError" or "_integrate_over" not in e["frames"]:
        return False
    tree, _ = _parse_module_or_fragment(e["input"])
    if tree is None:
        return False
    for n in ast.walk(tree):
        if isinstance(n, ast.Call) and isinstance(n.func, ast.Name) and n.func.id == "range" and len(n.args) == 3 \
                and any(not isinstance(a, ast.Constant) for a in n.args):
            return True
    return False


SIGS = {"range_step_symbolic_bound": _sig_range_step, "literal_value_escape": _sig_literal_value, "non_ascii_identifier": _sig_non_ascii,
        "insertion_after_last_line": _sig_eof_insert}
SITE_OF_SIG = {"range_step_symbolic_bound": "symbolic_math._integrate_over", "literal_value_escape": "core.literal_value", "non_ascii_identifier": "style.rename_variable",
               "insertion_after_last_line": "core.get_charnos"}

WITNESS = {
    "F04-16": ["for x in None:\n    print(x)\n"],
    "F04-11": ["if x: import a, b\n"],
}
FIXED_WITNESS = {
    "F04-17": ['"""doc"""\\\n\nprint(os)\n', "from __future__ import annotations \\\n   # comment\nprint(os)\n"],
    "F04-3": ["é = 1\nprint(é)\n"],
    "F04-1": ["if 1/0:\n    print(1)\n", "if 1 + 'a':\n    print(1)\n", "if {[1]: 2}:\n    print(1)\n",
              "for i in range(int(1e308 * 10)):\n    print(i)\n", "if 1 in 2:\n    print(1)\n"],
    "F04-2": ["import sys\nprint(iter([x for x in sys.argv]))\n"],
    "F04-4": ["if a:\n    x()\n    z()\nelse:\n    y()\n    z()\n",
              "    if a:\n        x()\n        z()\n    else:\n        y()\n        z()\n"],
    "F04-5": ["x = 1 < 'a'\nprint(x)\n", "print([1] <= 2)\n"],
    "F04-9": ["import sys\nn = len(sys.argv)\nprint(sum([3 for z in range(2, n, 3)]))\n"],
    "F04-10": ["from __future__ import (\n    annotations,\n)\nx = np.zeros(3)\n", '"""doc\nmore"""\nprint(np.pi)\n'],
    "F04-7": ["print(sum([3 for z in []]))\n"],
    "F04-8": ["def f(x, y):\n    items = []\n    items.append(x + y)\n    return items\n\n\ng_xs = [1, 2]\n"
              "for k in dict(zip(g_xs, g_xs)).keys():\n    pass\nprint(f(1, 2))\n"],
    "F04-6": ["if a:\n    x()\n    z()\nelse:\n    y()\n    z()",
              "def f():\n    if a:\n        x()\n        z()\n    else:\n        y()\n        z()",
              "    if a:\n        x()\n        z()\n    else:\n        y()\n        z()"],
}


def match_finding(findings, e) -> object | None:
    for f in findings:
        if f.kind != "finding":
            continue
        sig = f.fields.get("sig", "")
        pred = SIGS.get(sig)
        if pred is None or f.fields.get("site") != SITE_OF_SIG.get(sig):
            continue
        try:
            if pred(e):
                return f
        except Exception:  # noqa
            continue
    return None


def run_one(mods, src: str, opts=None) -> dict | None:
    """error record of one in-process format_code call (None = returned normally)"""
    import traceback
    opts = opts or sw.OPTION_COMBOS[0]
    mods["core"].parse.cache_clear()
    try:
        with common.quiet():
            mods["main"].format_code(src, safe=opts["safe"], keep_imports=opts["keep_imports"],
                                     preserve=frozenset(opts["preserve"]))
        return None
    except Exception as e:  # noqa
        stage, inner, frames = sw._site_of(traceback.extract_tb(e.__traceback__))
        return {"type": type(e).__name__, "msg": str(e)[:200], "stage": stage, "inner": inner,
                "frames": frames[-8:], "input": src}


# ---- round 5: the constant kinds admitted as bounds by symbolic_math.simplify_boolean_expressions (T04.9) -----------

KIND_VALUES = {      # kind -> (constructor of DriverModel.bkind, sample values; the first two are an ordered pair of literals)
    "int": ("BkInt", [3, 7, -1, 0, 10 ** 30]), "float": ("BkFloat", [2.5, 7.25, float("nan"), float("inf"), -0.0]),
    "bool": ("BkBool", [False, True]), "str": ("BkStr", ["a", "b", "", "\u00e9"]), "bytes": ("BkBytes", [b"a", b"b", b""]),
    "none": ("BkNone", [None]), "tuple": ("BkTuple", [(1, 2), (1, 3), (), (1, "a"), ("a",)]),
    "complex": ("BkComplex", [1j, 2j, 1 + 0j]),
}


def kind_guard_cases(mods) -> tuple[list[dict], list[str]]:
    """(observations, Coq cases).  AdmitCase: does a constant of kind k take part in the redundant-bound analysis?  Observed on
    the real rule with two bounds of the SAME kind on one operand (`n >= c1 and n >= c2`, `n > c or n >= c`): the text
    changes (or the rule raises inside the analysis) iff the kind is admitted.  OrderCase: `a < b` on CPython for all the
    sample values of two kinds = DriverModel.orderable (the reference semantics of T04.9)."""
    rule = mods["symbolic_math"].simplify_boolean_expressions
    obs, coq = [], []
    for kind, (ctor, vals) in KIND_VALUES.items():
        lits = [repr(v) for v in vals if v == v and v not in (float("inf"),)][:2]
        c1, c2 = lits[0], lits[-1]
        srcs = [f"if n >= {c1} and n >= {c2}:\n    print(n)\n", f"if n > {c1} or n >= {c1}:\n    print(n)\n",
                f"if n < {c2} and n <= {c2} and n < {c1}:\n    print(n)\n"]
        if c1 == c2:       # a kind with one value (None): identical operands are dropped by another mechanism; use < vs <= only
            srcs = [srcs[1], f"if n < {c1} and n <= {c1}:\n    print(n)\n"]
        took_part, detail = False, []
        for src in srcs:
            mods["core"].parse.cache_clear()
            try:
                with common.quiet():
                    out = rule(src)
                detail.append(out)
                took_part |= out != src
            except Exception as e:  # noqa
                detail.append(f"<raised {type(e).__name__}: {e}>")
                took_part = True
        obs.append({"case": "admitted", "kind": kind, "sources": srcs, "took_part": took_part, "outputs": detail})
        coq.append(f"AdmitCase {ctor} {str(took_part).lower()}")
    for k1, (c1, v1) in KIND_VALUES.items():
        for k2, (c2, v2) in KIND_VALUES.items():
            defined = True
            for a in v1:
                for b in v2:
                    for f in (lambda x, y: x < y, lambda x, y: x <= y, lambda x, y: x > y, lambda x, y: x >= y):
                        try:
                            f(a, b)
                        except TypeError:
                            defined = False
            obs.append({"case": "orderable", "kinds": [k1, k2], "always_defined": defined})
            coq.append(f"OrderCase {c1} {c2} {str(defined).lower()}")
    return obs, coq


def check(run: common.Run):
    wd = common.workdir(PID)
    t_start = time.time()
    ps = common.proof_step(run, PID, wd)
    mods = common.import_impl()
    findings = common.load_findings(PID)
    tb = tables.get()
    hist = Counter()
    disagreements: list[dict] = []
    failing_inputs: list[dict] = []

    # (a) format_code over scripted stages (trace = model trace; budget chains)
    fc = drv.format_code_correspondence(mods, wd, run.tier, run.seed,
                                        part="light" if run.tier == "quick" else "all")
    env = fc.pop("env", None)
    if fc["shape_error"]:
        disagreements.append({"kind": "correspondence", "kernel": "K7 shape of _multi_run_fixes", "detail": fc["shape_error"]})
    for d in fc["disagreements"][:5]:
        if "script" in d and env is not None:
            d = dict(d, model=drv.model_view(wd, env, d["script"], d["impl"], tb["MAX_FILE_PASSES"]))
        disagreements.append(d)
    n_more = max(0, len(fc["disagreements"]) - 5)

    # (b) early returns on real strings: skip_file verbatim; invalid/blank input only whitespace-normalised
    for b in drv.early_return_check(mods):
        failing_inputs.append({"kind": "property-oracle", "what": b["problem"], "case": b})
    hist["early-return cases"] = len(drv.early_return_cases()) * 4
    wsrc = [st for st in sw.EOF_STATEMENTS] + [c.rstrip("\n") for _, c in drv.early_return_cases()] + \
        [w for w in FIXED_WITNESS["F04-6"]] + ["x = 1\r", "   ", "\t", "a = 1\nprint(a)\n\n\n    "] + \
        ["x = 1 \\\n   ", "import sys\nprint(sys.argv) \\\n\t", '"""doc""" \\\n ', "print(1) \\\r\n   ", "# comment \\",
         "x = 'a\\\nb'", "print(1) \\\n\n  "]
    n_wrap, wbad = drv.wrapper_check(mods, wsrc)
    for b in wbad[:4]:
        disagreements.append({"kind": "correspondence", "kernel": "K7 format_code_outer (final line break wrapper) on real strings",
                              "case": b})
    hist["wrapper cases (real strings)"] = n_wrap

    # (c) fix()/chain() pass bound on the implementation: a rule that never converges is called
    #     exactly max_iter times
    processing, core = mods["processing"], mods["core"]
    for which, mi in (("fix", tb["FIX_MAX_ITER"]), ("chain", tb["CHAIN_MAX_ITER"]), ("fix3", 3)):
        calls = []

        def rule(source):
            calls.append(source)
            k = int(source[1:].strip())
            yield (core.Range(0, len(source)), f"a{k + 1}\n")
        with common.quiet():
            if which == "fix":
                out = processing.fix(rule)("a0\n")
            elif which == "fix3":
                out = processing.fix(rule, max_iter=3)("a0\n")
            else:
                out = processing.chain(r for r in [rule])("a0\n")      # an iterator: materialised once
        if len(calls) != mi or out != f"a{mi}\n":
            disagreements.append({"kind": "correspondence", "kernel": "K1 fix/chain pass bound (T04.1')",
                                  "case": {"which": which, "max_iter": mi, "passes": len(calls), "out": out}})
    hist["fix/chain bound cases"] = 3

    # (d) T04.9: the kinds of constants the bound analysis of simplify_boolean_expressions admits / CPython's ordering
    kobs, kcoq = kind_guard_cases(mods)
    bad, errs = drv.run_simple_cases(wd, "kinds", "kind_case", "kind_case_ok", kcoq)
    disagreements += errs
    for i in bad:
        disagreements.append({"kind": "correspondence", "kernel": "K7 bound_admitted / orderable (T04.9: isinstance guard of "
                              "symbolic_math.simplify_boolean_expressions, CPython ordering of constant kinds)", "case": kobs[i],
                              "explanation": "the set of constant kinds collected as bounds (or CPython's ordering between kinds) "
                                             "differs from DriverModel.v: T04.9 no longer speaks about the code"})
    hist["bound-kind cases"] = len(kcoq)

    # ---- sweep (not proof)
    fam = sw.build_corpus(run.tier)
    budget = 110 if run.tier == "quick" else 1800
    deadline = time.time() + budget
    jobs, meta = [], {}
    step = {"quick": {"constants": 2, "functions": 3, "repo": 6, "constructs": 1, "blank_runs": 3}, "thorough": {}}[run.tier]
    extra = [w for ws in list(WITNESS.values()) + list(FIXED_WITNESS.values()) for w in ws]
    fam["witnesses"] = extra
    from . import drv_hunt as dh
    if run.tier == "quick":
        fam["hetero_bounds_all"] = fam["hetero_bounds"]
        fam["hetero_bounds"] = [s for s in fam["hetero_bounds"] if s in dh.HETERO_CORE]
        fam["type_confusion"] = fam["type_confusion"][::3]
        fam["continuations"] = fam["continuations"][:2] + fam["continuations"][2::2]      # C03 runs all of them
    for name in ("witnesses", "hetero_bounds", "continuations", "type_confusion", "tiny", "unorderable", "first_statement", "oneline_compound", "decorated_constant", "compile_only",
                 "imports", "resources", "aggregates", "invalid", "indented", "tabs", "eof", "constructs", "constants",
                 "functions", "repo", "blank_runs", "alias_chains"):
        srcs = fam[name][::step.get(name, 1)]
        for i, s in enumerate(srcs):
            if run.tier == "thorough" and name == "hetero_bounds":      # the basic product first: 4 combinations; the rest: 1
                combos = [sw.OPTION_COMBOS[j] for j in ((0, 2, 4, 6) if i < 18500 else ((i % 4) * 2,))]
            elif run.tier == "thorough" or name in ("witnesses", "invalid", "indented", "tabs", "eof"):
                combos = sw.OPTION_COMBOS
            elif name == "hetero_bounds":  # all 4 safe / keep_imports combinations in the thorough tier, one (rotating) here
                combos = [sw.OPTION_COMBOS[(i % 4) * 2]]
            elif name == "continuations":
                combos = [sw.OPTION_COMBOS[(0, 6, 3, 5)[i % 4]]]
            elif name == "imports":        # keep_imports decides whether the import tracers run
                combos = [sw.OPTION_COMBOS[j] for j in (0, 2, 5, 7)]
            elif name in ("tiny", "first_statement", "oneline_compound", "decorated_constant", "compile_only"):
                combos = [sw.OPTION_COMBOS[j] for j in (0, 7)]
            elif name in ("resources", "aggregates"):
                combos = [sw.OPTION_COMBOS[j] for j in ((0, 5) if name == "resources" else (i % 8,))]
            elif name == "constructs":
                combos = [sw.OPTION_COMBOS[j] for j in (i % 8, (i + 3) % 8, (i + 5) % 8, (i + 6) % 8)]
            else:
                combos = [sw.OPTION_COMBOS[i % 8]]
            for o in combos:
                jid = len(jobs)
                jobs.append((jid, s, o, 1))
                meta[jid] = name
    # the rules that order / evaluate constants, called directly (what an earlier stage of format_code rewrites never
    # reaches them otherwise): every rule of symbolic_math on the heterogeneous-bound family (quick tier: the
    # bound analysis on the whole operator^2 x type^2 square, the other rules on its core third), the constant
    # consumers on the type-confusion family
    rule_jobs: list[int] = []
    for name, rules, srcs in (
            ("hetero_bounds", dh.SYMBOLIC_MATH_RULES[:1], fam.get("hetero_bounds_all", fam["hetero_bounds"])),
            ("hetero_bounds", dh.SYMBOLIC_MATH_RULES[1:], fam["hetero_bounds"]),
            ("type_confusion", dh.TYPE_CONFUSION_RULES, fam["type_confusion"])):
        srcs = [s_ for s_ in srcs if sw.valid(s_)]
        for rname in rules:
            for k in range(0, len(srcs), 100):          # batches: one pipe round trip per 100 calls of ~1 ms
                jid = len(jobs)
                jobs.append((jid, srcs[k:k + 100], rname, 1))
                meta[jid] = name
                rule_jobs.append(jid)
    # order: witnesses + heterogeneous bounds through format_code, then the (cheap) rule batches, then the rest
    n_head = sum(1 for j in jobs if meta[j[0]] in ("witnesses", "hetero_bounds") and not isinstance(j[2], str))
    order = jobs[:n_head] + [jobs[j] for j in rule_jobs] + [j for j in jobs[n_head:] if j[0] not in set(rule_jobs)]
    workers = sw.Workers(min(8, common.NCPU))
    try:
        results = workers.run(order, soft=60, hard=90, deadline=deadline)
    finally:
        workers.close()
    sweep = Counter()
    matched_ids = set()
    unmatched = {}
    slowest = 0.0
    for jid, r in sorted(results.items()):
        name = meta[jid]
        src, opts = jobs[jid][1], jobs[jid][2]
        if r.get("skipped"):
            sweep["skipped (time budget)"] += 1
            continue
        if isinstance(opts, str):        # a batch of sources handed to one rule directly
            batch = r.get("batch") or []
            sweep[f"rule runs:{name}"] += len(batch)
            items = [(src[k], b) for k, b in enumerate(batch) if b]
            if r.get("timeout") and len(batch) < len(src):
                items.append((src[len(batch)], {"type": "Timeout", "msg": "no result within the timeout", "frames": [], "inner": opts}))
            elif r["error"]:
                items.append((src[min(len(batch), len(src) - 1)], r["error"]))
            for one, e in items:
                sweep["rule raised / timed out"] += 1
                key = ("rule", e["type"], opts)
                if key in unmatched:
                    continue
                # failing-input search: the same module through the real format_code, every option combination
                via = None
                for o in sw.OPTION_COMBOS:
                    e2 = run_one(mods, one, o)
                    if e2 is not None:
                        via = {"options": o, "error": {k: e2[k] for k in ("type", "msg", "stage", "inner")}}
                        break
                unmatched[key] = {"kind": "sweep", "what": f"{opts} raised {e['type']} on a valid module: {e['msg']}"
                                  + ("; format_code raises as well" if via else "; format_code calls the rule unguarded "
                                     "(here an earlier stage rewrites the input first)"),
                                  "site": e.get("inner") or opts, "stage": opts, "frames": e.get("frames"),
                                  "case": {"source": one, "rule": opts, "options": via["options"] if via else None,
                                           "format_code": via}}
            continue
        sweep[f"runs:{name}"] += 1
        slowest = max(slowest, r.get("wall", 0.0))
        if r.get("timeout"):
            failing_inputs.append({"kind": "sweep", "what": "format_code did not return within the timeout",
                                   "case": {"source": src, "options": opts}})
            continue
        if r["error"]:
            e = r["error"]
            sites = {e["stage"], e["inner"]}
            if e["type"] in dfind.SYNTAX_ERRORS:    # the stage that raised is the victim of the one that broke the text
                culprit = sw.first_bad_stage(mods, e["input"], opts, sw.valid)
                if culprit:
                    sites, e = {culprit}, dict(e, stage=culprit)
            f = match_finding(findings, e) or dfind.match(findings, sites, e["input"])
            if f is not None:
                sweep[f"matched {f.id}"] += 1
                matched_ids.add(f.id)
                continue
            key = (e["type"], e["stage"], e["inner"])
            if key not in unmatched:
                unmatched[key] = {"kind": "sweep", "what": f"format_code raised {e['type']}: {e['msg']}",
                                  "site": e["inner"], "stage": e["stage"], "frames": e["frames"],
                                  "case": {"source": src, "options": opts}}
            sweep["raised, not a known finding"] += 1
            continue
        out = r["outs"][0]
        if drv.really_invalid(src) and drv.ws_normalise(out) != drv.ws_normalise(src):
            failing_inputs.append({"kind": "sweep", "what": "invalid input changed beyond whitespace normalisation",
                                   "case": {"source": src, "options": opts, "output": out}})
        sweep["returned a string"] += 1
    failing_inputs += list(unmatched.values())

    # ---- known findings / fixed witnesses
    for f in findings:
        ws = (WITNESS if f.kind == "finding" else FIXED_WITNESS).get(f.id, [])
        errs = [run_one(mods, w) for w in ws]
        if f.kind == "finding":
            if any(e is not None and (match_finding([f], e) is f or
                                      dfind.match([f], {e["stage"], e["inner"], "main.format_code"}, e["input"]) is f) for e in errs) \
                    or f.id in matched_ids:
                run.known_finding(f.id, f"site={f.fields.get('site')} :: {f.text[:150]}")
            elif ws:
                common.log(f"note: finding {f.id} no longer reproduces")
        else:
            for w, e in zip(ws, errs):
                if e is not None:
                    failing_inputs.append({"kind": "fixed-witness", "what": f"the repaired defect {f.id} is back: "
                                           f"{e['type']}: {e['msg']}", "case": {"source": w, "error": e}})

    # ---- verdicts
    reported_groups = set()
    for fi in failing_inputs:
        gkey = (fi.get("kind"), str(fi.get("what"))[:60], fi.get("site"))
        if gkey in reported_groups or len(reported_groups) >= 24:
            continue
        reported_groups.add(gkey)
        run.violation(dict(fi, explanation="the real format_code violates C04 on this input"), True)
    have_input = bool(failing_inputs)
    for d in disagreements[:6]:
        run.violation(dict(d, explanation=d.get("explanation", "model and implementation disagree"),
                           more_disagreements=n_more), have_input)
    if ps.get("props") and not ps["props"]["ok"]:
        pr = ps["props"]
        run.violation({"kind": "proof", "file": pr["file"], "broken": pr.get("broken"), "log": pr["log"],
                       "explanation": "a property theorem no longer checks"}, have_input)

    run.coverage.update(
        evaluations=fc["evaluations"] + hist["early-return cases"] + 3 + n_wrap + len(kcoq),
        distinct_nontrivial=fc["distinct"],
        rule=("correspondence cases: main.format_code with every stage replaced by a table lookup: all f : 4 -> 4 on "
              "one stage of _multi_run_fixes x start x safe x keep_imports x {module, indented fragment} (quick: 1/4 "
              "shard rotating with the seed), successor chains of length MAX_FILE_PASSES-1 .. 2*MAX_FILE_PASSES+3 "
              "(both loops exhausted / cut), seeded random scripts incl. invalid and skip_file inputs; the complete "
              "stage trace (hence the number of stage applications) must equal the model's. Real strings: 9 "
              "skip/blank/invalid inputs x 4 option combinations. Non-trivial = >= 2 multi-run passes with a distinct "
              "(trace, result)."),
        samples=fc["samples"],
        exhaustive=run.tier != "quick",
        exhaustive_parts={"format_code_f4x4": run.tier != "quick", "budget_chains": True},
        histogram=dict(hist) | {"format_code scripted: " + k: v for k, v in fc["histogram"].items()},
        n_multi_stages=fc.get("n_multi"),
        stage_application_bound=(2 * tb["MAX_FILE_PASSES"] * fc["n_multi"] + 16) if fc.get("n_multi") else None,
        correspondence_disagreements=len(disagreements) + n_more,
        sweep=dict(sweep) | {"jobs": len(jobs), "rule_batches": len(rule_jobs), "slowest_call_s": slowest, "timeout_s": 60,
                             "corpus": {k: len(v) for k, v in fam.items()},
                             "note": "format_code in isolated forked workers (SIGALRM soft limit, hard kill); all 8 option "
                                     "combinations on witnesses/invalid/indented/tabs/EOF inputs, 4 on constructs, 1 "
                                     "(rotating) on the rest in the quick tier; deterministic, seed independent; "
                                     "NOT a proof obligation"},
        unmodelled=["freedom from Python exceptions and wall-clock bounds inside the ~100 stage functions (swept only)",
                    "T04.2 (self-recursive rules), T04.3 (literal_value error discipline: owned by C15), "
                    "T04.5 (index safety of get_charnos: owned by C13) of the design are not built here"],
        trusted_base=common.TRUSTED_BASE_COMMON + [
            "scripted stage fakes + TStr of harness/drv.py", "fork + SIGALRM based worker isolation of harness/drv_sweep.py"],
    )
    run.assumptions += [
        "the theorems bound the DRIVERS (number of stage applications); each stage is assumed to terminate",
        "the tie between DriverModel.v and main.py is the trace correspondence above",
        "the sweep covers only the listed corpus; it can find crashes, never prove their absence"]
    run.notes.append(f"wall before finish: {round(time.time() - t_start, 1)} s; format_code correspondence {fc.get('wall_s')} s")


def replay(path: str) -> int:
    data = json.loads(Path(path).read_text())
    mods = common.import_impl()
    wd = common.workdir(PID + "-replay")
    print(json.dumps({k: data[k] for k in data if k in ("kind", "explanation", "kernel", "what", "site", "stage")}, indent=1))
    kind = data.get("kind")
    if kind in ("sweep", "fixed-witness", "property-oracle") and "source" in data.get("case", {}):
        c = data["case"]
        if c.get("rule"):
            m, a = c["rule"].split(".")
            mods["core"].parse.cache_clear()
            try:
                with common.quiet():
                    getattr(mods[m], a)(c["source"])
                print("rule now: returns normally")
            except Exception as e:  # noqa
                print("rule now:", type(e).__name__, e)
        if not c.get("rule") or c.get("options"):
            e = run_one(mods, c["source"], c.get("options"))
            print("format_code now:", "returns normally" if e is None else e)
    elif kind == "correspondence" and "script" in data:
        env = drv.Env(mods)
        env.install()
        try:
            obs = env.run(data["script"])
        finally:
            env.uninstall()
        print("impl :", obs)
        print("model:", drv.model_view(wd, env, data["script"], obs, tables.get()["MAX_FILE_PASSES"]))
    elif kind == "proof":
        print(common.check_props(PID, wd))
    else:
        print(json.dumps(data, indent=1)[:4000])
    return 0
