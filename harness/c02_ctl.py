"""C02 tranche "ctl": abstractions.simplify_if_control_flow over MiniPy (coq/theories/RulesCtlModel.v, RulesCtlProofs.v).

Correspondence: printed MiniPy programs (harness/minipy.py printer; variables >= VB = 10 are printed as the
rule's own `var_<n-9>` names) go through the REAL rule; its output, read back, must equal RulesCtlModel.sicf.
Property oracle: every program the real rule changed is executed before / after with the scripted stubs of
minipy.run_python (outcome, returned value, event trace, v0..v2).
"""
from __future__ import annotations

import itertools
import json
import re
import time
from collections import Counter

from harness import common
from harness import minipy as M

TRANCHE = "ctl"
RULE = "abstractions.simplify_if_control_flow"
VB = 10

HEADER = ("From Coq Require Import List Bool Arith.\nImport ListNotations.\n"
          "Require Import Pyrefact.Base Pyrefact.MiniPyModel Pyrefact.RulesCtlModel.\n")


class Unsupported(Exception):
    pass


# ------------------------------------------------------------------------------------------------
# text <-> term (names)


def to_text(p) -> str:
    return re.sub(r"\bv(\d\d+)\b", lambda m: f"var_{int(m.group(1)) - VB + 1}", M.prog_src(p))


def from_text(src: str):
    return M.parse_prog(re.sub(r"\bvar_(\d+)\b", lambda m: f"v{int(m.group(1)) + VB - 1}", src))


def is_add(s) -> bool:
    return s[0] == "asg" and s[1] >= VB and s[2][0] == "X"


def canon(p):
    """the order of the `var_N = name` lines the rule adds in front of a branch is the sort order of alter_code
    (by unparsed text), irrelevant for the behaviour (distinct fresh targets): sorted by N here, as the model emits them"""
    out = []
    for s in p:
        if s[0] in ("if", "while", "for"):
            s = (s[0], s[1], canon(s[2]), canon(s[3]))
        out.append(s)
    k = 0
    while k < len(out) and is_add(out[k]):
        k += 1
    return sorted(out[:k], key=lambda s: s[1]) + out[k:]


def apply_real(mods, src: str) -> str:
    mods["core"].parse.cache_clear()
    with common.quiet():
        return mods["abstractions"].simplify_if_control_flow(src)


# ------------------------------------------------------------------------------------------------
# enumeration


def ev(i, *rd):
    return ("ev", i, tuple(rd))


def U(i, *rd):
    return ("U", i, tuple(rd))


ATOMS = [ev(1, 0), ev(2, 0, 0), ev(2, 0, 1), ev(2, 1, 0), ("ret", ("T", U(3, 0))), ("ret", ("X", 0)), ("raise",),
         ev(4), ("ret", ("X", 1)), ("ret", ("V", ("O", True, 3))), ev(22, 0, 0, 0)]


def rename_term(t, m):
    if isinstance(t, tuple):
        if t and t[0] in ("ev", "U", "IU"):
            return (t[0], t[1], tuple(m.get(x, x) for x in t[2]))
        if t and t[0] == "X":
            return ("X", m.get(t[1], t[1]))
        if t and t[0] == "asg":
            return ("asg", m.get(t[1], t[1]), rename_term(t[2], m))
        if t and t[0] in ("V", "K", "IK"):
            return t
        return tuple(rename_term(x, m) for x in t)
    if isinstance(t, list):
        return [rename_term(x, m) for x in t]
    return t


MAPS = [{}, {0: 1}, {0: 1, 1: 0}, {0: 2}, {0: 2, 1: 0}, {1: 2}, {0: VB}, {0: 1, 1: 2}]


def bodies(quick):
    out = []
    for n in (1, 2, 3):
        for c in itertools.product(ATOMS[:9] if n < 3 else ATOMS[:4] + ATOMS[10:], repeat=n):
            # nothing after a return / raise
            if any(s[0] in ("ret", "raise") for s in c[:-1]):
                continue
            out.append(list(c))
    return out


def inner_if(x, y):
    return ("if", U(5, x), [ev(2, x, x), ev(2, x, y)], [ev(6, y, y), ("ret", ("X", x))])


def loopy(x):
    return ("for", ("IU", 7, (x,)), [ev(2, x, x), ("break",)], [ev(8, x)])


def fam(quick: bool):
    """seed independent: if / else whose orelse is a renaming of the body (or not), in several contexts"""
    T = U(0)
    progs = []
    bs = bodies(quick)
    for b in bs:
        for m in MAPS:
            e = rename_term(b, m)
            progs.append([("if", T, b, e)])
    # structure differs / count differs / a stub name differs
    for b, e in itertools.product(bs[:40], bs[:40]):
        if len(b) == len(e) and b != e:
            progs.append([("if", U(0, 2), b, e)])
    # contexts, on bodies that are long enough to pass the size guard
    big = [b for b in bs if len(b) >= 2][:: (7 if quick else 1)]
    for b in big:
        for m in MAPS[1:5]:
            e = rename_term(b, m)
            node = ("if", T, b, e)
            progs.append([("asg", VB, ("X", 2)), node, ("ret", ("X", VB))])                # var_1 is taken
            progs.append([("asg", VB + 1, ("X", 2)), node, ("ret", ("X", VB + 1))])        # var_2 is taken
            progs.append([("while", U(9), [node, ("break",)], [])])                        # inside a loop
            progs.append([("if", U(9, 0), [ev(1, 0)], [node])])                            # as elif / else of an outer if
            progs.append([("if", U(9, 0), [node], [ev(1, 0)])])                            # inside a body
            progs.append([("if", U(9, 0), b, [("if", T, e, rename_term(b, {0: 2, 1: 2}))])])  # elif chain, 3 branches
            progs.append([("if", U(9, 0), [node], [("if", T, b, e)]), ev(1, 2)])           # both sides carry a candidate
            progs.append([node, ("if", U(9, 1), rename_term(b, {0: 2}), e)])               # two candidates in a row
            progs.append([("if", U(9), [("asg", 2, ("X", 0)), node], [ev(1, 1)])])         # assignment in the outer node only
            progs.append([("if", T, [("asg", 2, ("X", 0))] + b, [("asg", 2, ("X", 1))] + e)])  # assignment inside
    # depth 2: nested ifs / loops inside the branches; elif whose chain matches the body (alter_code refuses)
    for x, y in [(0, 1), (1, 0), (0, 2), (2, 2)]:
        for x2, y2 in [(1, 0), (1, 2), (2, 1), (0, 1)]:
            progs.append([("if", T, [ev(1, x), inner_if(x, y)], [ev(1, x2), inner_if(x2, y2)])])
            progs.append([("if", T, [inner_if(x, y)], [inner_if(x2, y2)])])
            progs.append([("if", T, [inner_if(x, y)], [inner_if(x2, y2)]), ("if", T, [ev(2, 0, 0), ev(2, 0, 0)], [ev(2, 1, 1), ev(2, 1, 1)])])
            progs.append([("if", T, [ev(1, x), loopy(x), ev(2, x, y)], [ev(1, x2), loopy(x2), ev(2, x2, y2)])])
            progs.append([("if", U(0, x), [ev(1, x), ("while", ("N", U(7, x)), [ev(2, x, y), ("cont",)], [])],
                           [ev(1, x2), ("while", ("N", U(7, x2)), [ev(2, x2, y2), ("cont",)], [])])])
    return progs


def rand_prog(rnd):
    def block(d, n):
        out = []
        for _ in range(n):
            r = rnd.random()
            if d > 0 and r < 0.25:
                out.append(node(d - 1))
            elif d > 0 and r < 0.32:
                out.append(("while", U(9, rnd.randrange(3)), block(d - 1, 2) + [("break",)], []))
            else:
                out.append(rename_term(rnd.choice(ATOMS[:4] + ATOMS[7:8] + ATOMS[10:]), {0: rnd.randrange(3), 1: rnd.randrange(3)}))
        if rnd.random() < 0.3:
            out.append(rnd.choice([("ret", ("X", rnd.randrange(3))), ("raise",), ("ret", ("T", U(3, rnd.randrange(3))))]))
        return out

    def node(d):
        b = block(d, rnd.randrange(2, 5))
        r = rnd.random()
        if r < 0.7:
            m = dict(zip(range(3), rnd.choice([(1, 0, 2), (1, 2, 0), (2, 1, 0), (0, 2, 1), (1, 1, 2), (0, 1, 2)])))
            e = rename_term(b, m)
            if rnd.random() < 0.15 and e:
                e = e[:-1] + [rnd.choice(ATOMS[:4])]
        else:
            e = block(d, rnd.randrange(1, 3))
        return ("if", U(0, rnd.randrange(3)), b, e)

    p = [node(rnd.choice([0, 1, 1, 2]))]
    if rnd.random() < 0.3:
        p = [("asg", VB + rnd.randrange(2), ("X", 0))] + p
    if rnd.random() < 0.3:
        p.append(node(0))
    return p


SCRIPTS = [[], [("B", True)] * 8, [("B", True), ("B", False), ("B", True), ("B", False)],
           [("B", False), ("B", True), ("B", True), ("B", False), ("B", True)], [("O", True, 1), ("O", False, 1), ("B", True)]]
INITS = [(("O", True, 0), ("O", True, 1), ("O", True, 2)), (("B", True), ("O", False, 3), ("O", True, 5))]

# text-level witnesses outside MiniPy: (finding id, source, driver); stdout before / after must be equal
WITNESSES = [
    ("F02ctl-1",
     "def f(flag):\n    if flag:\n        print('start', 1)\n        print('value', 1, 1)\n        print('value', aa, aa)\n"
     "    else:\n        print('start', 1)\n        print('value', 1, 1)\n        print('value', bb, bb)\n"
     "bb = 2\ntry:\n    f(True)\nexcept NameError as exc:\n    print('NameError')\n"),
]


def bound(src: str) -> str:
    """MiniPy reads a never assigned variable as a default value: give the var_N names one for the CPython run"""
    return src.replace(M.HEADER, M.HEADER + "    var_1 = var_2 = var_3 = var_4 = var_5 = var_6 = False\n", 1)


def run_program(src: str) -> str:
    import contextlib
    import io
    buf = io.StringIO()
    with contextlib.redirect_stdout(buf):
        try:
            exec(compile(src, "<ctl-witness>", "exec"), {"__name__": "__ctl__"})
        except BaseException as e:  # noqa
            print("raised", type(e).__name__)
    return buf.getvalue()


def _shards(items, n=400):
    for k in range(0, len(items), n):
        yield k // n, items[k:k + n]


def check(run, mods, wd, rnd) -> dict:
    t0 = time.time()
    quick = run.tier == "quick"
    hist = Counter()
    kf = common.load_findings("C02")
    problems, cases, failures = [], [], []
    seen = set()
    n_oracle = 0
    progs = [(False, p) for p in fam(quick)] + [(True, rand_prog(rnd)) for _ in range(300 if quick else 6000)]
    for seeded, p in progs:
        key = repr(p)
        if key in seen:
            continue
        seen.add(key)
        if not M.well_formed(p):
            hist["ill-formed"] += 1
            continue
        src = to_text(p)
        try:
            if from_text(src) != p:
                raise Unsupported("round trip")
        except (M.ParseError, Unsupported, SyntaxError):
            hist["unprintable"] += 1
            continue
        try:
            out = apply_real(mods, src)
        except Exception as e:  # noqa
            problems.append({"rule": RULE, "source": src, "problem": f"rule raised {type(e).__name__}: {e}"})
            continue
        try:
            q = canon(from_text(out))
        except (M.ParseError, SyntaxError) as e:
            problems.append({"rule": RULE, "source": src, "output": out, "problem": f"rule-output-outside-fragment: {e}"})
            continue
        fired = q != p
        hist["fired" if fired else "silent"] += 1
        if re.search(r"\bvar_(9|\d\d+)\b", out):
            # from var_10 on, the rule's textual `replace("var_1", ...)` also hits var_10..var_19 and the equality check
            # fails where a renaming of names would pass (the rule skips the node: harmless, but not what the model
            # does): such programs are only run through the property oracle
            hist["outside-domain(var_9 and up in the output)"] += 1
        else:
            cases.append((p, q, src, out, seeded))
        if fired:
            # property oracle on the real rule's output
            for init in INITS:
                for script in SCRIPTS:
                    r1 = M.run_python(bound(src), init, script)
                    r2 = M.run_python(bound(out), init, script)
                    n_oracle += 1
                    if r1 != r2:
                        failures.append({"source": src, "output": out, "problem": f"init {init} script {script}: {r1} before, {r2} after"})
                        break
    t_rule = round(time.time() - t0, 1)

    files, meta = [], []
    for k, shard in _shards(cases):
        f = wd / f"ctl_cases_{k}.v"
        body = ";\n ".join(f"({M.g_prog(c[0])}, {M.g_prog(c[1])})" for c in shard)
        f.write_text(HEADER + f"Definition cases : list (list stmt * list stmt) := [\n {body}\n].\n"
                     "Eval vm_compute in (bad_idx ctl_case_ok cases).\n")
        files.append(f)
        meta.append(shard)
    results = common.run_case_files(files)
    t_coq = round(time.time() - t0, 1)
    disagreements = []
    for f, shard in zip(files, meta):
        rc, out = results[f]
        idx = common.parse_nat_list(out) if rc == 0 else None
        if idx is None:
            disagreements.append({"kind": "eval-failed", "file": f.name, "log": out[-1500:]})
            continue
        for i in idx:
            c = shard[i]
            disagreements.append({"kind": "rule-model", "rule": RULE, "source": c[2], "impl_output": c[3]})

    # ---- text-level witnesses of the listed findings of this tranche
    reproduced = {}
    n_wit = 0
    for fid, src, in WITNESSES:
        new = apply_real(mods, src)
        before, after = run_program(src), run_program(new)
        n_wit += 1
        listed = [f for f in kf if f.kind == "finding" and f.id == fid]
        if before == after:
            if listed:
                common.log(f"note: known finding {fid} no longer reproduces on its witness")
            continue
        if listed:
            reproduced[fid] = (listed[0], f"witness prints {before!r} before, {after!r} after")
        else:
            failures.append({"source": src, "output": new, "witness": True, "problem": f"stdout {before!r} before, {after!r} after"})
    for fid, (f, text) in sorted(reproduced.items()):
        run.known_finding(fid, f"{f.text} [{text[:300]}]")

    import os
    if os.environ.get("C02CTL_DEBUG"):
        with open(os.environ["C02CTL_DEBUG"], "w") as fh:
            json.dump({"disagreements": disagreements, "problems": problems, "failures": failures}, fh, indent=1, default=str)
    for d in (disagreements + problems)[:8]:
        common.log("ctl tranche: " + json.dumps(d, default=str)[:900])
    for f in failures[:2]:
        run.violation({"tranche": TRANCHE, "kind": "property-oracle", "site": RULE, **f,
                       "explanation": "executing the program rewritten by simplify_if_control_flow gives a different outcome / "
                                      "event trace / v0..v2 than before, and no listed finding covers it"}, True)
    if not failures:
        for d in (disagreements + problems)[:5]:
            run.violation({"tranche": TRANCHE, **d, "kernel": "RulesCtl",
                           "explanation": "RulesCtlModel.sicf and the real rule disagree on this program; the property oracle "
                                          "found no differing execution on the explored scripts"}, False)
    fired = [c for c in cases if c[0] != c[1]]
    return {
        "evaluations": len(cases) + n_oracle + n_wit,
        "distinct_nontrivial": len(fired),
        "rule": ("simplify_if_control_flow: `if c(0): B else: E` for every block B of <= 2 statements of a pool of 9 (3 of a pool "
                 "of 5) and E = B under 8 renamings of v0 / v1 / v2 / var_1, every pair of distinct equally long blocks of the "
                 "first 40, the long ones again in 10 contexts (var_1 / var_2 taken, inside while, as elif / else, inside a body, "
                 "3-branch elif chain, two candidates, assignments around / inside), nested ifs / loops in both branches "
                 "(depth 2), then seeded random programs; non-trivial = the real rule changed the program"),
        "samples": [c[2] for c in fired[:2]] + [c[2] for c in fired[-1:]],
        "modelled_rules": MODELLED, "rules_modelled": MODELLED,
        "histogram": dict(hist), "rule_cases": len(cases), "semantic_cases": 0,
        "correspondence_disagreements": len(disagreements), "rule_problems": len(problems),
        "oracle_runs": n_oracle, "oracle_failures": len(failures), "witness_programs": n_wit,
        "timings_cumulative": {"rule_s": t_rule, "coq_s": t_coq},
    }


MODELLED = [RULE]
TRUSTED_BASE = [
    "ctl: MiniPy printer / reader of harness/minipy.py plus the renaming v<10+k> <-> var_<k+1> (round trip asserted on every "
    "case); the `var_N = name` lines in front of a branch are compared up to their order; MiniPyModel.exec is validated "
    "against CPython by the Flow tranche",
]
UNMODELLED = [
    "abstractions.simplify_if_control_flow: the textual `str.replace` of the equality check is modelled as a renaming of "
    "variables (no printed MiniPy name is a substring of another token: programs whose output reaches var_9 are only run "
    "through the property oracle, from var_10 on `replace('var_1', ..)` hits var_1x and the real rule skips nodes the model "
    "rewrites); names that are not function locals (globals "
    "rebound by a call: F02-82; names bound inside the branch: F01-106; unbound names: F02ctl-1) are outside MiniPy",
    "abstractions.create_abstractions: no model",
]
ASSUMPTIONS = [
    "ctl: variables are locals of the function and are bound (MiniPy reads an unassigned variable as a default value); "
    "opaque calls do not rebind them",
]


def replay(mods, data) -> int:
    print(json.dumps({k: v for k, v in data.items() if k in ("kind", "rule", "site", "problem", "explanation")}, indent=1)[:3000])
    src = data.get("source")
    if not src:
        return 0
    new = apply_real(mods, src)
    print("input:\n" + src + "output now:\n" + new)
    if data.get("witness"):
        b, a = run_program(src), run_program(new)
        print("now:", repr(b), "->", repr(a))
        return 1 if a != b else 0
    if data.get("kind") == "property-oracle":
        bad = 0
        for init in INITS:
            for script in SCRIPTS:
                if M.run_python(bound(src), init, script) != M.run_python(bound(new), init, script):
                    bad = 1
        print("still differs" if bad else "no difference now")
        return bad
    return 0
