"""C15 -- expression terms: Python-source printer, AST reader (round-trip guard), Gallina printer,
value canonicalisation, and the enumerated / random case generators."""
from __future__ import annotations

import ast
import itertools

from .common import gz, glist, gbool

# term := ("const", v) | ("name", x) | ("un", op, e) | ("bin", op, a, b) | ("bool", isand, [e..])
#       | ("cmp", a, [(op, e)..]) | ("if", c, a, b) | ("tuple", [e..]) | ("list", [e..])
#       | ("call", f, [e..], [(kw, e)..]) | ("meth", recv_value, m, [e..], [(kw, e)..])

UNOPS = {"not": ("UNot", "not ", ast.Not), "neg": ("UNeg", "-", ast.USub), "pos": ("UPos", "+", ast.UAdd),
         "inv": ("UInv", "~", ast.Invert)}
BINOPS = {"Add": "+", "Sub": "-", "Mult": "*", "Div": "/", "FloorDiv": "//", "Mod": "%", "Pow": "**",
          "LShift": "<<", "RShift": ">>", "BitOr": "|", "BitXor": "^", "BitAnd": "&", "MatMult": "@"}
CMPOPS = {"Eq": "==", "NotEq": "!=", "Lt": "<", "LtE": "<=", "Gt": ">", "GtE": ">=", "Is": "is",
          "IsNot": "is not", "In": "in", "NotIn": "not in"}


def C(v):
    return ("const", v)


def to_src(t) -> str:
    k = t[0]
    if k == "const":
        return repr(t[1])
    if k == "name":
        return t[1]
    if k == "un":
        return f"({UNOPS[t[1]][1]}{to_src(t[2])})"
    if k == "bin":
        return f"({to_src(t[2])} {BINOPS[t[1]]} {to_src(t[3])})"
    if k == "bool":
        return "(" + (" and " if t[1] else " or ").join(to_src(e) for e in t[2]) + ")"
    if k == "cmp":
        return "(" + to_src(t[1]) + "".join(f" {CMPOPS[o]} {to_src(e)}" for o, e in t[2]) + ")"
    if k == "if":
        return f"({to_src(t[2])} if {to_src(t[1])} else {to_src(t[3])})"
    if k == "tuple":
        es = t[1]
        return "()" if not es else "(" + ", ".join(to_src(e) for e in es) + ("," if len(es) == 1 else "") + ")"
    if k == "list":
        return "[" + ", ".join(to_src(e) for e in t[1]) + "]"
    if k == "call":
        args = [to_src(e) for e in t[2]] + [f"{n}={to_src(e)}" for n, e in t[3]]
        return f"{t[1]}({', '.join(args)})"
    if k == "meth":
        args = [to_src(e) for e in t[3]] + [f"{n}={to_src(e)}" for n, e in t[4]]
        return f"({t[1]!r}).{t[2]}({', '.join(args)})"
    raise ValueError(t)


_UN_AST = {v[2]: k for k, v in UNOPS.items()}


def of_ast(n) -> tuple:
    """Reads a parsed expression back into a term (round-trip guard for to_src)."""
    if isinstance(n, ast.Constant):
        return ("const", n.value)
    if isinstance(n, ast.Name):
        return ("name", n.id)
    if isinstance(n, ast.UnaryOp):
        return ("un", _UN_AST[type(n.op)], of_ast(n.operand))
    if isinstance(n, ast.BinOp):
        return ("bin", type(n.op).__name__, of_ast(n.left), of_ast(n.right))
    if isinstance(n, ast.BoolOp):
        return ("bool", isinstance(n.op, ast.And), [of_ast(v) for v in n.values])
    if isinstance(n, ast.Compare):
        return ("cmp", of_ast(n.left), [(type(o).__name__, of_ast(c)) for o, c in zip(n.ops, n.comparators)])
    if isinstance(n, ast.IfExp):
        return ("if", of_ast(n.test), of_ast(n.body), of_ast(n.orelse))
    if isinstance(n, ast.Tuple):
        return ("tuple", [of_ast(e) for e in n.elts])
    if isinstance(n, ast.List):
        return ("list", [of_ast(e) for e in n.elts])
    if isinstance(n, ast.Call) and isinstance(n.func, ast.Name):
        return ("call", n.func.id, [of_ast(a) for a in n.args], [(k.arg, of_ast(k.value)) for k in n.keywords])
    if isinstance(n, ast.Call) and isinstance(n.func, ast.Attribute) and isinstance(n.func.value, ast.Constant):
        return ("meth", n.func.value.value, n.func.attr, [of_ast(a) for a in n.args],
                [(k.arg, of_ast(k.value)) for k in n.keywords])
    raise ValueError(ast.dump(n))


def same_term(a, b) -> bool:
    """Equality that distinguishes True from 1."""
    if type(a) is not type(b):
        return False
    if isinstance(a, (tuple, list)):
        return len(a) == len(b) and all(same_term(x, y) for x, y in zip(a, b))
    return a == b


def roundtrips(t) -> bool:
    try:
        return same_term(of_ast(ast.parse(to_src(t), mode="eval").body), t)
    except (SyntaxError, ValueError, KeyError):
        return False


# ---- Gallina ---------------------------------------------------------------------------------
MAX_INT_BITS = 20000


def in_domain(v) -> bool:
    t = type(v)
    if v is None or t is bool or t is str:
        return True
    if t is int:
        return v.bit_length() <= MAX_INT_BITS
    if t is tuple or t is list:
        return all(in_domain(x) for x in v)
    return False


def gval(v) -> str:
    t = type(v)
    if v is None:
        return "VNone"
    if t is bool:
        return f"(VBool {gbool(v)})"
    if t is int:
        return f"(VInt {gz(v)})"
    if t is str:
        return f"(VStr {glist([ord(c) for c in v], gz)})"
    if t is tuple:
        return f"(VTuple {glist(v, gval)})"
    if t is list:
        return f"(VList {glist(v, gval)})"
    raise ValueError(v)


def gstr(s: str) -> str:
    assert all(32 <= ord(c) < 127 and c != '"' for c in s), s
    return f'"{s}"%string'


def gexpr(t) -> str:
    k = t[0]
    if k == "const":
        return f"(EConst {gval(t[1])})"
    if k == "name":
        return f"(EName {gstr(t[1])})"
    if k == "un":
        return f"(EUn {UNOPS[t[1]][0]} {gexpr(t[2])})"
    if k == "bin":
        return f"(EBin B{t[1]} {gexpr(t[2])} {gexpr(t[3])})"
    if k == "bool":
        return f"(EBool {gbool(t[1])} {glist(t[2], gexpr)})"
    if k == "cmp":
        return f"(ECmp {gexpr(t[1])} {glist(t[2], lambda p: f'(C{p[0]}, {gexpr(p[1])})')})"
    if k == "if":
        return f"(EIf {gexpr(t[1])} {gexpr(t[2])} {gexpr(t[3])})"
    if k == "tuple":
        return f"(ETuple {glist(t[1], gexpr)})"
    if k == "list":
        return f"(EList {glist(t[1], gexpr)})"
    kw = lambda p: f"({gstr(p[0])}, {gexpr(p[1])})"  # noqa
    if k == "call":
        return f"(ECall {gstr(t[1])} {glist(t[2], gexpr)} {glist(t[3], kw)})"
    if k == "meth":
        return f"(EMeth {gval(t[1])} {gstr(t[2])} {glist(t[3], gexpr)} {glist(t[4], kw)})"
    raise ValueError(t)


EXN = {"ZeroDivisionError": "KZeroDiv", "TypeError": "KType", "ValueError": "KValue", "OverflowError": "KOverflow",
       "AttributeError": "KAttr", "NameError": "KName", "IndexError": "KIndex", "SystemExit": "KSystemExit"}


def glv(o) -> str:
    """observed outcome of core.literal_value -> lvres"""
    if o[0] == "known":
        return f"(LKnown {gval(o[1])})"
    if o[0] == "other":          # a value outside the modelled domain (float, set, range ...)
        return "LGap"
    if o[0] == "unknown":
        return "LUnknown"
    return f"(LCrash {EXN.get(o[1], 'KOther')})"


def gres(o) -> str:
    """observed outcome of CPython eval -> res val"""
    if o[0] == "known":
        return f"(Val {gval(o[1])})"
    if o[0] == "other":
        return "Gap"
    return f"(Exc {EXN.get(o[1], 'KOther')})"


# ---- generators ------------------------------------------------------------------------------
NEG1 = ("un", "neg", C(1))
ATOMS = [C(None), C(True), C(False), NEG1, C(0), C(1), C(2), C(""), C("a"), ("tuple", []), ("tuple", [C(0)]),
         ("list", []), ("list", [C(1)])]
SMALL = [C(None), C(True), C(0), C(1), C("a"), ("tuple", [C(0)]), ("list", [C(1)])]
CHAIN_OPS = ["Eq", "Lt", "GtE", "Is", "In", "NotIn"]

MODELLED = ["len", "abs", "bool", "int", "str", "tuple", "list", "sorted", "min", "max", "sum", "all", "any"]
PURE_UNMODELLED = ["repr", "range", "hex", "divmod", "set", "ord"]
IMPURE = ["print", "input", "exit", "id", "hash", "open", "__import__", "eval", "vars"]
IMPURE_ARGS = [C(""), C("a"), C(None)]       # never hand an int (a file descriptor) to open()
RECVS = ["", "a", "A b", 1, None, True]
METHODS = ["upper", "lower", "join", "startswith", "endswith", "strip", "format", "nosuchmethod", "bit_length",
           "__len__", "__hash__", "__add__"]


def level1_ops(pool, pool3=None, chain_pool=None, full=True):
    """every expression with exactly one operator / display / call over the operand pool"""
    pool3 = pool if pool3 is None else pool3
    chain_pool = pool if chain_pool is None else chain_pool
    for o in UNOPS:
        for a in pool:
            yield ("un", o, a)
    for o in BINOPS:
        for a, b in itertools.product(pool, pool):
            yield ("bin", o, a, b)
    for isand in (True, False):
        for a, b in itertools.product(pool, pool):
            yield ("bool", isand, [a, b])
        for a, b, c in itertools.product(pool3, repeat=3):
            yield ("bool", isand, [a, b, c])
    for o in CMPOPS:
        for a, b in itertools.product(pool, pool):
            yield ("cmp", a, [(o, b)])
    for o1, o2 in itertools.product(CHAIN_OPS, CHAIN_OPS):
        for a, b, c in itertools.product(chain_pool, repeat=3):
            yield ("cmp", a, [(o1, b), (o2, c)])
    for c in pool:
        for a, b in itertools.product(pool3, pool3):
            yield ("if", c, a, b)
    for kind in ("tuple", "list"):
        for a in pool:
            yield (kind, [a])
        for a, b in itertools.product(pool3, pool3):
            yield (kind, [a, b])


def call_cases(pool):
    for f in MODELLED + PURE_UNMODELLED:
        yield ("call", f, [], [])
        for a in pool:
            yield ("call", f, [a], [])
    for f in IMPURE:
        yield ("call", f, [], [])
        for a in IMPURE_ARGS:
            yield ("call", f, [a], [])
    for f in ["min", "max", "sum", "int", "str", "sorted", "divmod", "tuple"]:
        for a, b in itertools.product(pool, pool):
            yield ("call", f, [a, b], [])
    # keyword arguments (F15-2)
    for a in pool:
        for flag in (C(True), C(False), C(0), C(1)):
            yield ("call", "sorted", [a], [("reverse", flag)])
        yield ("call", "int", [a], [("base", C(2))])
        yield ("call", "max", [a], [("default", C(2))])
        yield ("call", "min", [a], [("default", C(0))])
        yield ("call", "sum", [a], [("start", C(2))])
        yield ("call", "str", [], [("object", a)])
        yield ("call", "len", [], [("obj", a)])
        yield ("call", "print", [a], [("end", C(""))]) if a in IMPURE_ARGS else ("call", "bool", [], [("x", a)])
    for s in ["10", "1_0", " 7 ", "-3", "+4", "1__0", "_1", "1_", "", "a1", "- 1", "007", "1 2"]:
        yield ("call", "int", [C(s)], [])
        yield ("call", "int", [C(s)], [("base", C(2))])
    for lst in [[2, 1, 3], [True, 1, 0], ["b", "a"], [1, "a"], [(1, None), (1, None)], [(2, 0), (1, "a"), (1, 0)],
                [[2], [1, 5], []], [1, None, 2]]:
        e = ("list", [lit(x) for x in lst])
        for f in ("sorted", "min", "max", "sum", "list", "tuple", "str", "len", "all", "any"):
            yield ("call", f, [e], [])
        yield ("call", "sorted", [e], [("reverse", C(True))])


def lit(v):
    """a display term for a Python literal value"""
    if type(v) is tuple:
        return ("tuple", [lit(x) for x in v])
    if type(v) is list:
        return ("list", [lit(x) for x in v])
    if type(v) is int and v < 0:
        return ("un", "neg", C(-v))
    return C(v)


def method_cases(pool):
    for r in RECVS:
        for m in METHODS:
            yield ("meth", r, m, [], [])
            for a in pool:
                yield ("meth", r, m, [a], [])
    for r in ["a", "-"]:
        for parts in [["x", "y"], ["x"], [], ["x", 1], [1]]:
            yield ("meth", r, "join", [("list", [C(p) for p in parts])], [])
            yield ("meth", r, "join", [("tuple", [C(p) for p in parts])], [])
        yield ("meth", r, "join", [C("xyz")], [])
        yield ("meth", r, "join", [("list", [("meth", "b", "upper", [], [])])], [])   # nested attribute: refused
        yield ("meth", r, "join", [("list", [("meth", "b", "join", [("list", [])], [])])], [])
        yield ("meth", r, "upper", [], [("x", C(1))])
        yield ("meth", r, "startswith", [C("a")], [("start", C(0))])
        yield ("meth", r, "format", [("call", "len", [C("ab")], [])], [])


# operands of the level-2 enumeration: atoms + one representative of every behaviour class of level 1
L1_REPS = [
    ("name", "x"),                                    # unknown: a variable
    ("un", "not", C(0)), ("un", "not", C("a")),       # known bools from `not`
    ("un", "neg", C(True)), ("un", "inv", C(1)),      # literal_eval refuses: unknown although Python has a value
    ("un", "neg", NEG1),
    ("bin", "Add", C(1), C(2)), ("bin", "Add", C("a"), C("a")), ("bin", "Mult", ("list", [C(1)]), C(2)),
    ("bin", "Div", C(1), C(0)), ("bin", "Add", C(1), C("a")),        # raise
    ("bin", "Div", C(1), C(2)),                                        # float: outside the value domain
    ("bin", "Pow", C(2), C(2)), ("bin", "Mod", C(2), NEG1), ("bin", "FloorDiv", NEG1, C(2)),
    ("bool", True, [C(1), C("")]), ("bool", False, [C(0), ("list", [])]), ("bool", False, [C(0), ("name", "x")]),
    ("bool", True, [C(0), ("name", "x")]),
    ("cmp", C(1), [("Lt", C(2))]), ("cmp", C(1), [("Lt", C("a"))]), ("cmp", C(0), [("Lt", C(1)), ("Lt", C(1))]),
    ("cmp", C(1), [("In", ("list", [C(1)]))]), ("cmp", C(None), [("Is", C(None))]),
    ("if", C(1), C(1), C(2)),                         # conditional expression: always unknown
    ("tuple", [("un", "not", C(0))]), ("list", [NEG1, C(2)]), ("tuple", [C(1), C("a")]),
    ("call", "len", [C("a")], []), ("call", "sorted", [("list", [C(2), C(1)])], []),
    ("call", "sorted", [("list", [C(2), C(1)])], [("reverse", C(True))]),
    ("call", "print", [C("x")], []),                 # effect
    ("call", "str", [C(1)], []), ("call", "int", [C("2")], []), ("call", "max", [C(1), C(2)], []),
    ("call", "range", [C(2)], []),
    ("meth", "a", "upper", [], []), ("meth", "", "join", [("list", [C("a"), C("b")])], []),
    ("meth", "a", "nosuchmethod", [], []),
]


def level2_cases():
    ops2 = ATOMS + L1_REPS
    small = SMALL + [("name", "x"), ("bin", "Div", C(1), C(0)), ("call", "print", [C("x")], []),
                     ("if", C(1), C(1), C(2)), ("un", "not", C(0))]
    seen_atoms = {to_src(a) for a in ATOMS}
    for t in level1_ops(ops2, pool3=small, chain_pool=small[:8]):
        # at least one operand must be non-atomic (the rest is level 1)
        if all(to_src(x) in seen_atoms for x in operands(t)):
            continue
        yield t
    for f in MODELLED + ["print", "repr"]:
        for a in L1_REPS:
            yield ("call", f, [a], [])
    for a in L1_REPS:
        yield ("meth", "", "join", [("list", [a])], [])
        yield ("meth", "a", "startswith", [a], [])


def operands(t):
    k = t[0]
    if k == "un":
        return [t[2]]
    if k == "bin":
        return [t[2], t[3]]
    if k == "bool":
        return t[2]
    if k == "cmp":
        return [t[1]] + [e for _, e in t[2]]
    if k == "if":
        return [t[1], t[2], t[3]]
    if k in ("tuple", "list"):
        return t[1]
    if k == "call":
        return t[2] + [e for _, e in t[3]]
    if k == "meth":
        return t[3] + [e for _, e in t[4]]
    return []


def depth(t) -> int:
    ops = operands(t)
    if t[0] in ("const", "name"):
        return 0
    return 1 + max([depth(o) for o in ops], default=0)


GROWING = ("Pow", "LShift")


def rand_expr(rnd, d: int):
    """random expression of depth <= d; ** and << only over atoms so that values stay small"""
    if d <= 0 or rnd.random() < 0.12:
        r = rnd.random()
        if r < 0.05:
            return ("name", rnd.choice(["x", "y"]))
        return rnd.choice(ATOMS)
    r = rnd.random()
    sub = lambda: rand_expr(rnd, d - 1)  # noqa
    if r < 0.08:
        return ("un", rnd.choice(list(UNOPS)), sub())
    if r < 0.36:
        o = rnd.choice(list(BINOPS))
        if o in GROWING:
            return ("bin", o, rnd.choice(ATOMS), rnd.choice(ATOMS))
        return ("bin", o, sub(), sub())
    if r < 0.52:
        return ("bool", rnd.random() < 0.5, [sub() for _ in range(rnd.choice([2, 2, 3, 4]))])
    if r < 0.72:
        n = rnd.choice([1, 1, 2, 3])
        return ("cmp", sub(), [(rnd.choice(list(CMPOPS)), sub()) for _ in range(n)])
    if r < 0.77:
        return ("if", sub(), sub(), sub())
    if r < 0.85:
        return (rnd.choice(["tuple", "list"]), [sub() for _ in range(rnd.choice([0, 1, 2, 3]))])
    if r < 0.96:
        f = rnd.choice(MODELLED + MODELLED + PURE_UNMODELLED + ["print"])
        args = [sub() for _ in range(rnd.choice([0, 1, 1, 1, 2]))]
        if f == "print":
            args = [rnd.choice(IMPURE_ARGS)]
        kws = []
        if rnd.random() < 0.1:
            kws = [(rnd.choice(["reverse", "default", "start", "base", "key"]), sub())]
        return ("call", f, args, kws)
    return ("meth", rnd.choice(RECVS), rnd.choice(METHODS), [sub() for _ in range(rnd.choice([0, 1, 1]))], [])


# ---- validation of the primitive operations of the reference semantics on richer values --------
RICH_VALUES = [None, True, False, -8, -3, -1, 0, 1, 2, 3, 7, 255, "", "a", "b", "ab", "ba", "A", "aa", " 1 ", "1_0",
               (), (0,), (1,), (0, 1), (1, 0), (0, "a"), ((),), (None,), (1, None), (True, 0),
               [], [0], [1], [0, 1], [1, "a"], [[1]], [(0,)], [None], ["a", "b"], ["b", "a"], [2, 1, 3], [True, 1, 0]]


def prim_cases():
    """every binary / comparison operator on every ordered pair of RICH_VALUES, the modelled builtins with one
    and two arguments, the modelled methods"""
    vals = [lit(v) for v in RICH_VALUES]
    for o in BINOPS:
        for a, b in itertools.product(vals, vals):
            yield ("bin", o, a, b)
    for o in CMPOPS:
        for a, b in itertools.product(vals, vals):
            yield ("cmp", a, [(o, b)])
    for o in ("not", "neg", "pos", "inv"):
        for a in vals:
            yield ("un", o, ("bool", False, [a, a]))        # through `or` so that literal_eval does not see it
    for f in MODELLED:
        for a in vals:
            yield ("call", f, [a], [])
    for f in ("min", "max", "sum"):
        for a, b in itertools.product(vals, vals):
            yield ("call", f, [a, b], [])
    for a in vals:
        yield ("call", "sorted", [a], [("reverse", C(True))])
        for r in ("", "a", "-", "ab"):
            for m in ("join", "startswith", "endswith"):
                yield ("meth", r, m, [a], [])
    for r in ("", "a", "A b", "aB1", "z{", "@[`"):
        yield ("meth", r, "upper", [], [])
        yield ("meth", r, "lower", [], [])
