"""Mutation self-test for C18: applies one-token mutants of the anchored code to the worktree $VERIF_REPO (must be a
scratch git worktree), runs ./check C18 on each and restores the file with git checkout.  Not part of the check."""
import subprocess, sys, os, json, re
REPO = os.environ["VERIF_REPO"]   # a scratch git worktree of pyrefact, never /repo itself
VERIF = os.path.dirname(os.path.dirname(os.path.abspath(__file__)))
MUTANTS = [
 ("M1-ignore-__all__", "pyrefact/tracing.py", "            if name not in all_filter:\n                return None\n", "            if name not in all_filter:\n                pass\n"),
 ("M2-first-binding-wins", "pyrefact/tracing.py", "    for node in sorted(nodes, key=lambda n: (n.lineno, n.col_offset), reverse=True):", "    for node in sorted(nodes, key=lambda n: (n.lineno, n.col_offset)):"),
 ("M3-drop-alias-in-redirect", "pyrefact/tracing.py", "                        new_alias = ast.alias(name=original_name, asname=referenced_name)\n\n                    module_from_imports", "                        new_alias = ast.alias(name=original_name, asname=None)\n\n                    module_from_imports"),
 ("M4-used-import-unused", "pyrefact/fixes.py", "    names = {node.id for node in core.walk(ast_tree, ast.Name(ctx=ast.Load))}\n    for node in core.walk(ast_tree, ast.Attribute):", "    names = {node.id for node in core.walk(ast_tree, ast.Name(ctx=ast.Store))}\n    for node in core.walk(ast_tree, ast.Attribute):"),
 ("M5-sort-key-stdlib-flipped", "pyrefact/fixes.py", "        not _is_stdlib(node),\n", "        _is_stdlib(node),\n"),
 ("M6-star-removal-flipped", "pyrefact/tracing.py", "        if not core.match_template(node, tuple(starred_import_name_mapping)):\n            yield node, None", "        if core.match_template(node, tuple(starred_import_name_mapping)):\n            yield node, None"),
 ("M7-star-merged-into-from", "pyrefact/fixes.py", "            if any(alias.name == \"*\" for alias in node.names):\n                continue  # A star import cannot be combined with other names\n", ""),
 ("M8-duplicate-by-name-only", "pyrefact/fixes.py", "                    if current.get(name) == key:\n                        continue\n", "                    if name in current:\n                        continue\n"),
 ("M9-tuple-__all__-unknown", "pyrefact/tracing.py", "                ast.List(elts={ast.Constant(value=str)}),\n                ast.Tuple(elts={ast.Constant(value=str)}),\n        ),)\n        all_extend_template", "                ast.List(elts={ast.Constant(value=str)}),\n        ),)\n        all_extend_template"),
 ("M10-private-names-exported", "pyrefact/tracing.py", "                if name.startswith(\"_\") and not any(", "                if False and not any("),
 ("M11-redirect-through-__init__", "pyrefact/tracing.py", "        if origin.name == \"__init__.py\":\n            continue\n", ""),
 ("M12-keep-unused-alias", "pyrefact/fixes.py", "            if (alias.name if alias.asname is None else alias.asname) not in unused_imports\n", "            if (alias.name if alias.asname is None else alias.asname) in unused_imports\n"),
 ("M13-undefined-names-only", "pyrefact/tracing.py", "    for name in _get_referenced_names(root):\n        if trace_result := trace_origin(name, source):", "    for name in get_undefined_variables(source):\n        if trace_result := trace_origin(name, source):"),
 ("M14-dotted-import-unused", "pyrefact/fixes.py", "    names.update(name for name in imports if name.split(\".\")[0] in names)\n", ""),
 ("M16-first-alias-of-statement", "pyrefact/tracing.py", "                            for alias in reversed(module_import_node.names)  # the last binding wins\n", "                            for alias in module_import_node.names\n"),
 ("M15-merge-ignores-asname", "pyrefact/fixes.py", "                (alias.name, alias.asname if alias.asname != alias.name else None)\n                for alias in node.names\n            )\n            module_import_nodes", "                (alias.name, None)\n                for alias in node.names\n            )\n            module_import_nodes"),
]
only = sys.argv[1:]
res = {}
for name, path, old, new in MUTANTS:
    if only and not any(o in name for o in only): continue
    p = os.path.join(REPO, path)
    s = open(p).read()
    if s.count(old) != 1:
        print(name, "PATTERN-NOT-UNIQUE", s.count(old)); continue
    open(p, "w").write(s.replace(old, new))
    try:
        r = subprocess.run(["./check", "C18", "--tier", "quick"], cwd=VERIF, capture_output=True, text=True,
                           env=dict(os.environ, VERIF_REPO=REPO), timeout=900)
        viol = [l for l in r.stdout.splitlines() if l.startswith("VIOLATION")]
        kinds = []
        for v in viol:
            m = re.search(r"replay=(\S+)", v)
            try:
                d = json.load(open(os.path.join(VERIF, m.group(1))))
                kinds.append(d.get("kind") + (":" + str(d.get("rule")) if d.get("rule") else "") + ("" if d.get("failing_input_found") else ":no-input"))
            except Exception as e:
                kinds.append("?")
        print(name, "rc=%d" % r.returncode, "violations=%d" % len(viol), kinds, flush=True)
    finally:
        subprocess.run(["git", "-C", REPO, "checkout", "--", "."])
