"""C02, tranche idx, second part (coq/theories/RulesIdxInlModel.v + RulesIdxInlProofs.v): fixes.inline_math_comprehensions
over the store semantics of the perf tranche (printer / reader / CPython runner of harness/c02_perf.py are reused).

Programs: simple statements of the perf fragment + 'v<z> = sum(e)' / 'v<z> = len(e)', with exactly ONE assignment the rule
looks at (a comprehension or a call of list / tuple / iter / sorted on the right).  Called from c02_idx.check."""
from __future__ import annotations

import ast
import itertools
import time
from collections import Counter

from . import common
from . import c02_perf as P
from .c02_perf import Unsupported

SITE = "fixes.inline_math_comprehensions"
Y, Z, VA, VB, VW = 8, 9, 10, 11, 12


def small(e) -> bool:
    k = e[0]
    if k in ("atom", "disp", "tup", "gen"):
        return True
    if k == "call":
        return small(e[2])
    if k == "sorted":
        return small(e[2])
    if k in ("comp", "genx"):
        return small(e[1])
    return False


def is_cand(st) -> bool:
    return st[0] == "s" and st[1][0] == "assign" and st[1][2][0] in ("comp", "genx", "call", "sorted")


def exprs_of(st):
    if st[0] == "math":
        return [st[3]]
    s = st[1]
    return [s[2]] if s[0] == "assign" else ([s[1]] if s[0] in ("print", "expr") else [])


def p_stmt(st) -> str:
    if st[0] == "math":
        return f"{P.name_txt(st[1])} = {'len' if st[2] else 'sum'}({P.p_expr(st[3], True) if st[3][0] != 'genx' else P.p_expr(st[3])})"
    return P.p_simple(st[1])


def p_prog(p) -> str:
    return "\n".join(p_stmt(st) for st in p) + "\n"


def stmt_of(n):
    if isinstance(n, ast.Assign) and len(n.targets) == 1 and isinstance(n.targets[0], ast.Name) \
            and isinstance(n.value, ast.Call) and isinstance(n.value.func, ast.Name) and n.value.func.id in ("sum", "len") \
            and len(n.value.args) == 1 and not n.value.keywords:
        return ("math", P.name_of(n.targets[0].id), n.value.func.id == "len", P.e_of(n.value.args[0]))
    return ("s", P.simple_of(n))


def parse_prog(src: str):
    p = [stmt_of(n) for n in ast.parse(src).body]
    for st in p:
        if not all(small(e) for e in exprs_of(st)):
            raise Unsupported("expression outside the fragment of this part")
        if st[0] == "s" and st[1][0] == "assign" and st[1][1] < 8:
            raise Unsupported("a builtin is rebound")
    return p


def g_stmt(st) -> str:
    if st[0] == "math":
        return f"IMath {st[1]}%nat {common.gbool(st[2])} ({P.g_expr(st[3])})"
    return f"IS {P.g_simple(st[1])}"


def g_prog(p) -> str:
    return "[" + "; ".join(g_stmt(st) for st in p) + "]"


HEADER = ("From Coq Require Import List ZArith Bool.\nFrom Pyrefact Require Import Base RulesPerfModel RulesIdxInlModel.\n"
          "Import ListNotations.\nOpen Scope Z_scope.\n")

# ------------------------------------------------------------------------------------------------ families
EA, A, V = P.EA, P.A, P.V


def S(*s):
    return ("s", tuple(s))


SRC = EA(V(VA))
PRES = [
    [],
    [S("assign", VA, ("disp", [3, 1, 2]))],
    [S("assign", VA, ("tup", [3, -1, 2]))],
    [S("assign", VA, ("gen", 0))],
    [S("assign", VA, EA(A(5)))],
    [S("assign", VA, ("disp", [3, 1, 2])), S("assign", VB, SRC)],
]
VALUES = [("call", "list", SRC), ("call", "tuple", SRC), ("call", "iter", SRC), ("sorted", False, SRC), ("sorted", True, SRC),
          ("comp", SRC), ("genx", SRC), ("call", "list", ("gen", 0)), ("sorted", False, ("disp", [2, 1])),
          ("call", "list", ("call", "list", SRC)), ("comp", ("call", "tuple", SRC)), ("call", "tuple", ("gen", 1))]
MIDS = [
    [],
    [S("assign", VW, EA(A(3)))],
    [S("print", SRC)],
    [S("assign", VW, ("disp", [4])), S("print", EA(V(VW)))],
    [S("append", VA, A(4))],
    [S("append", VB, A(4))],
    [S("expr", ("gen", 1))],
    [S("print", ("sorted", False, ("disp", [2, 1])))],
    [S("assign", Y, EA(A(3)))],
    [S("remove", VB, A(1)), S("print", EA(A(0)))],
    [S("print", ("call", "tuple", ("tup", [7])))],
]


def mk(pre, value, mid, ln, z=Z, post=None):
    return pre + [S("assign", Y, value)] + mid + [("math", z, ln, EA(V(Y)))] + (post if post is not None else [S("print", EA(V(z)))])


def family():
    for k, (pre, value, mid) in enumerate(itertools.product(PRES, VALUES, MIDS)):
        yield mk(pre, value, mid, bool(k % 2))
    for k, (pre, value) in enumerate(itertools.product(PRES, VALUES)):
        yield mk(pre, value, [], bool(k % 2), z=VA)
        yield mk(pre, value, [], not k % 2, post=[S("print", EA(V(Z))), S("print", EA(V(Y)))])
        yield mk(pre, value, [], bool(k % 2), post=[S("print", EA(V(Z))), S("print", SRC)])
        yield pre + [S("print", EA(A(1))), ("math", Z, bool(k % 2), EA(V(Y))), S("assign", Y, value)]
        yield pre + [S("assign", Y, value), ("math", Z, bool(k % 2), ("call", "list", EA(V(Y)))), S("print", EA(V(Z)))]


def rand_prog(rnd):
    pre = [st for st in rnd.choice(PRES)]
    if rnd.random() < 0.3:
        pre.append(S("assign", VW, rnd.choice([("disp", [rnd.randint(0, 5)]), EA(A(rnd.randint(0, 5))), ("gen", 1)])))
    mid = []
    for _ in range(rnd.randint(0, 3)):
        mid += rnd.choice(MIDS)
    post = [S("print", EA(V(Z)))] + ([rnd.choice(MIDS[rnd.randint(1, len(MIDS) - 1)])] if rnd.random() < 0.3 else [])
    value = rnd.choice(VALUES)
    if rnd.random() < 0.3:
        value = rnd.choice([("call", "list", value), ("comp", value), ("sorted", rnd.random() < 0.5, value)])
    return mk(pre, value, mid, rnd.random() < 0.5, post=post)


# ------------------------------------------------------------------------------------------------ findings
def _value_of(p):
    return next(st[1][2] for st in p if is_cand(st))


def _walk(e):
    yield e
    if e[0] in ("call", "sorted"):
        yield from _walk(e[2])
    elif e[0] in ("comp", "genx"):
        yield from _walk(e[1])


def _iterator_source(p) -> bool:
    """the value reads a variable whose last binding before it is a generator / iterator"""
    last = {}
    for st in p:
        if is_cand(st):
            v = st[1][2]
            return any(e[0] == "atom" and e[1][0] == "var" and last.get(e[1][1]) in ("gen", "genx", "iter") for e in _walk(v))
        if st[0] == "s" and st[1][0] == "assign":
            e = st[1][2]
            last[st[1][1]] = "iter" if (e[0] == "call" and e[1] == "iter") else e[0]
    return False


SIGS = {
    "inlined_value_consumes_iterator": _iterator_source,
}


def match_finding(kf, p):
    for f in kf:
        if f.kind == "finding" and f.fields.get("site") == SITE:
            pred = SIGS.get(f.fields.get("sig", ""))
            if pred is not None and pred(p):
                return f
    return None


def apply_rule(mods, src: str) -> str:
    mods["core"].parse.cache_clear()
    with common.quiet():
        return mods["fixes"].inline_math_comprehensions(src)


def check(run, mods, wd, rnd, kf):
    """-> (stats, disagreements, sem_bad, problems, failures, reproduced)"""
    t0 = time.time()
    quick = run.tier == "quick"
    hist = Counter()
    progs, seen = [], set()

    def add(p, seeded):
        try:
            src = p_prog(p)
            if parse_prog(src) != p or sum(1 for st in p if is_cand(st)) != 1:
                raise Unsupported("round trip / one candidate")
        except (Unsupported, SyntaxError):
            hist["inl:unprintable"] += 1
            return
        if src not in seen:
            seen.add(src)
            progs.append((p, src, seeded))

    for p in family():
        add([tuple(st) if st[0] == "math" else ("s", tuple(st[1])) for st in p], False)
    n_exh = len(progs)
    for _ in range(150 if quick else 3000):
        add(rand_prog(rnd), True)

    cases, problems, fired = [], [], {}
    for p, src, seeded in progs:
        try:
            out = apply_rule(mods, src)
        except Exception as ex:  # noqa
            problems.append({"kind": "rule-raised", "rule": SITE, "source": src, "problem": f"{type(ex).__name__}: {ex}"})
            continue
        try:
            q = parse_prog(out)
        except (Unsupported, SyntaxError) as ex:
            problems.append({"kind": "rule-output-outside-fragment", "rule": SITE, "source": src, "impl_output": out, "problem": str(ex)})
            continue
        cases.append((p, q, src, out))
        hist[f"{SITE}:{'fired' if q != p else 'silent'}"] += 1
        if q != p:
            fired[src] = (p, q, out)

    files, meta = [], []
    for k in range(0, len(cases), 400):
        shard = cases[k:k + 400]
        f = wd / f"inl_rule_{k // 400}.v"
        f.write_text(HEADER + "Definition cases : list (iprog * iprog) := [\n " +
                     ";\n ".join(f"({g_prog(c[0])}, {g_prog(c[1])})" for c in shard) +
                     "\n].\nEval vm_compute in (bad_idx inl_case_ok cases).\n")
        files.append(f)
        meta.append(("rule", shard))
    sem, sem_seen = [], set()
    for p, q, src, out in cases:
        for pp, s in ((p, src), (q, out)):
            if s in sem_seen:
                continue
            sem_seen.add(s)
            res, log = P.run_py(s)
            if res == "diverges" or (res is not None and res not in P.EXC_CODE):
                hist["inl-sem:other " + str(res)] += 1
                continue
            hist["inl-sem:" + str(res)] += 1
            try:
                sem.append((pp, s, P.EXC_CODE.get(res, 0), "[" + "; ".join(P.g_event(e) for e in log) + "]", res))
            except Unsupported:
                hist["inl-sem:unsupported-value"] += 1
    gworld = "[" + "; ".join(P.gzs(w) for w in P.WORLD) + "]"
    for k in range(0, len(sem), 400):
        shard = sem[k:k + 400]
        f = wd / f"inl_sem_{k // 400}.v"
        f.write_text(HEADER + "Definition cases : list (iprog * list (list Z) * nat * list event) := [\n " +
                     ";\n ".join(f"({g_prog(c[0])}, {gworld}, {c[2]}%nat, {c[3]})" for c in shard) +
                     "\n].\nEval vm_compute in (map isem_status cases).\n")
        files.append(f)
        meta.append(("sem", shard))

    results = common.run_case_files(files)
    disagreements, sem_bad, sem_gap = [], [], 0
    for f, (kind, shard) in zip(files, meta):
        rc, out = results[f]
        idx = common.parse_nat_list(out) if rc == 0 else None
        if idx is None:
            disagreements.append({"kind": "eval-failed", "file": f.name, "log": out[-1200:]})
            continue
        if kind == "rule":
            for i in idx:
                disagreements.append({"kind": "rule-model", "rule": SITE, "source": shard[i][2], "impl_output": shard[i][3]})
        else:
            for i, st in enumerate(idx):
                if st == 1:
                    sem_bad.append({"kind": "semantics", "source": shard[i][1], "cpython": str(shard[i][4]) + " " + shard[i][3][:300]})
                elif st == 2:
                    sem_gap += 1

    failures, reproduced = [], {}
    for src, (p, q, out) in fired.items():
        before, after = P.observation(src), P.observation(out)
        if before == after:
            continue
        case = {"rule": SITE, "source": src, "output": out, "before": before, "after": after}
        m = match_finding(kf, p)
        if m is None:
            failures.append(case)
        else:
            reproduced.setdefault(m.id, (m, []))[1].append(case)
    stats = {"inl_programs": len(progs), "inl_exhaustive": n_exh, "inl_rule_cases": len(cases), "inl_fired": len(fired),
             "inl_semantic_cases": len(sem), "inl_semantic_gaps": sem_gap, "inl_seconds": round(time.time() - t0, 1),
             "inl_samples": list(fired)[:: max(1, len(fired) // 3)][:3]}
    return stats, dict(hist), disagreements, sem_bad, problems, failures, reproduced
