"""Run-time harvest of the repository's example rule inputs (DESIGN 5.1), shared by C05 and C06.

Every non-pytest script tests/unit/test_*.py exposes main(); it is run with every public rule
function of the pyrefact modules (first parameter named `source`) wrapped to record its arguments.
Nothing is copied into /verif: the corpus is whatever $VERIF_REPO contains now."""
from __future__ import annotations

import contextlib
import importlib
import importlib.util
import inspect
import io
import sys

from . import common

RULE_MODULES = ("fixes", "performance", "performance_numpy", "performance_pandas", "object_oriented",
                "symbolic_math", "abstractions", "style", "formatting", "tracing")


def rule_functions(mods) -> dict[str, tuple]:
    """{qualified name: (module, attr, function)} of every module-level callable whose first parameter
    is `source` (the rule functions and the text stages)."""
    res = {}
    for mname in RULE_MODULES:
        mod = mods.get(mname) or importlib.import_module(f"pyrefact.{mname}")
        for attr, fn in sorted(vars(mod).items()):
            if attr.startswith("_") or not callable(fn) or inspect.isclass(fn):
                continue
            if getattr(fn, "__module__", None) != mod.__name__:
                continue
            try:
                params = list(inspect.signature(fn).parameters)
            except (TypeError, ValueError):
                continue
            if params and params[0] == "source":
                res[f"{mname}.{attr}"] = (mod, attr, fn)
    return res


def harvest(mods) -> tuple[list[tuple[str, str, tuple, dict]], dict]:
    """Returns ([(rule qualified name, source, extra args, kwargs)...] de-duplicated in first-seen order,
    stats)."""
    rules = rule_functions(mods)
    records: list[tuple[str, str, tuple, dict]] = []
    seen = set()
    originals = {}

    def wrap(qname, fn):
        def wrapper(source, *args, **kwargs):
            if isinstance(source, str):
                try:
                    key = (qname, source, repr(args), repr(sorted(kwargs.items())))
                except Exception:  # noqa
                    key = None
                if key is not None and key not in seen:
                    seen.add(key)
                    records.append((qname, source, args, kwargs))
            return fn(source, *args, **kwargs)
        wrapper.__wrapped__ = fn
        wrapper.__name__ = getattr(fn, "__name__", "rule")
        for a in ("_fix_func",):
            if hasattr(fn, a):
                setattr(wrapper, a, getattr(fn, a))
        return wrapper

    # a function may be visible under several module namespaces (from x import y): patch them all
    all_mods = [m for n, m in sys.modules.items() if n.startswith("pyrefact.") and m is not None]
    for qname, (mod, attr, fn) in rules.items():
        w = wrap(qname, fn)
        for m in all_mods:
            if vars(m).get(attr) is fn:
                originals[(m, attr)] = fn
                setattr(m, attr, w)

    tests = common.REPO / "tests"
    added = [str(tests), str(tests / "unit")]
    sys.path[:0] = added
    stats = {"scripts": 0, "script_errors": [], "script_failures": []}
    try:
        for path in sorted((tests / "unit").glob("test_*.py")):
            name = "c05_harvest_" + path.stem.replace("-", "_")
            try:
                spec = importlib.util.spec_from_file_location(name, path)
                mod = importlib.util.module_from_spec(spec)
                with contextlib.redirect_stdout(io.StringIO()), contextlib.redirect_stderr(io.StringIO()):
                    spec.loader.exec_module(mod)
                    if hasattr(mod, "main"):
                        rc = mod.main()
                        stats["scripts"] += 1
                        if rc:
                            stats["script_failures"].append(path.name)
            except BaseException as e:  # noqa  (a test script may call sys.exit)
                stats["script_errors"].append(f"{path.name}: {type(e).__name__}: {e}"[:200])
    finally:
        for (m, attr), fn in originals.items():
            setattr(m, attr, fn)
        for p in added:
            if p in sys.path:
                sys.path.remove(p)
        for n in [n for n in sys.modules if n == "testing_infra" or n.startswith("c05_harvest_")]:
            del sys.modules[n]
    stats["records"] = len(records)
    stats["rules"] = len({r[0] for r in records})
    return records, stats


def call_rule(mods, qname: str, source: str, args=(), kwargs=None):
    mname, attr = qname.split(".", 1)
    return getattr(mods[mname], attr)(source, *args, **(kwargs or {}))
