"""Stage tracing of main.format_code: every rule function that main.py reaches through a module attribute
(`fixes.x`, `tracing.x`, ...) is wrapped at run time, so one call of format_code yields the sequence of
top-level stage applications (name, input text, output text).  Used to bisect a whole-pipeline violation to
the first offending stage (DESIGN section 0.2)."""
from __future__ import annotations

import contextlib
import functools
import types

STAGE_MODULES = ("fixes", "tracing", "abstractions", "performance", "performance_numpy", "performance_pandas",
                 "object_oriented", "symbolic_math")


@contextlib.contextmanager
def traced(mods, log: list):
    """Wrap every public callable of the stage modules; record (module.name, in, out) for depth-0 calls whose
    first argument and result are both str."""
    depth = [0]
    saved = []

    def wrap(modname, name, fn):
        @functools.wraps(fn)
        def w(*a, **k):
            top = depth[0] == 0
            depth[0] += 1
            try:
                r = fn(*a, **k)
            finally:
                depth[0] -= 1
            if top and a and isinstance(a[0], str) and isinstance(r, str):
                log.append((f"{modname}.{name}", a[0], r))
            return r
        return w

    for modname in STAGE_MODULES:
        mod = mods[modname]
        for name, fn in list(vars(mod).items()):
            if name.startswith("_") or not callable(fn) or isinstance(fn, type) or isinstance(fn, types.ModuleType):
                continue
            if getattr(fn, "__module__", None) != mod.__name__:
                continue
            saved.append((mod, name, fn))
            setattr(mod, name, wrap(modname, name, fn))
    # processing.minimize_whitespace_line_differences is the last stage (returns a tuple)
    proc = mods["processing"]
    orig_min = proc.minimize_whitespace_line_differences

    def min_w(a, b):
        top = depth[0] == 0
        depth[0] += 1
        try:
            r = orig_min(a, b)
        finally:
            depth[0] -= 1
        if top:
            log.append(("processing.minimize_whitespace_line_differences", b, r[0]))
        return r
    proc.minimize_whitespace_line_differences = min_w
    try:
        yield
    finally:
        proc.minimize_whitespace_line_differences = orig_min
        for mod, name, fn in saved:
            setattr(mod, name, fn)


def trace_format_code(mods, source: str, **opts):
    """Returns (result or exception instance, stage log)."""
    log: list = []
    with traced(mods, log):
        try:
            res = mods["main"].format_code(source, **opts)
        except Exception as e:  # noqa
            res = e
    return res, log
