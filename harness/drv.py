"""K7 driver correspondence (shared by C03, C09, C04): the real pyrefact.main.format_code /
format_file / format_files run over scripted fake stages, compared with DriverModel.v.

Nothing of pyrefact's driver logic is re-implemented here: the fakes only replace the *stage
functions* (module attributes looked up by main.py at call time) by table lookups over a finite
universe of texts and record the calls; the control flow under test is the unchanged code of
$VERIF_REPO/pyrefact/main.py."""
from __future__ import annotations

import ast
import inspect
import itertools
import os
import re
import random
import tempfile
import textwrap as _textwrap
import time
import types
from pathlib import Path

from . import common, tables
from .common import glist, gbool

PYREFACT_MODS = ("fixes", "abstractions", "object_oriented", "performance", "performance_numpy",
                 "performance_pandas", "symbolic_math", "tracing", "processing", "formatting", "core",
                 "parsing")

# fixed-stage codes, must agree with DriverModel.stage_code
CODE = {
    "str.expandtabs": 1, "rmspace.format_str": 2, "fixes.fix_too_many_blank_lines": 3,
    "textwrap.dedent": 4, "fixes.add_missing_imports": 5,
    "fixes.simplify_assign_immediate_return": 10, "fixes.align_variable_names_with_convention": 11,
    "fixes.remove_unused_imports": 12, "fixes.sort_imports": 13, "fixes.fix_line_lengths": 14,
    "processing.minimize_whitespace_line_differences": 15,
}
# functions of format_code that are NOT stages (left real)
NOT_STAGES = {"core.is_valid_python", "core.parse", "core.filter_nodes", "parsing.iter_assignments",
              "formatting.indentation_level", "core.parse_line_length_from_pyproject_toml",
              "processing.chain", "abstractions.overused_constant", "re.findall", "logger.debug"}
SINGLE_KEEP = ("fixes.deinterpolate_logging_args", "fixes.invalid_escape_sequence")
SINGLE_ALL = SINGLE_KEEP + ("tracing.fix_starred_imports", "tracing.fix_reimported_names")

# stages reachable from format_code that edit the text WITHOUT the _apply_rewrites rollback
# (hypotheses of T03_3_format_code_valid_partial; "modelled, not verified")
DIRECT_EDIT_STAGES = {
    "abstractions.simplify_if_control_flow", "abstractions.overused_constant", "fixes.add_missing_imports",
    "fixes.early_continue", "fixes.fix_duplicate_imports", "fixes.fix_too_many_blank_lines",
    "fixes.implicit_dict_keys_values_items", "fixes.missing_context_manager", "fixes.move_before_loop",
    "fixes.remove_duplicate_functions", "fixes.sort_imports", "fixes.swap_if_else",
    "processing.minimize_whitespace_line_differences", "rmspace.format_str", "str.expandtabs",
    "textwrap.dedent", "core.indent",
}


class ShapeError(Exception):
    pass


# ------------------------------------------------------------------------------------------------
# static shape of main.py (fail closed): the call sequence of _multi_run_fixes and the set of
# stage attributes format_code refers to


def _call_name(node) -> str | None:
    if isinstance(node, ast.Call) and isinstance(node.func, ast.Attribute) and isinstance(node.func.value, ast.Name):
        return f"{node.func.value.id}.{node.func.attr}"
    return None


def multi_shape(mods) -> list[tuple[str, bool]]:
    """[(module.attr, passes preserve=preserve)] for every statement of _multi_run_fixes; raises
    ShapeError unless the function is a straight-line sequence `source = m.f(source[, preserve=preserve])`
    followed by `return source`."""
    fn = mods["main"]._multi_run_fixes
    tree = ast.parse(_textwrap.dedent(inspect.getsource(fn)))
    fdef = tree.body[0]
    args = [a.arg for a in fdef.args.args]
    if args != ["source", "preserve"]:
        raise ShapeError(f"_multi_run_fixes arguments changed: {args}")
    body = list(fdef.body)
    if body and isinstance(body[0], ast.Expr) and isinstance(body[0].value, ast.Constant):
        body = body[1:]
    out = []
    for st in body[:-1]:
        ok = (isinstance(st, ast.Assign) and len(st.targets) == 1 and isinstance(st.targets[0], ast.Name)
              and st.targets[0].id == "source" and _call_name(st.value)
              and len(st.value.args) == 1 and isinstance(st.value.args[0], ast.Name) and st.value.args[0].id == "source")
        if not ok:
            raise ShapeError(f"_multi_run_fixes is no longer a straight-line stage sequence: {ast.unparse(st)}")
        kws = st.value.keywords
        pres = False
        if kws:
            if not (len(kws) == 1 and kws[0].arg == "preserve" and isinstance(kws[0].value, ast.Name)
                    and kws[0].value.id == "preserve"):
                raise ShapeError(f"unexpected keyword in _multi_run_fixes: {ast.unparse(st)}")
            pres = True
        out.append((_call_name(st.value), pres))
    last = body[-1]
    if not (isinstance(last, ast.Return) and isinstance(last.value, ast.Name) and last.value.id == "source"):
        raise ShapeError("_multi_run_fixes does not end with `return source`")
    return out


def format_code_stage_attrs(mods) -> list[str]:
    """every `module.attr(...)` call target of format_code on a pyrefact module / rmspace / textwrap"""
    fn = getattr(mods["main"], "_format_code", None)
    if fn is None:
        raise ShapeError("main._format_code (the pipeline behind the format_code wrapper) is gone")
    wrapper = ast.parse(_textwrap.dedent(inspect.getsource(mods["main"].format_code)))
    wbody = ast.Module(body=wrapper.body[0].body, type_ignores=[])
    wcalls = [_n.func.id for _n in ast.walk(wbody) if isinstance(_n, ast.Call) and isinstance(_n.func, ast.Name)]
    wattr = [_call_name(_n) for _n in ast.walk(wbody) if _call_name(_n)]
    if wcalls != ["_format_code", "_format_code"] or any(a.split(".")[0] in PYREFACT_MODS + ("rmspace", "textwrap") for a in wattr):
        raise ShapeError(f"main.format_code is no longer the plain wrapper around _format_code: calls {wcalls} {wattr}")
    tree = ast.parse(_textwrap.dedent(inspect.getsource(fn)))
    names = []
    for node in ast.walk(tree):
        n = _call_name(node)
        if n and n.split(".")[0] in PYREFACT_MODS + ("rmspace", "textwrap") and n not in names:
            names.append(n)
    return names


def rule_kinds(mods, names) -> dict[str, str]:
    """'fix' when the attribute is a processing.fix wrapper (covered by T03.1), else 'direct'"""
    res = {}
    for n in names:
        m, a = n.split(".")
        if m in ("rmspace", "textwrap", "str"):
            res[n] = "direct"
            continue
        obj = getattr(mods[m], a)
        res[n] = "fix" if hasattr(obj, "_fix_func") else "direct"
    return res


# ------------------------------------------------------------------------------------------------
# scripted universe


class TStr(str):
    """A text of the scripted universe.  Only expandtabs/strip (the two str methods format_code
    calls on the source) are scripted; equality/hash are those of str."""
    sid = -1
    env = None

    def expandtabs(self, tabsize=8):
        env = self.env
        env.trace.append(1 if tabsize == 4 else 990)
        return env.state(env.script["tabs"][self.sid])

    def strip(self, chars=None):
        return "" if self.env.script["blank"][self.sid] else "x"

    # the wrapper main.format_code: source[-1], source + "\n", formatted.endswith("\n"), formatted[:-1]
    def __getitem__(self, k):
        sc = self.env.script
        if sc is not None and isinstance(k, int) and k == -1:
            return "\n" if sc["terminated"][self.sid] else "x"
        if sc is not None and isinstance(k, slice) and (k.start, k.stop, k.step) == (None, -1, None):
            self.env.wrapper_ops.append("drop_last")
            return self.env.state(sc["drop_last"][self.sid])
        return str.__getitem__(self, k)

    def __add__(self, other):
        sc = self.env.script
        if sc is not None and isinstance(other, str) and not isinstance(other, TStr) and other == "\n":
            self.env.wrapper_ops.append("add_nl")
            t = sc["add_nl"][self.sid]
            return self.env.state(t, skip=sc["skip"][t])
        return str.__add__(self, other)

    def endswith(self, suffix, *a):
        sc = self.env.script
        if sc is not None and suffix == "\n" and not a:
            return bool(sc["ends_lf"][self.sid])
        return str.endswith(self, suffix, *a)


def state_text(i: int) -> str:
    # a module-level assignment, a function, a class with a method, a nested class and an attribute:
    # every ingredient of the safe-mode preserve set of main.format_code (defs, class_funcs,
    # class_members, assignments)
    return (f"u{i} = 0\ndef f{i}():\n    pass\nclass C{i}:\n    a{i} = 1\n    def m{i}(self):\n        pass\n"
            f"    class N{i}:\n        pass\n")


_NAME_CODES = [(r"u(\d+)", 1), (r"f(\d+)", 2), (r"C(\d+)", 3), (r"C(\d+)\.m\1", 4), (r"m(\d+)", 5),
               (r"N(\d+)", 6), (r"a(\d+)", 7)]


def name_code(name: str) -> int:
    import re
    for pat, k in _NAME_CODES:
        m = re.fullmatch(pat, name)
        if m:
            return 10 * int(m.group(1)) + k
    if name == "zz":
        return 9
    return 99999


def surface_codes(i: int) -> list[int]:
    """module-level names of state i as main.format_code (safe=True) must compute them:
    u_i (assignment), f_i, C_i (defs), C_i.m_i (class_funcs), m_i, N_i, a_i (class_members);
    NOT C_i.N_i (class_funcs holds functions only)"""
    return [10 * i + k for k in (1, 2, 3, 4, 5, 6, 7)]


class Env:
    """Installs the fakes once; `script` is swapped per case."""

    def __init__(self, mods):
        self.mods = mods
        self.main = mods["main"]
        self.multi = multi_shape(mods)
        self.fc_attrs = format_code_stage_attrs(mods)
        self.script = None
        self.trace: list[int] = []
        self.pres_seen: list = []
        self.notes: list[str] = []
        self.wrapper_ops: list[str] = []
        self._states: dict[int, TStr] = {}
        self._saved = []
        # codes of the multi stages by position
        self.multi_names = [n for n, _ in self.multi]
        self.name_code = dict(CODE)
        k = 100
        for n in self.multi_names:
            if n not in self.name_code:
                self.name_code[n] = k
                k += 1
        self.multi_codes = [self.name_code[n] for n in self.multi_names]
        self.real = {}

    # -- states
    def state(self, i: int, skip=False) -> TStr:
        key = (i, skip)
        s = self._states.get(key)
        if s is None:
            text = state_text(i)
            if skip:
                text = text.replace(" = 0\n", " = 0  # pyrefact: skip_file\n", 1)
            s = TStr(text)
            s.sid = i
            s.env = self
            self._states[key] = s
        return s

    def sid(self, s) -> int:
        return s.sid if isinstance(s, TStr) else 9999

    # -- fakes
    def _stage_fake(self, name: str):
        env = self
        code = self.name_code.get(name, 900)

        def fake(source, *args, **kwargs):
            env.trace.append(code)
            if args:
                env.notes.append(f"{name}: unexpected positional arguments")
            if "preserve" in kwargs:
                env.pres_seen.append(frozenset(kwargs["preserve"]))
            sid = env.sid(source)
            tb = env.script["tables"].get(name)
            alt = env.script["pres_tables"].get(name)
            if alt is not None and "preserve" in kwargs and f"u{sid}" in kwargs["preserve"]:
                tb = alt
            if tb is None or not (0 <= sid < len(tb)):
                return source if isinstance(source, TStr) else env.state(0)
            return env.state(tb[sid])
        fake.__name__ = name.split(".")[1]
        return fake

    def install(self):
        mods, main = self.mods, self.main
        env = self

        def patch(obj, attr, new):
            self._saved.append((obj, attr, getattr(obj, attr)))
            setattr(obj, attr, new)

        stage_names = set(self.multi_names) | {n for n in self.fc_attrs if n not in NOT_STAGES}
        for name in sorted(stage_names):
            m, a = name.split(".")
            if m in ("rmspace", "textwrap") or name == "core.indent":
                continue
            self.real[name] = getattr(mods[m], a)
            patch(mods[m], a, self._stage_fake(name))

        # rmspace / textwrap are names of main's module namespace
        def fmt(source, *a, **k):
            env.trace.append(2)
            return env.state(env.script["tables"]["rmspace.format_str"][env.sid(source)])

        def dedent(source):
            env.trace.append(4)
            return env.state(env.script["tables"]["textwrap.dedent"][env.sid(source)])

        def indent(source, prefix, *a, **k):
            env.trace.append(1000 + len(prefix) if set(prefix) <= {" "} else 991)
            return env.state(env.script["tables"]["textwrap.indent"][env.sid(source)])

        patch(main, "rmspace", types.SimpleNamespace(format_str=fmt))
        patch(main, "textwrap", types.SimpleNamespace(dedent=dedent, indent=indent))
        # since repair ffe758f the snippet is re-indented by core.indent (only format_code calls it): same stage
        if hasattr(mods["core"], "indent"):
            patch(mods["core"], "indent", indent)

        def is_valid(source):
            return bool(env.script["valid"][env.sid(source)]) if isinstance(source, TStr) else False
        patch(mods["core"], "is_valid_python", is_valid)

        def ind_level(source):
            return env.script["indent"][env.sid(source)]
        patch(mods["formatting"], "indentation_level", ind_level)

        real_chain_members = {n: getattr(mods[n.split(".")[0]], n.split(".")[1]) for n in SINGLE_ALL}

        def chain(fix_funcs, max_iter=10):
            fix_funcs = tuple(fix_funcs)
            names = tuple(next((n for n, o in real_chain_members.items() if o is f), "?") for f in fix_funcs)
            code = 6 if names == SINGLE_KEEP else 7 if names == SINGLE_ALL else 992
            key = "single_keep" if code == 6 else "single_all"

            def func_chain(source, preserve=frozenset()):
                env.trace.append(code)
                return env.state(env.script["tables"][key][env.sid(source)])
            return func_chain
        patch(mods["processing"], "chain", chain)

        def overused(source, *args, **kwargs):
            ris = kwargs.get("root_is_static")
            env.trace.append(8 if ris is True else 9 if ris is False else 993)
            key = "overused_static" if ris else "overused_nonstatic"
            return env.state(env.script["tables"][key][env.sid(source)])
        patch(mods["abstractions"], "overused_constant", overused)

        def minws(original, source):
            env.trace.append(15)
            o, s = env.sid(original), env.sid(source)
            t = env.script["minws"]
            new = t[o][s] if 0 <= o < len(t) and 0 <= s < len(t[o]) else s
            return env.state(new), "", ""
        patch(mods["processing"], "minimize_whitespace_line_differences", minws)

    def uninstall(self):
        for obj, attr, old in reversed(self._saved):
            setattr(obj, attr, old)
        self._saved = []

    # -- one scripted run of the real format_code
    def run(self, script) -> dict:
        self.script = script
        self.trace, self.pres_seen, self.notes, self.wrapper_ops = [], [], [], []
        src = self.state(script["input"], skip=script["skip"][script["input"]])
        kw = dict(safe=script["safe"], keep_imports=script["keep"], preserve=frozenset(script["p0"]))
        if script["input"] % 2 == 0:        # rely on the defaults of the public signature
            kw = {k: v for k, v in kw.items() if v not in (False, frozenset())}
        self.mods["core"].parse.cache_clear()
        try:
            with common.quiet():
                out = self.main.format_code(src, **kw)
            err = None
        except Exception as e:  # noqa
            out, err = None, f"{type(e).__name__}: {e}"
        pres = None
        if self.pres_seen:
            if len(set(self.pres_seen)) != 1:
                self.notes.append("stages received different preserve collections")
            pres = sorted({name_code(n) for n in self.pres_seen[0]})
        o = 9998 if err else (script["input"] if out is src else self.sid(out))
        return {"out": o, "trace": list(self.trace), "pres": pres, "error": err, "notes": list(self.notes),
                "wrapper": list(self.wrapper_ops)}


# ------------------------------------------------------------------------------------------------
# scripts (cases)

FIXED_TABLE_KEYS = ["tabs", "rmspace.format_str", "fixes.fix_too_many_blank_lines", "textwrap.dedent",
                    "fixes.add_missing_imports", "single_keep", "single_all", "overused_static",
                    "overused_nonstatic", "fixes.simplify_assign_immediate_return",
                    "fixes.align_variable_names_with_convention", "fixes.remove_unused_imports",
                    "fixes.sort_imports", "fixes.fix_line_lengths", "textwrap.indent"]


def ident(n):
    return list(range(n))


def base_script(n: int) -> dict:
    tb = {k: ident(n) for k in FIXED_TABLE_KEYS if k != "tabs"}
    return {"n": n, "safe": False, "keep": False, "p0": [], "input": 0,
            "skip": [False] * n, "blank": [False] * n, "valid": [True] * n, "indent": [0] * n,
            "tabs": ident(n), "tables": tb, "pres_tables": {}, "minws": [ident(n) for _ in range(n)],
            "terminated": [True] * n, "add_nl": ident(n), "ends_lf": [True] * n, "drop_last": ident(n)}


def rand_table(rnd, n, p_ident=0.6):
    if rnd.random() < p_ident:
        return ident(n)
    return [rnd.randrange(n) if rnd.random() < 0.5 else i for i in range(n)]


def decorate(script: dict, rnd: random.Random, env: Env, heavy=True):
    """fill the non-multi stages with (mostly identity) tables"""
    n = script["n"]
    script["tabs"] = rand_table(rnd, n, 0.8)
    for k in FIXED_TABLE_KEYS:
        if k == "tabs":
            continue
        script["tables"][k] = rand_table(rnd, n, 0.7 if heavy else 0.9)
    if rnd.random() < 0.3 and n <= 12:
        script["minws"] = [rand_table(rnd, n, 0.5) for _ in range(n)]
    if rnd.random() < 0.15:
        script["blank"] = [rnd.random() < 0.25 for _ in range(n)]
    if rnd.random() < 0.1:
        script["skip"] = [rnd.random() < 0.3 for _ in range(n)]
    if rnd.random() < 0.3:
        script["terminated"] = [rnd.random() < 0.5 for _ in range(n)]
        script["add_nl"] = rand_table(rnd, n, 0.3)
        script["ends_lf"] = [rnd.random() < 0.7 for _ in range(n)]
        script["drop_last"] = rand_table(rnd, n, 0.3)
    script["p0"] = rnd.choice([[], [], ["zz"], [f"u{rnd.randrange(n)}"]])
    pres_names = [nm for nm, pr in env.multi if pr]
    if pres_names and rnd.random() < 0.4:
        script["pres_tables"][rnd.choice(pres_names)] = rand_table(rnd, n, 0.0)
    return script


def set_mode(script, mode: str, rnd):
    """'top': everything valid.  'frag': the input is an indented fragment (invalid until dedented).
    'bad': invalid input that stays invalid."""
    n, x = script["n"], script["input"]
    if mode == "top":
        return
    if not script["terminated"][x]:
        x = script["add_nl"][x]
    t = script["tabs"][x]
    t = script["tables"]["rmspace.format_str"][t]
    t = script["tables"]["fixes.fix_too_many_blank_lines"][t]
    script["valid"][t] = False
    d = (t + 1 + rnd.randrange(n - 1)) % n if n > 1 else t
    script["tables"]["textwrap.dedent"][t] = d
    script["indent"][t] = rnd.choice([4, 4, 8, 2, 0])
    if mode == "bad":
        script["valid"][d] = False


def exhaustive_scripts(env: Env, n=4, alternate_safe=False):
    """all f : n -> n for the multi-run phase x start state x (safe, keep, mode); the other stages
    get tables from a PRNG seeded by the case index (seed independent).  alternate_safe: `safe`
    (which only feeds the preserve set) alternates with the case instead of being crossed."""
    multi_names = sorted(set(env.multi_names) - {"fixes.fix_too_many_blank_lines"})
    idx = 0
    for fi, f in enumerate(itertools.product(range(n), repeat=n)):
        for start in range(n):
            for safe in (((fi + start) % 2 == 1,) if alternate_safe else (False, True)):
                for keep in (False, True):
                    for mode in ("top", "frag"):
                        rnd = random.Random(1000003 * idx + 17)
                        s = base_script(n)
                        s.update(safe=safe, keep=keep, input=start)
                        decorate(s, rnd, env, heavy=(idx % 3 == 0))
                        # place f on one multi stage, or split it as g.h over two stages
                        a = multi_names[idx % len(multi_names)]
                        s["tables"][a] = list(f)
                        if idx % 5 == 0:
                            b = multi_names[(idx // 5 + 7) % len(multi_names)]
                            if b != a:
                                s["tables"][b] = rand_table(rnd, n, 0.0)
                        set_mode(s, mode, rnd)
                        idx += 1
                        yield s


def chain_scripts(env: Env, N: int):
    """successor chains around the pass budget N: loop 1 / loop 2 exhausted or cut"""
    multi_names = [m for m in env.multi_names if m != "fixes.fix_too_many_blank_lines"]
    for L in sorted({1, 2, N - 1, N, N + 1, N + 2, 2 * N - 1, 2 * N, 2 * N + 1, 2 * N + 3}):
        if L < 1:
            continue
        for variant in range(4):
            n = L + 6
            s = base_script(n)
            f = [min(i + 1, L) for i in range(n)]          # 0 -> 1 -> ... -> L (fixed point)
            if variant == 1:
                f[L] = max(L - 2, 0)                          # ends in a cycle of length 3 (or less)
            s["tables"][multi_names[(L + variant) % len(multi_names)]] = f
            if variant >= 2:
                # the abstraction stage jumps to a fresh/old state so that loop 2 runs or is skipped
                tgt = L + 2 if variant == 2 else 0
                s["tables"]["overused_static"] = [tgt if i >= min(L, N) else i for i in range(n)]
                f[L + 2] = L + 3
                f[L + 3] = L + 4
                f[L + 4] = L + 4
            yield s


def second_loop_chains(env: Env, N: int):
    """loop 1 ends (by hit or exhausted), the abstraction stage jumps to the head of a second
    successor chain of length K around the budget: loop 2 is cut or exhausted"""
    multi_names = [m for m in env.multi_names if m != "fixes.fix_too_many_blank_lines"]
    for L in (1, N + 1):
        for K in (1, N - 1, N, N + 1, N + 2):
            for top in (True, False):
                n = L + K + 4
                s = base_script(n)
                end1 = min(L, N)
                f = [min(i + 1, L) for i in range(n)]
                for i in range(L + 1, L + 1 + K):
                    f[i] = i + 1
                f[L + 1 + K] = L + 1 + K
                s["tables"][multi_names[(L + K) % len(multi_names)]] = f
                key = "overused_static" if top else "overused_nonstatic"
                s["tables"][key] = [L + 1 if i == end1 else i for i in range(n)]
                if not top:
                    s["input"] = n - 1                      # an indented fragment of state 0
                    s["valid"][n - 1] = False
                    s["indent"][n - 1] = 4
                    s["tables"]["textwrap.dedent"][n - 1] = 0
                    f[n - 1] = n - 1
                yield s


def random_script(env: Env, rnd: random.Random, N: int):
    n = rnd.choice([2, 3, 3, 5, 5, 6, 8, 8, 12, N + 5])
    s = base_script(n)
    s.update(safe=rnd.random() < 0.5, keep=rnd.random() < 0.5, input=rnd.randrange(n))
    decorate(s, rnd, env)
    names = [m for m in env.multi_names if m != "fixes.fix_too_many_blank_lines"]
    for _ in range(rnd.choice([1, 1, 2, 3])):
        a = rnd.choice(names)
        if rnd.random() < 0.5:
            s["tables"][a] = [min(i + 1, n - 1) if rnd.random() < 0.9 else rnd.randrange(n) for i in range(n)]
        else:
            s["tables"][a] = [rnd.randrange(n) for _ in range(n)]
    set_mode(s, rnd.choice(["top", "top", "frag", "bad"]), rnd)
    return s


# ------------------------------------------------------------------------------------------------
# Coq rendering


def gn(x: int) -> str:
    """nat literal; large ones go through N (binary) -- unary nat literals make coqc crawl"""
    return str(x) if x < 10 else f"(n {x})"


def gnl(l):
    return glist(l, gn)


def gtb(t):
    """a lookup table; the identity is written [] (DriverModel.tapp: out of range = identity)"""
    return "[]" if list(t) == list(range(len(t))) else gnl(t)


def g_assoc(pairs):
    return glist([f"({gn(i)}, {gnl(t)})" for i, t in pairs])


def compress_trace(trace: list[int], mc: list[int]) -> list[int]:
    """one token (500) per complete, contiguous pass of _multi_run_fixes (expanded again in Coq)"""
    out, i, k = [], 0, len(mc)
    while i < len(trace):
        if k and trace[i:i + k] == mc:
            out.append(500)
            i += k
        else:
            out.append(trace[i])
            i += 1
    return out


def script_to_coq(env: Env, s: dict, obs: dict, passes: int) -> str:
    n = s["n"]
    t = s["tables"]
    multi_pairs, pres_pairs = [], []
    for pos, name in enumerate(env.multi_names):
        tb = t.get(name)
        if tb is not None and tb != ident(n):
            multi_pairs.append((pos, tb))
        if name in s["pres_tables"] and env.multi[pos][1]:
            pres_pairs.append((pos, s["pres_tables"][name]))
    exp_pres = "None" if obs["pres"] is None else f"(Some {gnl(obs['pres'])})"
    fields = [
        gbool(s["safe"]), gbool(s["keep"]), gnl([name_code(x) for x in s["p0"]]), gn(s["input"]),
        glist(s["skip"], gbool), glist(s["blank"], gbool), glist(s["valid"], gbool), gnl(s["indent"]),
        glist([surface_codes(i) for i in range(n)], gnl),
        gtb(s["tabs"]), gtb(t["rmspace.format_str"]), gtb(t["fixes.fix_too_many_blank_lines"]),
        gtb(t["textwrap.dedent"]), gtb(t["fixes.add_missing_imports"]),
        gtb(t["single_keep"]), gtb(t["single_all"]),
        g_assoc(multi_pairs), g_assoc(pres_pairs),
        gtb(t["overused_static"]), gtb(t["overused_nonstatic"]),
        gtb(t["fixes.simplify_assign_immediate_return"]), gtb(t["fixes.align_variable_names_with_convention"]),
        gtb(t["fixes.remove_unused_imports"]), gtb(t["fixes.sort_imports"]), gtb(t["fixes.fix_line_lengths"]),
        gtb(t["textwrap.indent"]),
        ("[]" if all(list(r) == ident(n) for r in s["minws"]) else glist(s["minws"], gtb)),
        ("[]" if all(s["terminated"]) else glist(s["terminated"], gbool)), gtb(s["add_nl"]),
        ("[]" if all(s["ends_lf"]) else glist(s["ends_lf"], gbool)), gtb(s["drop_last"]),
        gn(len(env.multi_names)), gn(passes), "mc",
        gn(obs["out"]), gnl(compress_trace(obs["trace"], env.multi_codes)), exp_pres,
    ]
    return "(mkDrv " + " ".join(fields) + ")"


HEADER = ("From Coq Require Import List Arith Bool NArith.\nImport ListNotations.\n"
          "Require Import Pyrefact.DriverModel.\nDefinition n (x : N) : nat := N.to_nat x.\n")


def write_drv_file(path: Path, env: Env, items, passes: int):
    body = ";\n ".join(script_to_coq(env, s, o, passes) for s, o in items)
    path.write_text(HEADER + f"Definition mc : list nat := {gnl(env.multi_codes)}.\n"
                    f"Definition cases : list drv_case := [\n {body}\n].\n"
                    "Eval vm_compute in (bad_idx drv_case_ok cases).\n")


def model_view(wd: Path, env: Env, s: dict, obs: dict, passes: int) -> str:
    p = wd / "replay_drv.v"
    p.write_text(HEADER + f"Definition mc : list nat := {gnl(env.multi_codes)}.\n"
                 f"Definition c : drv_case := {script_to_coq(env, s, obs, passes)}.\n"
                 "Eval vm_compute in (fst (case_run c)).\nEval vm_compute in (case_trace c).\n"
                 "Eval vm_compute in (case_pres c).\n")
    rc, out = common.coqc(p)
    return out[-3000:]


# ------------------------------------------------------------------------------------------------
# the whole format_code correspondence


def format_code_correspondence(mods, wd: Path, tier: str, seed: int, part: str = "all") -> dict:
    """part: 'all' | 'loops' (exhaustive f + chains) | 'light' (a shard of the exhaustive part +
    chains + random)."""
    t0 = time.time()
    tb = tables.get()
    N = tb["MAX_FILE_PASSES"]
    res = {"disagreements": [], "evaluations": 0, "distinct": 0, "histogram": {}, "samples": [],
           "shape_error": None, "exhaustive_cases": 0, "chain_cases": 0, "random_cases": 0}
    try:
        env = Env(mods)
    except ShapeError as e:
        res["shape_error"] = str(e)
        return res
    res["n_multi"] = len(env.multi_names)
    res["multi_preserve"] = [n for n, p in env.multi if p]
    unknown = [n for n in env.fc_attrs if n not in NOT_STAGES and n not in CODE
               and n not in ("textwrap.indent", "core.indent")]
    res["unknown_stage_attrs"] = unknown
    rnd = random.Random(seed)
    scripts = []
    exh = list(exhaustive_scripts(env, alternate_safe=(part == "loops")))
    if part == "light":
        k = 4
        exh = [s for i, s in enumerate(exh) if i % k == seed % k]
    res["exhaustive_cases"] = len(exh)
    scripts += exh
    ch = list(chain_scripts(env, N)) + list(second_loop_chains(env, N))
    res["chain_cases"] = len(ch)
    scripts += ch
    nrand = {"quick": 400, "thorough": 12000}[tier] if part != "loops" else 200
    for _ in range(nrand):
        scripts.append(random_script(env, rnd, N))
    res["random_cases"] = nrand

    env.install()
    items = []
    hist = {}
    distinct = set()
    try:
        for s in scripts:
            o = env.run(s)
            items.append((s, o))
            key = ("early" if len(o["trace"]) <= 4 else "full") + ("/skip" if not o["trace"] else "")
            npass = sum(1 for c in o["trace"] if c == env.multi_codes[0])
            hk = f"{key} passes={npass if npass < 4 else ('4..' + str(N) if npass <= N else '>' + str(N))}"
            hist[hk] = hist.get(hk, 0) + 1
            if o["wrapper"]:
                wk = "wrapper: " + "+".join(o["wrapper"])
                hist[wk] = hist.get(wk, 0) + 1
            if npass >= 2:
                distinct.add((tuple(o["trace"]), o["out"], s["input"], s["safe"], s["keep"]))
    finally:
        env.uninstall()
    res["evaluations"] = len(items)
    res["distinct"] = len(distinct)
    res["histogram"] = hist

    files, shards = [], []
    SH = 400
    for k in range(0, len(items), SH):
        p = wd / f"drv_{k // SH}.v"
        write_drv_file(p, env, items[k:k + SH], N)
        files.append(p)
        shards.append(items[k:k + SH])
    results = common.run_case_files(files)
    for p, shard in zip(files, shards):
        rc, out = results[p]
        idx = common.parse_nat_list(out) if rc == 0 else None
        if idx is None:
            res["disagreements"].append({"kind": "model-evaluation-failed", "file": p.name, "log": out[-1500:]})
            continue
        for i in idx:
            s, o = shard[i]
            res["disagreements"].append({"kind": "correspondence", "kernel": "K7 DriverModel.format_code_run",
                                         "script": s, "impl": o})
    for s, o in items:
        if o["error"] or o["notes"]:
            res["disagreements"].append({"kind": "correspondence", "kernel": "K7 scripted format_code raised / misused a stage",
                                         "script": s, "impl": o})
    if unknown:
        res["disagreements"].append({"kind": "correspondence", "kernel": "K7 stage set of format_code",
                                     "detail": f"format_code calls stage(s) unknown to DriverModel: {unknown}"})
    res["samples"] = [{"input": s["input"], "safe": s["safe"], "keep": s["keep"], "n_states": s["n"],
                       "valid": s["valid"], "non_identity_stage_tables": {k: v for k, v in s["tables"].items() if v != ident(s["n"])},
                       "impl_out": o["out"], "impl_trace_len": len(o["trace"]),
                       "impl_trace (500 = one full pass of _multi_run_fixes)": compress_trace(o["trace"], env.multi_codes),
                       "impl_preserve": o["pres"]}
                      for s, o in (items[:1] + items[len(items) // 2:len(items) // 2 + 1] + items[-1:])]
    res["env"] = env
    res["wall_s"] = round(time.time() - t0, 1)
    return res


# ------------------------------------------------------------------------------------------------
# format_code on REAL strings: early returns (skip_file / blank / invalid / indented)


def early_return_cases():
    return [
        ("skip", "import os\nx = 1  # pyrefact: skip_file\n\n\n\n\nprint( x )   \n"),
        ("skip-tab", "# pyrefact: skip_file\nif x:\n\tprint(1)   \n"),
        ("empty", ""),
        ("blank", "   \n\t\n\n"),
        ("invalid", "def f(:\n    return  1   \n"),
        ("invalid-tab", "def f(:\n\treturn 1\n\n\n\n\n\nx = = 2\n"),
        ("invalid-indented", "    def f(:\n        return 1\n"),
        ("invalid-unbalanced", "print((1, 2)\n"),
        ("invalid-keyword", "class = 3\n"),
    ]


def ws_normalise(s: str) -> str:
    """reference for 'handed back with at most whitespace normalisation': the non-whitespace
    characters in order"""
    return "".join(s.split())


def really_invalid(src: str) -> bool:
    """invalid as given AND as an indented fragment (after tab expansion, trailing-blank removal and
    dedent) -- the inputs the property says are handed back with whitespace normalisation only"""
    import ast as _ast

    def ok(t):
        try:
            _ast.parse(t)
            return True
        except (SyntaxError, ValueError):
            return False
    t = src.expandtabs(4)
    t2 = "\n".join(line.rstrip() for line in t.split("\n"))
    return not (ok(src) or ok(_textwrap.dedent(t)) or ok(_textwrap.dedent(t2)))


def early_return_check(mods) -> list[dict]:
    bad = []
    main = mods["main"]
    for name, src in early_return_cases():
        for safe, keep in itertools.product((False, True), repeat=2):
            try:
                with common.quiet():
                    out = main.format_code(src, safe=safe, keep_imports=keep)
            except Exception as e:  # noqa
                bad.append({"case": name, "source": src, "problem": f"raised {type(e).__name__}: {e}"})
                continue
            if name.startswith("skip"):
                if out != src:
                    bad.append({"case": name, "source": src, "out": out, "problem": "skip_file text not returned verbatim"})
            elif ws_normalise(out) != ws_normalise(src):
                bad.append({"case": name, "source": src, "out": out,
                            "problem": "invalid/blank input changed beyond whitespace"})
    return bad


def wrapper_check(mods, sources) -> tuple[int, list[dict]]:
    """main.format_code vs its definition as a wrapper (DriverModel.format_code_outer with the real
    _format_code behaviour read off newline-terminated inputs): for a non-empty source whose last
    character is not a line break, format_code(s) = drop-one-LF(format_code(s + LF)); otherwise the two
    calls are the same call.  Real strings, real stages."""
    main = mods["main"]
    bad, n = [], 0
    for src in sources:
        for safe, keep in ((False, False), (True, True)):
            if not src or src[-1] in "\r\n":
                continue
            n += 1
            res = []
            for text in (src, src + "\n"):
                mods["core"].parse.cache_clear()
                try:
                    with common.quiet():
                        res.append(main.format_code(text, safe=safe, keep_imports=keep))
                except Exception as e:  # noqa
                    res.append(f"<raised {type(e).__name__}>")
            # the appended line break is dropped again unless it ends a backslash continuation (repair F03-r5-1)
            droppable = res[1].endswith("\n") and not res[1].startswith("<raised") and \
                not re.search(r"\\(\r\n|\r|\n)\Z", res[1][:-1])
            exp = res[1][:-1] if droppable else res[1]
            if res[0] != exp:
                bad.append({"source": src, "safe": safe, "keep_imports": keep, "format_code(s)": res[0],
                            "format_code(s + LF)": res[1], "expected": exp})
    return n, bad


# ------------------------------------------------------------------------------------------------
# format_file on temp files: the 8 rows of the decision table


def format_file_rows(mods, wd: Path) -> tuple[list[dict], list[str]]:
    main, core = mods["main"], mods["core"]
    rows, coq = [], []
    saved_fc, saved_valid = main.format_code, core.is_valid_python
    old_text, new_text = "old = 1\n", "new = 2\n"
    try:
        for name in ("m.py", "__init__.py"):
            for changed, vnew, vold in itertools.product((False, True), repeat=3):
                d = Path(tempfile.mkdtemp(dir=wd))
                f = d / name
                f.write_text(old_text)
                os.utime(f, ns=(10 ** 18, 10 ** 18))
                before = f.stat().st_mtime_ns
                seen = {}

                def fake_fc(source, **kw):
                    seen.update(kw)
                    seen["source"] = source
                    return new_text if changed else source

                def fake_valid(source):
                    return vold if source == old_text else vnew if source == new_text else False
                main.format_code, core.is_valid_python = fake_fc, fake_valid
                # call variants: Path / str / relative str argument; default or explicit preserve and safe
                variant = (changed * 4 + vnew * 2 + vold) % 4
                arg = [f, str(f), os.path.relpath(f), f][variant]
                call_kw = [{}, {}, {"safe": True}, {"preserve": frozenset({"keepme"}), "safe": False}][variant]
                try:
                    with common.quiet():
                        ret = main.format_file(arg, **call_kw)
                    err = None
                except Exception as e:  # noqa
                    ret, err = None, f"{type(e).__name__}: {e}"
                finally:
                    main.format_code, core.is_valid_python = saved_fc, saved_valid
                after_text = f.read_text()
                touched = f.stat().st_mtime_ns != before
                row = {"file": name, "changed": changed, "valid_new": vnew, "valid_old": vold,
                       "returned": ret, "content_is_new": after_text == new_text, "touched": touched,
                       "keep_imports_seen": seen.get("keep_imports"), "error": err,
                       "content_ok": after_text in (old_text, new_text), "read_ok": seen.get("source") == old_text,
                       "options_ok": (seen.get("safe"), frozenset(seen.get("preserve", ()))) ==
                                     (call_kw.get("safe", False), frozenset(call_kw.get("preserve", ()))),
                       "call": {"arg": type(arg).__name__ + (":relative" if variant == 2 else ""), **{k: str(v) for k, v in call_kw.items()}}}
                rows.append(row)
                coq.append(f"(mkFileCase {gbool(changed)} {gbool(vnew)} {gbool(vold)} "
                           f"{gbool(after_text == new_text)} {gbool(bool(ret))})")
    finally:
        main.format_code, core.is_valid_python = saved_fc, saved_valid
    return rows, coq


def format_file_row_problems(rows) -> list[dict]:
    bad = []
    for r in rows:
        probs = []
        if r["error"]:
            probs.append("format_file raised " + r["error"])
        if not r["content_ok"] or not r["read_ok"]:
            probs.append("file content is neither the old nor the formatted text / wrong text was formatted")
        if r["touched"] != r["content_is_new"] and not (r["touched"] and not r["changed"]):
            probs.append("mtime and content disagree")
        if r["touched"] and not r["content_is_new"]:
            probs.append("file rewritten although nothing was to be written")
        if not r.get("options_ok", True):
            probs.append("safe / preserve are not handed to format_code as given (defaults: safe=False, preserve empty)")
        if r["keep_imports_seen"] != (r["file"] == "__init__.py"):
            probs.append("keep_imports is not (name == '__init__.py')")
        # the property's own oracle (C03 statement)
        if r["valid_old"] and r["content_is_new"] and not r["valid_new"]:
            probs.append("PROPERTY: a valid file was replaced by an invalid one")
        if not r["changed"] and r["touched"]:
            probs.append("PROPERTY: a file whose formatted text equals its content was rewritten")
        if probs:
            bad.append(dict(r, problems=probs))
    return bad


# ------------------------------------------------------------------------------------------------
# format_files with format_file scripted (contents are state numbers)


_LAYOUTS: dict = {}


class _SerialPool:
    def __init__(self, *a, **k):
        pass

    def __enter__(self):
        return self

    def __exit__(self, *a):
        return False

    def starmap(self, func, it, chunksize=None):
        return [func(*args) for args in it]


def files_cases(rnd: random.Random, nrand: int, M: int, thin: int = 1):
    """(max_passes, folders[[ (fid, init) ]], tables[fid])"""
    cases = []
    # exhaustive: 2 folders, 1+1 or 2+1 files, contents in 3 states, tables 3->3 (sampled by index)
    tabs3 = list(itertools.product(range(3), repeat=3))
    for mp in (0, 1, 2, M):
        for k, (t0, t1) in enumerate(itertools.product(tabs3, repeat=2)):
            if (mp in (0, 2) and k % (4 * thin)) or (k + mp) % thin:
                continue
            cases.append((mp, [[(0, 0)], [(1, 0)]], [list(t0), list(t1)]))
    for mp in (1, M):
        for i, (t0, t1, t2) in enumerate(itertools.product(tabs3[::2], tabs3[::3], tabs3[1::4])):
            if (i + mp) % (2 * thin):
                continue
            cases.append((mp, [[(0, 0), (1, 1)], [(2, 0)]], [list(t0), list(t1), list(t2)]))
    # chains longer than the budget
    for L in (M - 1, M, M + 1, M + 3):
        n = L + 3
        cases.append((M, [[(0, 0)], [(1, 1), (2, 0)]],
                      [[min(i + 1, L) for i in range(n)], ident(n), [min(i + 1, 2) for i in range(n)]]))
    for _ in range(nrand):
        nf = rnd.randint(1, 4)
        fid, folders = 0, []
        for _f in range(nf):
            k = rnd.randint(1, 3)
            folders.append([(fid + j, rnd.randrange(3)) for j in range(k)])
            fid += k
        n = rnd.choice([3, 4, M + 3])
        tbs = [[min(i + 1, n - 1) if rnd.random() < 0.5 else rnd.randrange(n) for i in range(n)]
               if rnd.random() < 0.7 else ident(n) for _ in range(fid)]
        cases.append((rnd.choice([0, 1, 2, M, M, M + 1]), folders, tbs))
    return cases


def run_format_files(mods, wd: Path, case, real_pool=False) -> dict:
    main = mods["main"]
    mp, folders, tbs = case
    # one directory tree per folder layout, reused (contents rewritten) across cases
    key = tuple(tuple(fid for fid, _ in fl) for fl in folders)
    cache = _LAYOUTS.setdefault(str(wd), {})
    if key not in cache:
        root = Path(tempfile.mkdtemp(dir=wd))
        paths = {}
        # folder names chosen so that sorted(path) order is NOT the folder order
        for k, fl in enumerate(folders):
            d = root / f"d{(7 * k + 3) % 10}{k}"
            d.mkdir()
            for fid, _ in fl:
                paths[fid] = d / f"f{(5 * fid + 2) % 7}_{fid}.py"
        cache[key] = (root, paths)
    root, paths = cache[key]
    for fl in folders:
        for fid, init in fl:
            paths[fid].write_text(str(init))
    if (root / "calls.log").exists():
        (root / "calls.log").unlink()
    fid_of = {str(p): fid for fid, p in paths.items()}
    log = root / "calls.log"
    passes: list[list[int]] = []

    def fake_format_file(filename, preserve=frozenset(), safe=False):
        fid = fid_of[str(filename)]
        cur = int(Path(filename).read_text())
        tb = tbs[fid]
        new = tb[cur] if 0 <= cur < len(tb) else cur
        with open(log, "a") as fh:
            fh.write(f"{fid}\n")
        if new != cur:
            Path(filename).write_text(str(new))
            return True
        return 0
    fake_format_file.__module__ = main.__name__
    fake_format_file.__qualname__ = "format_file"
    fake_format_file.__name__ = "format_file"

    class TracingPool(_SerialPool):
        def starmap(self, func, it, chunksize=None):
            args = list(it)
            passes.append(sorted(fid_of[str(a[0])] for a in args))
            return [func(*a) for a in args]

    saved = (main.format_file, main.mp)
    main.format_file = fake_format_file
    if not real_pool:
        main.mp = types.SimpleNamespace(Pool=TracingPool, cpu_count=saved[1].cpu_count)
    try:
        with common.quiet():
            kw = {} if mp == 1 else {"max_passes": mp}      # max_passes=1 is the default of the signature
            ret = main.format_files([paths[f] for f in sorted(paths, reverse=True)], n_cores=2, **kw)
        err = None
    except Exception as e:  # noqa
        ret, err = None, f"{type(e).__name__}: {e}"
    finally:
        main.format_file, main.mp = saved
    final = sorted((fid, int(p.read_text())) for fid, p in paths.items())
    calls = [int(x) for x in log.read_text().split()] if log.exists() else []
    return {"final": final, "passes": passes, "result": bool(ret), "error": err, "calls": sorted(calls)}


def files_case_to_coq(case, obs) -> str:
    mp, folders, tbs = case
    fl = glist([glist([f"({gn(a)}, {gn(b)})" for a, b in f]) for f in folders])
    return (f"(mkFilesCase {gn(mp)} {fl} {glist(tbs, gnl)} {glist([f'({gn(a)}, {gn(b)})' for a, b in obs['final']])} "
            f"{glist(obs['passes'], gnl)} {gbool(obs['result'])})")


ORIENT_BRANCHES = [
    ["pass"], ["pass", "pass"], ["x = 1"], ["x = 1", "y = 2"], ["x = 1"] * 4, ["x = 1"] * 5, ["return 1"], ["continue"], ["break"],
    ["x = 1", "return x"], ["x = 1"] * 3 + ["return x"], ["x = 1"] * 7 + ["return x"], ["print(x)", "continue"],
    ["if c:\n    return 1", "return 2"], ["if c:\n    return 1", "if d:\n    return 3", "return 2"],
    ["if c:\n    x = 1"], ["if c:\n    x = 1\nelse:\n    x = 2", "y = x", "z = y", "w = z"], ["raise ValueError(x)"],
    ["x = 1", "raise ValueError(x)"], ["return 1", "x = 1"], ["return 1", "if c:\n    x = 1", "y = 2", "z = 3"],
    ["pass", "return 1"], ["for i in r:\n    if i:\n        return i", "return 0"], ["x = 1", "y = 2", "z = 3", "break"],
]


def orientation_cases(mods):
    """all ordered pairs of the branch vocabulary: the real fixes._orelse_preferred_as_body against
    DriverModel.orelse_preferred on the branch summaries (summaries computed with the real
    core.is_blocking / fixes._count_branches, which belong to other kernels)"""
    import ast as _ast
    core, fixes = mods["core"], mods["fixes"]

    def nodes(stmts):
        src = "for r in rs:\n  def f():\n" + "".join(_textwrap.indent(s, "    ") + "\n" for s in stmts)
        # statements are parsed inside a loop inside a function so that return/continue/break are legal
        src = "def outer(rs, c, d, x):\n  for r in rs:\n" + "".join(_textwrap.indent(s, "    ") + "\n" for s in stmts)
        return _ast.parse(src).body[0].body[0].body

    def summary(b):
        return {"all_pass": all(isinstance(n, _ast.Pass) for n in b), "blocking": any(core.is_blocking(n) for n in b),
                "branches": fixes._count_branches(b), "len": len(b),
                "first_exit": isinstance(b[0], (_ast.Return, _ast.Continue, _ast.Break))}
    parsed = [nodes(st) for st in ORIENT_BRANCHES]
    sums = [summary(b) for b in parsed]
    items = []
    for i, b in enumerate(parsed):
        for j, o in enumerate(parsed):
            try:
                got = bool(fixes._orelse_preferred_as_body(b, o))
            except Exception as e:  # noqa
                got = None
            items.append({"body": ORIENT_BRANCHES[i], "orelse": ORIENT_BRANCHES[j], "sb": sums[i], "so": sums[j], "impl": got})
    return items


def orient_case_to_coq(it) -> str:
    def br(s):
        return (f"(mkBranch {gbool(s['all_pass'])} {gbool(s['blocking'])} {gn(s['branches'])} {gn(s['len'])} "
                f"{gbool(s['first_exit'])})")
    return f"(mkOrient {br(it['sb'])} {br(it['so'])} {gbool(bool(it['impl']))})"


def guard_cases(mods, tier: str, only_all_valid: bool = False, n: int = 3):
    """fault injection into processing.fix / chain / pattern-substitution style fix(max_iter=1):
    the rule proposes a whole-text replacement, is_valid_python and the string restoration are
    scripted; exhaustive over candidate tables 3->3 x validity masks x restore behaviours."""
    core, processing = mods["core"], mods["processing"]
    texts = [f"a{i}\n" for i in range(n)]
    tb = tables.get()
    restores = {
        "id": [list(range(n))] * n,
        "to_src": [[i] * n for i in range(n)],
        "rot": [[(i + 1) % n for i in range(n)]] * n,
        "mixed": [[(i * 2 + k) % n for i in range(n)] for k in range(n)],
    }
    saved = (core.is_valid_python, processing._substitute_original_strings,
             processing._substitute_original_fstrings)
    items = []
    script = {}

    def fake_valid(s):
        return script["valid"][texts.index(s)] if s in texts else False

    def fake_restore(original, new):
        if original in texts and new in texts:
            return texts[script["restore"][texts.index(original)][texts.index(new)]]
        return new

    core.is_valid_python = fake_valid
    processing._substitute_original_strings = fake_restore
    def fake_restore_f(original, new):      # second restoration stage: a fixed rotation on odd-numbered texts
        if script.get("fstage") and new in texts and texts.index(new) % 2 == 1:
            return texts[(texts.index(new) + 1) % len(texts)]
        return new
    processing._substitute_original_fstrings = fake_restore_f
    try:
        for cand in itertools.product(range(n), repeat=n):
            def rule(source, _c=cand):
                i = texts.index(source)
                j = _c[i]
                if j != i:
                    yield (core.Range(0, len(source)), texts[j])
            for valid in itertools.product((False, True), repeat=n):
                if only_all_valid and not all(valid):
                    continue
                for rname, rt in list(restores.items()) + ([("id+f", restores["id"]), ("rot+f", restores["rot"])]
                                                             if not only_all_valid else []):
                    if only_all_valid and rname != "id":
                        continue
                    fstage = rname.endswith("+f")
                    if fstage:      # what the model sees is the composition fstrings . strings
                        rt = [[(j + 1) % n if j % 2 == 1 else j for j in row] for row in rt]
                    script.update(valid=valid, restore=rt, fstage=fstage)
                    if fstage:      # the scripted first stage is the un-composed table
                        script["restore"] = restores[rname[:-2]]
                    for start in range(n):
                        for which, mi in (("fix1", 1), ("fix4", 4), ("fix", tb["FIX_MAX_ITER"]), ("chain", tb["CHAIN_MAX_ITER"])):
                            try:
                                with common.quiet():
                                    if which == "fix1":
                                        got = processing.fix(rule, max_iter=1)(texts[start])
                                    elif which == "fix4":
                                        got = processing.fix(rule, max_iter=4)(texts[start])
                                    elif which == "fix":
                                        got = processing.fix(rule)(texts[start])
                                    else:       # an iterator: chain must materialise its rules once
                                        got = processing.chain(r for r in [rule])(texts[start])
                                g = texts.index(got) if got in texts else 77
                            except Exception as e:  # noqa
                                g = 88
                            items.append({"cand": list(cand), "valid": list(valid), "restore": rt, "rname": rname,
                                          "max_iter": mi, "which": which, "start": start, "got": g})
                        if rname == "id":
                            # processing._replace_nodes: same guard, no restoration (guarded_once)
                            import ast as _ast
                            try:
                                tree = _ast.parse(texts[start])
                                node = tree.body[0].value
                                j = cand[start]
                                with common.quiet():
                                    got = processing._replace_nodes(texts[start], {node: _ast.Name(id=texts[j].strip())})
                                g = texts.index(got) if got in texts else 77
                            except Exception as e:  # noqa
                                g = 88
                            items.append({"cand": list(cand), "valid": list(valid), "restore": rt, "rname": rname,
                                          "max_iter": 1, "which": "_replace_nodes", "start": start, "got": g})
    finally:
        core.is_valid_python, processing._substitute_original_strings, processing._substitute_original_fstrings = saved
    return items


def guard_case_to_coq(it) -> str:
    return (f"(mkGuardCase {gnl(it['cand'])} {glist(it['valid'], gbool)} {glist(it['restore'], gnl)} "
            f"{gn(it['max_iter'])} {it['start']} {gn(it['got'])})")


def run_simple_cases(wd: Path, stem: str, typ: str, okfn: str, coq_items: list[str], shard=2000, extra_import=""):
    """returns (bad indices, errors)"""
    files = []
    for k in range(0, len(coq_items), shard):
        p = wd / f"{stem}_{k // shard}.v"
        body = ";\n ".join(coq_items[k:k + shard])
        p.write_text(HEADER + extra_import + f"Definition cases : list {typ} := [\n {body}\n].\n"
                     f"Eval vm_compute in (bad_idx {okfn} cases).\n")
        files.append(p)
    results = common.run_case_files(files)
    bad, errs = [], []
    for n, p in enumerate(files):
        rc, out = results[p]
        idx = common.parse_nat_list(out) if rc == 0 else None
        if idx is None:
            errs.append({"kind": "model-evaluation-failed", "file": p.name, "log": out[-1500:]})
        else:
            bad += [n * shard + i for i in idx]
    return bad, errs
