"""C02 -- loop -> comprehension tranche (RulesCompModel.v / RulesCompProofs.v), plugged into harness/c02.py.

Tie to /repo on every run:
  * rule correspondence: programs of the fragment are printed to Python, the REAL rule function runs on the text,
    the result is parsed back and compared (in Coq, `rule_case_ok`) with `apply_rule` = five passes of the Gallina
    model of the rule (exhaustive small shapes per rule first, then seeded random programs);
  * semantics validation: inputs and outputs of the fired cases are executed by CPython with logging stubs and by
    `exec_block test_world`; final values of every name + call log must agree (`sem_case_status`);
  * property oracle: before / after executed under fixed valuations; exception status, call log and every name
    that is bound afterwards are compared (names that only the original binds must be loop variables);
  * known findings F02comp-n: witness programs re-run on the real code."""
from __future__ import annotations

import itertools
import json
import random as _random
import time
from collections import Counter

from . import common
from . import c02_comp_terms as T
from .c02_comp_terms import C, N, DUMMY, Unsupported

RULES = {
    "RSetList": "replace_for_loops_with_set_list_comp",
    "RDictComp": "replace_for_loops_with_dict_comp",
    "RNestedLoops": "replace_nested_loops_with_set_list_comp",
    "RPlus": "replace_listcomp_append_with_plus",
    "RUnion": "replace_setcomp_add_with_union",
    "RRedundant": "remove_redundant_comprehensions",
    "RChainedComps": "merge_chained_comps",
    "RNestedComps": "merge_nested_comprehensions",
    "RMap": "replace_map_lambda_with_comp",
    "RFilter": "replace_filter_lambda_with_comp",
}
MODELLED = [f"fixes.{f}" for f in RULES.values()]

HEADER = ("From Coq Require Import List ZArith Bool.\nImport ListNotations.\n"
          "Require Import Pyrefact.Base Pyrefact.RulesExprModel Pyrefact.RulesCompModel.\n")


def real_apply(mods, rid, src):
    mods["core"].parse.cache_clear()
    with common.quiet():
        out = getattr(mods["fixes"], RULES[rid])(src)
    mods["core"].parse.cache_clear()
    return out


# ---------------------------------------------------------------------------------------------
# building blocks.  Names: v1 accumulator, v2 / v4 / v5 / v6 loop variables, v3 / v7 / v8 iterables of the
# valuation, v9 a second accumulator, v10 a dict of lists, v11.. scratch

X, I, J, A, B, IT, IT2, IT3, Y, D = 1, 2, 4, 5, 6, 3, 7, 8, 9, 10


def call(f, *args):
    return ("call", f, list(args))


def bi(b, *args):
    return ("bi", b, list(args))


def lst(*e):
    return ("seq", "KList", list(e))


def tn(i):
    return ("tname", i)


def tt(*i):
    return ("ttup", list(i))


def gen(t, it, *ifs):
    return ("gen", t, it, list(ifs))


def comp(k, elt, *gens, dval=DUMMY):
    return ("comp", k, elt, dval, list(gens))


def For(t, it, body, orelse=()):
    return ("for", t, it, list(body), list(orelse))


def If(c, body, orelse=()):
    return ("if", c, list(body), list(orelse))


def meth(x, m, e):
    return ("meth", ("rname", x), m, e)


def asg(x, e):
    return ("assign", x, e)


EV = lambda *a: ("expr", call(0, *a))   # noqa: an observable event


def nests(leaf):
    """(tag, loop statement) for the shapes the descent of the rules has to deal with"""
    i, j = N(I), N(J)
    yield "for", For(tn(I), N(IT), [leaf])
    yield "for-if", For(tn(I), N(IT), [If(call(4, i), [leaf])])
    yield "for-if-if", For(tn(I), N(IT), [If(call(4, i), [If(i, [leaf])])])
    yield "for-for", For(tn(I), N(IT3), [For(tn(J), i, [leaf])])
    yield "for-if-for-if", For(tn(I), N(IT3), [If(i, [For(tn(J), i, [If(call(4, j), [leaf])])])])
    yield "for-tuple", For(tt(I, J), N(IT2), [leaf])
    yield "for-call-iter", For(tn(I), call(5, C(1)), [leaf])
    yield "for-else", For(tn(I), N(IT), [leaf], [EV()])
    yield "for-two", For(tn(I), N(IT), [leaf, EV(i)])
    yield "for-if-else", For(tn(I), N(IT), [If(call(4, i), [leaf], [EV(i)])])
    yield "for-for-else", For(tn(I), N(IT3), [For(tn(J), i, [leaf], [EV()])])
    yield "for-self-scope", For(tn(I), N(IT3), [For(tn(J), N(J), [leaf])])     # the inner iterable reads its own target
    yield "for-shadow", For(tn(I), N(IT3), [For(tn(I), i, [leaf])])            # the inner for re-binds the outer variable
    yield "for-shadow-cond", For(tn(I), N(IT3), [For(tn(J), i, [If(("bool", False, [call(0, i), C(True)]),
                                                                   [For(tn(I), lst(j, j), [leaf])])])])
    yield "for-acc-iter", For(tn(I), N(X), [leaf])                             # iterates over the accumulator
    yield "for-acc-target", For(tn(X), N(IT), [leaf])                          # the accumulator is the loop variable


def suffixes():
    i = N(I)
    yield "none", []
    yield "read-acc", [EV(N(X))]
    yield "read-var", [EV(i)]
    yield "rebind-var", [asg(I, C(3)), EV(i)]
    yield "shield-for", [For(tn(I), N(IT), [EV(i)])]
    yield "shield-for-else", [For(tn(I), N(IT), [EV(i)], [EV(i)])]
    yield "shield-comp", [asg(Y, comp("CList", i, gen(tn(I), N(IT))))]
    yield "comp-first-iter", [asg(Y, comp("CList", i, gen(tn(I), i)))]
    yield "comp-other", [asg(Y, comp("CList", i, gen(tn(J), N(IT))))]
    yield "aug-var", [("aug", I, "OAdd", C(1))]
    yield "map-param", [asg(Y, bi("BList", ("map", I, i, N(IT))))]
    yield "read-var-J", [EV(N(J))]


def contexts(site, suffix):
    """the site (a list of statements) + suffix at top level, in an if, in a loop, ..."""
    i = N(I)
    body = list(site) + list(suffix)
    yield "top", body
    yield "pre", [EV()] + body
    yield "in-if", [If(call(4, C(1)), body), EV(N(X))]
    yield "in-else", [If(call(4, C(2)), [EV()], body)]
    yield "if-else-reads", [If(call(4, C(1)), body, [EV(i)])]
    yield "in-loop", [For(tn(A), N(IT), body)]
    yield "in-loop-pre-read", [For(tn(A), N(IT), [EV(i)] + body)]
    yield "in-loop-iter-read", [asg(I, lst()), For(tn(A), i, body)]
    yield "in-loop-if", [For(tn(A), N(IT), [If(N(A), body, [EV(i)])])]
    yield "in-loop-same-var", [For(tn(I), N(IT), body)]
    yield "after-loop-read", [For(tn(A), N(IT), body), EV(i)]
    yield "in-loop-else", [For(tn(A), N(IT), [EV()], body)]


# ---------------------------------------------------------------------------------------------
# families per rule (deterministic)

def fam_setlist(tier, det):
    i = N(I)
    inits = [lst(), bi("BSet"), C(0), C(5), ("neg", C(3)), C(True), lst(C(1)), C("a"), call(1), N(IT), ("neg", C(0)),
             bi("BList"), ("seq", "KTuple", [])]
    elts = [call(0, i), i, bi("BLen", N(X)), lst(i), ("bin", "OAdd", i, C(1)), N(X), call(6, i)]
    leaves = lambda e: [meth(X, "MAppend", e), meth(X, "MAdd", e), ("aug", X, "OAdd", e), ("aug", X, "OSub", e),  # noqa
                        meth(X, "MExtend", e), meth(Y, "MAppend", e), ("aug", X, "OBitOr", e), ("aug", Y, "OAdd", e)]
    out = []
    for k, init in enumerate(inits):
        for e in (elts if tier != "quick" or k < 4 else elts[:3]):
            for leaf in leaves(e):
                out.append([asg(X, init), For(tn(I), N(IT), [leaf]), EV(N(X))])
    base_leaves = [meth(X, "MAppend", call(0, i)), ("aug", X, "OAdd", call(6, i)), meth(X, "MAdd", i)]
    base_inits = {0: lst(), 1: C(0), 2: bi("BSet")}
    for li, leaf in enumerate(base_leaves):
        for tag, loop in nests(leaf):
            for stag, suf in suffixes():
                if li and stag not in ("none", "read-var", "shield-for"):
                    continue
                out.append([asg(X, base_inits[li]), loop] + suf)
        for stag, suf in suffixes():
            for ctag, prog in contexts([asg(X, base_inits[li]), For(tn(I), N(IT), [leaf])], suf):
                if li and (stag not in ("none", "read-var") or ctag not in ("top", "in-loop", "in-loop-pre-read")):
                    continue
                out.append(prog)
    # not adjacent / other statement shapes
    leaf = base_leaves[0]
    out.append([asg(X, lst()), EV(), For(tn(I), N(IT), [leaf])])
    out.append([("aug", X, "OAdd", lst()), For(tn(I), N(IT), [leaf])])
    out.append([asg(X, lst()), For(tn(I), N(IT), [leaf]), asg(Y, lst()), For(tn(J), N(IT), [meth(Y, "MAppend", N(J))])])
    out.append([asg(X, C(0)), For(tn(I), N(IT), [("aug", X, "OAdd", i)]), For(tn(J), N(IT), [("aug", X, "OAdd", N(J))])])
    out.append([asg(X, lst()), If(call(4, C(1)), [meth(X, "MAppend", C(1))])])
    return out


def fam_dictcomp(tier, det):
    i = N(I)
    kv = lambda k, v: ("kv", k, v)  # noqa
    inits = [("dict", []), ("dict", [kv(C(1), C(2))]), ("dict", [("dstar", N(D))]),
             ("dict", [("dstar", N(D)), ("dstar", N(D))]), ("dict", [("dstar", N(D)), kv(C(1), C(2))]),
             comp("CDict", N(A), gen(tt(A, B), N(IT2)), dval=N(B)), lst(), bi("BDict"), N(D), call(1)]
    keys = [i, call(0, i), ("seq", "KTuple", [i, C(1)]), bi("BLen", N(X)), C(1)]
    vals = [call(6, i), i, bi("BLen", N(X)), N(X), C(None)]
    out = []
    for init in inits:
        for k in keys:
            for v in vals:
                out.append([asg(X, init), For(tn(I), N(IT), [("setitem", X, k, v)]), EV(N(X))])
    leaf = ("setitem", X, i, call(6, i))
    for tag, loop in nests(leaf):
        for stag, suf in suffixes():
            out.append([asg(X, ("dict", [])), loop] + suf)
    for stag, suf in suffixes():
        for ctag, prog in contexts([asg(X, ("dict", [])), For(tn(I), N(IT), [leaf])], suf):
            if stag in ("none", "read-var", "shield-for") or ctag == "top":
                out.append(prog)
    out.append([asg(X, ("dict", [])), For(tn(I), N(IT), [("setitem", Y, i, i)])])
    out.append([asg(X, ("dict", [])), For(tn(I), N(IT), [("setitem", X, call(0, i), call(0, i))]), EV(N(X))])
    return out


def fam_fold(is_set):
    def f(tier, det):
        i = N(I)
        m1, m2 = ("MAdd", "MUpdate") if is_set else ("MAppend", "MExtend")
        op = "OBitOr" if is_set else "OAdd"
        sk, ck = ("KSet", "CSet") if is_set else ("KList", "CList")
        starts = [("seq", sk, [C(1)]), ("seq", sk, [C(1), call(0)]), comp(ck, N(A), gen(tn(A), N(IT))),
                  ("bin", op, N(IT2 if not is_set else Y), N(IT2 if not is_set else Y)),
                  ("bin", op, ("seq", sk, [C(1)]), ("bin", op, N(IT), N(IT))), ("bin", "OSub", C(1), C(2)),
                  N(IT), call(1), lst() if not is_set else bi("BSet"), ("seq", "KList" if is_set else "KSet", [C(1)]),
                  ("bin", "OAdd" if is_set else "OBitOr", N(IT), N(IT))]
        elts = [call(0, i), i, bi("BLen", N(X)), N(X)]
        out = []
        for s in starts:
            for e in elts:
                for m in (m1, m2, "MAppend", "MUpdate"):
                    out.append([asg(X, s), For(tn(I), N(IT), [meth(X, m, e)]), EV(N(X))])
                    out.append([asg(X, s), meth(X, m, e), EV(N(X))])
        start = starts[0]
        leaf = meth(X, m1, call(0, i))
        for tag, loop in nests(leaf):
            for stag, suf in suffixes():
                if stag in ("none", "read-var", "shield-for", "read-acc"):
                    out.append([asg(X, start), loop] + suf)
        for stag, suf in suffixes():
            for ctag, prog in contexts([asg(X, start), For(tn(I), N(IT), [leaf])], suf):
                if stag in ("none", "read-var", "shield-for") or ctag == "top":
                    out.append(prog)
        # chains
        out.append([asg(X, start), For(tn(I), N(IT), [leaf]), For(tn(J), N(IT), [meth(X, m1, N(J))]), meth(X, m2, call(5, C(1)))])
        out.append([asg(X, start), meth(X, m2, call(5, C(1))), meth(X, m2, N(IT)), For(tn(I), N(IT), [leaf])])
        out.append([asg(X, start), meth(X, m2, N(X))])
        out.append([asg(X, start), meth(Y, m2, N(IT))])
        return out
    return f


def fam_nested(tier, det):
    i, j = N(I), N(J)
    recvs = [("rname", X), ("rsub", D, C(1)), ("rsub", D, N(IT)), ("rsub", D, i), ("rsub", D, call(0)), ("rname", I),
             ("rsub", D, bi("BLen", N(IT)))]
    exprs = [call(5, i), i, N(IT), N(X), call(2, N(X)), lst(i, i)]
    out = []
    for r in recvs:
        for e in exprs:
            for m in ("MExtend", "MAppend", "MUpdate"):
                out.append([For(tn(I), N(IT3), [("meth", r, m, e)]), EV(N(X), N(D))])
            out.append([For(tn(I), N(IT3), [asg(Y, e), ("meth", r, "MExtend", N(Y))]), EV(N(X), N(D))])
            out.append([For(tn(I), N(IT3), [asg(Y, e), ("meth", r, "MExtend", N(Y))]), EV(N(Y))])
    leaf = meth(X, "MExtend", call(5, i))
    for tag, loop in nests(leaf):
        for stag, suf in suffixes():
            out.append([loop] + suf)
    for stag, suf in suffixes():
        for ctag, prog in contexts([For(tn(I), N(IT), [leaf])], suf):
            if stag in ("none", "read-var", "shield-for") or ctag == "top":
                out.append(prog)
    out.append([For(tn(I), N(IT3), [asg(Y, i), ("meth", ("rname", X), "MExtend", N(A))])])
    out.append([For(tn(I), N(IT3), [asg(Y, i), EV(), meth(X, "MExtend", N(Y))])])
    out.append([For(tn(I), N(IT3), [If(i, [asg(Y, i), meth(X, "MExtend", N(Y))])]), EV(N(X))])
    out.append([For(tn(I), N(IT3), [For(tn(J), i, [asg(Y, call(5, j)), meth(X, "MExtend", N(Y))])]), EV(N(X))])
    out.append([asg(Y, lst()), For(tn(I), N(IT), [asg(Y, ("bin", "OAdd", N(Y), lst(i))), meth(X, "MExtend", N(Y))]), EV(N(X))])
    out.append([asg(Y, C(0)), For(tn(I), N(IT3), [If(N(Y), [asg(Y, i), meth(X, "MExtend", N(Y))])]), EV(N(X))])
    out.append([asg(T.LETTER0, C(1)), For(tn(I), N(IT3), [meth(X, "MExtend", i)]), EV(N(T.LETTER0))])
    out.append([For(tn(T.LETTER0 + 1), N(IT3), [meth(X, "MExtend", N(T.LETTER0 + 1))]), EV(N(T.LETTER0))])
    return out


def expr_contexts(e, n=10):
    yield from itertools.islice(_expr_contexts(e), n)


def _expr_contexts(e):
    yield [asg(Y, e)]
    yield [asg(Y, bi("BList", e)), EV(N(Y))]
    yield [EV(e)]
    yield [If(e, [EV()])]
    yield [For(tn(A), e, [EV(N(A))])]
    yield [asg(Y, lst(e, e))]
    yield [asg(Y, comp("CList", N(A), gen(tn(A), e)))]
    yield [meth(X, "MExtend", e)]
    yield [For(tn(A), bi("BList", e), [EV(N(A))])]
    yield [asg(Y, ("map", B, e, N(IT3)))]


def fam_redundant(tier, det):
    i, j = N(I), N(J)
    out = []
    its = [N(IT), call(5, C(1)), comp("CList", i, gen(tn(I), N(IT))), lst(C(1), C(2)), N(IT2)]
    nctx = 4 if tier == "quick" else 10
    for it in (its[:3] if tier == "quick" else its):
        for k in ("CList", "CSet", "CGen"):
            cands = [comp(k, i, gen(tn(I), it)), comp(k, i, gen(tn(I), it, i)), comp(k, j, gen(tn(I), it)),
                     comp(k, call(2, i), gen(tn(I), it)), comp(k, i, gen(tn(I), it), gen(tn(J), i)),
                     comp(k, ("seq", "KTuple", [i, j]), gen(tt(I, J), it)), comp(k, lst(i), gen(tn(I), it))]
            for c in cands:
                for p in expr_contexts(c, nctx):
                    out.append(p)
        dc = [comp("CDict", i, gen(tt(I, J), it), dval=j), comp("CDict", j, gen(tt(I, J), it), dval=i),
              comp("CDict", i, gen(tt(I, J), it, i), dval=j), comp("CDict", i, gen(tn(I), it), dval=i),
              comp("CDict", i, gen(tt(I, J, A), it), dval=j), comp("CDict", i, gen(tt(J, I), it), dval=j)]
        for c in dc:
            for p in list(expr_contexts(c))[:4]:
                out.append(p)
    return out


def fam_chained(tier, det):
    i, j = N(I), N(J)
    out = []
    c1, c2 = call(4, i), i
    for ko in ("CList", "CSet", "CGen"):
        for ki in ("CList", "CSet", "CGen"):
            for ifs_in in ([], [c1], [c1, c2]):
                for ifs_out in ([], [c2], [call(4, i), call(0, i)]):
                    for elt in (call(0, i), i):
                        inner = comp(ki, i, gen(tn(I), N(IT), *ifs_in))
                        e = comp(ko, elt, gen(tn(I), inner, *ifs_out))
                        for p in expr_contexts(e, 2 if ko != ki else (4 if tier == "quick" else 10)):
                            out.append(p)
    pair = ("seq", "KTuple", [i, j])
    for k in ("CList", "CGen"):
        out.append([asg(Y, comp(k, call(0, i), gen(tt(I, J), comp(k, pair, gen(tt(I, J), N(IT2), call(4, i))), j)))])
        out.append([asg(Y, comp(k, call(0, i), gen(tt(I, J), comp(k, pair, gen(tt(J, I), N(IT2))))))])
        out.append([asg(Y, comp(k, i, gen(tn(I), comp(k, j, gen(tn(J), N(IT))))))])
        out.append([asg(Y, comp(k, i, gen(tn(I), comp(k, i, gen(tn(I), N(IT)), gen(tn(J), N(IT))))))])
        out.append([asg(Y, comp(k, i, gen(tn(I), comp(k, i, gen(tn(I), N(IT)))), gen(tn(J), N(IT))))])
        out.append([asg(Y, comp(k, i, gen(tn(I), comp(k, i, gen(tn(I), comp(k, i, gen(tn(I), N(IT), i)), call(4, i))), call(0, i))))])
    out.append([asg(Y, comp("CDict", i, gen(tn(I), comp("CDict", i, gen(tn(I), N(IT)), dval=C(1))), dval=C(2)))])
    return out


def fam_nestedcomps(tier, det):
    i, j, a, b = N(I), N(J), N(A), N(B)
    out = []
    inner_shapes = []
    for ki in ("CList", "CGen", "CSet"):
        inner_shapes += [
            comp(ki, j, gen(tn(J), N(IT))), comp(ki, j, gen(tn(J), N(IT), call(4, j))),
            comp(ki, j, gen(tn(A), N(IT3)), gen(tn(J), a, j)),
            comp(ki, a, gen(tn(A), N(IT3)), gen(tn(J), a)),              # elt is not the last target
            comp(ki, j, gen(tn(J), N(IT), call(4, j, i))),                 # the outer variable inside
            comp(ki, j, gen(tn(J), j)),                                    # first iterable reads the inner name
            comp(ki, i, gen(tn(J), N(IT3)), gen(tn(I), j)),                # same name inside and outside
            comp(ki, call(2, j), gen(tn(J), N(IT))), comp(ki, j, gen(tt(J, A), N(IT2)))]
    inner_shapes += [comp("CDict", j, gen(tn(J), N(IT)), dval=C(1)), comp("CDict", j, gen(tn(J), N(IT)), dval=call(0, j)),
                     comp("CDict", j, gen(tn(J), N(IT), j), dval=lst(j))]
    for inner in inner_shapes:
        for ko, elt, dv in (("CList", call(0, i), DUMMY), ("CList", i, DUMMY), ("CSet", i, DUMMY), ("CSet", call(6, i), DUMMY),
                            ("CGen", i, DUMMY), ("CDict", i, C(1)), ("CDict", call(6, i), i), ("CList", call(0, i, a), DUMMY),
                            ("CList", call(0, i, j), DUMMY)):
            out.append([asg(Y, comp(ko, elt, gen(tn(I), inner), dval=dv)), EV(N(Y))])
        out.append([asg(Y, comp("CList", call(0, i), gen(tn(I), inner, i)))])                     # outer condition
        out.append([asg(Y, comp("CList", call(0, i), gen(tt(I, B), inner)))])                    # tuple target
        out.append([asg(Y, comp("CList", call(0, i), gen(tn(I), inner), gen(tn(B), i)))])        # a clause behind
        out.append([asg(Y, comp("CList", call(0, i), gen(tn(B), N(IT3)), gen(tn(I), inner)))])   # a clause in front
        out.append([asg(Y, comp("CList", call(0, i), gen(tn(A), N(IT3)), gen(tn(I), inner)))])   # ... that binds an inner name
        out.append([asg(Y, comp("CList", call(0, i), gen(tn(I), inner), gen(tn(B), a)))])        # a later clause reads an inner name
        out.append([EV(comp("CGen", i, gen(tn(I), inner)))])
    # two clauses to inline, nesting
    in1 = comp("CList", j, gen(tn(J), N(IT), call(4, j)))
    in2 = comp("CList", a, gen(tn(A), N(IT3)))
    out.append([asg(Y, comp("CList", call(0, i, b), gen(tn(I), in1), gen(tn(B), in2)))])
    out.append([asg(Y, comp("CList", i, gen(tn(I), comp("CList", j, gen(tn(J), comp("CList", a, gen(tn(A), N(IT), a)), call(4, j))))))])
    return out


def fam_lambda(kind):
    def f(tier, det):
        i, a = N(I), N(A)
        out = []
        bodies = [call(0, i), i, ("not", i), ("bool", False, [call(4, i), call(0, i)]), ("bool", True, [i, call(4, i)]),
                  ("bin", "OAdd", i, C(1)), lst(i, N(X)), call(0, i, N(IT)), ("bool", False, [i, ("bool", True, [call(4, i), i])]),
                  ("not", ("bool", False, [i, call(0)])), ("neg", i), comp("CList", a, gen(tn(A), call(5, i)))]
        its = [N(IT), call(5, C(1)), lst(C(1), C(0), C(2))]
        nctx = 4 if tier == "quick" else 10
        for body in bodies:
            for it in (its[1:] if tier == "quick" else its):
                if kind == "map":
                    es = [("map", I, body, it)]
                else:
                    es = [("filter", False, I, body, it), ("filter", True, I, body, it)]
                for e in es:
                    for p in expr_contexts(e, nctx):
                        out.append(p)
        # the remaining contexts once
        for e in ([("map", I, call(0, i), N(IT))] if kind == "map" else
                  [("filter", False, I, call(4, i), N(IT)), ("filter", True, I, call(4, i), N(IT))]):
            out += list(expr_contexts(e))
        # nested
        if kind == "map":
            out.append([asg(Y, bi("BList", ("map", I, call(0, i), ("map", J, call(6, N(J)), N(IT)))))])
            out.append([For(tn(A), bi("BList", N(IT)), [asg(Y, ("map", I, call(0, i, a), N(IT)))])])
            out.append([For(tn(A), ("map", I, i, N(IT)), [asg(Y, bi("BList", ("map", I, call(0, i, a), N(IT))))])])
        else:
            out.append([asg(Y, bi("BList", ("filter", False, I, call(4, i), ("filter", True, J, N(J), N(IT)))))])
            out.append([For(tn(A), ("filter", False, I, i, N(IT)), [asg(Y, bi("BList", ("filter", True, I, call(4, i), N(IT))))])])
        return out
    return f


FAMILIES = {"RSetList": fam_setlist, "RDictComp": fam_dictcomp, "RNestedLoops": fam_nested, "RPlus": fam_fold(False),
            "RUnion": fam_fold(True), "RRedundant": fam_redundant, "RChainedComps": fam_chained,
            "RNestedComps": fam_nestedcomps, "RMap": fam_lambda("map"), "RFilter": fam_lambda("filter")}


# ---------------------------------------------------------------------------------------------
# seeded random programs

def rand_expr(rnd, vars_, depth=2, pure=False):
    r = rnd.random()
    if depth <= 0 or r < 0.35:
        return rnd.choice([N(v) for v in vars_] + [C(1), C(0), C(2)])
    if r < 0.55 and not pure:
        return call(rnd.choice([0, 2, 4, 5, 6]), rand_expr(rnd, vars_, depth - 1))
    if r < 0.65:
        return lst(*[rand_expr(rnd, vars_, depth - 1) for _ in range(rnd.randint(0, 2))])
    if r < 0.75:
        return bi(rnd.choice(["BLen", "BList", "BSum"]), rand_expr(rnd, vars_, depth - 1))
    if r < 0.85:
        return ("bin", "OAdd", rand_expr(rnd, vars_, depth - 1), rand_expr(rnd, vars_, depth - 1))
    if r < 0.92:
        return ("bool", rnd.random() < 0.5, [rand_expr(rnd, vars_, depth - 1), rand_expr(rnd, vars_, depth - 1)])
    return ("not", rand_expr(rnd, vars_, depth - 1))


def rand_nest(rnd, leaf_of, targets, depth=0):
    """a for / if nest with one leaf; returns the loop statement"""
    t = rnd.choice([I, J, A, B])
    it = rnd.choice([N(IT), N(IT3), N(IT2)] + [N(x) for x in targets] + [call(5, C(1))])
    tgt = tn(t) if rnd.random() < 0.8 else tt(t, rnd.choice([x for x in (I, J, A, B) if x != t]))
    bound = targets + T.tgt_names(tgt)
    inner = None
    r = rnd.random()
    if depth < 2 and r < 0.35:
        inner = rand_nest(rnd, leaf_of, bound, depth + 1)
    else:
        inner = leaf_of(bound)
    for _ in range(rnd.choice([0, 0, 1, 2])):
        inner = If(rand_expr(rnd, bound, 1), [inner]) if rnd.random() < 0.9 else If(rand_expr(rnd, bound, 1), [inner], [EV()])
    orelse = [EV()] if rnd.random() < 0.06 else []
    return For(tgt, it, [inner], orelse)


def rand_after(rnd):
    out = []
    for _ in range(rnd.choice([0, 1, 1, 2])):
        v = rnd.choice([I, J, A, X, X, Y])
        r = rnd.random()
        if r < 0.5:
            out.append(EV(N(v)))
        elif r < 0.7:
            out.append(For(tn(v if v not in (X, Y) else I), N(IT), [EV(N(I)), EV(N(v))]))
        elif r < 0.85:
            out.append(asg(Y, comp("CList", N(v), gen(tn(rnd.choice([I, J])), N(IT)))))
        else:
            out.append(asg(v, C(7)))
    return out


def rand_wrap(rnd, body):
    r = rnd.random()
    if r < 0.6:
        return body
    if r < 0.75:
        return [If(call(4, C(rnd.randint(1, 2))), body, [EV(N(rnd.choice([I, X])))] if rnd.random() < 0.4 else [])]
    pre = [EV(N(rnd.choice([I, J, X])))] if rnd.random() < 0.4 else []
    return [For(tn(rnd.choice([A, B, I])), N(IT), pre + body)] + ([EV(N(I))] if rnd.random() < 0.3 else [])


def rand_prog(rid, rnd):
    if rid in ("RSetList", "RDictComp", "RPlus", "RUnion"):
        def leaf_of(bound):
            e = rand_expr(rnd, bound + ([X] if rnd.random() < 0.1 else []), 2)
            if rid == "RSetList":
                return rnd.choice([meth(X, "MAppend", e), meth(X, "MAdd", e), ("aug", X, "OAdd", e), ("aug", X, "OSub", e)])
            if rid == "RDictComp":
                return ("setitem", X, rand_expr(rnd, bound, 1), e)
            return meth(X, "MAppend" if rid == "RPlus" else "MAdd", e)
        init = {"RSetList": rnd.choice([lst(), bi("BSet"), C(0), C(rnd.randint(-3, 3)), lst(C(1))]),
                "RDictComp": rnd.choice([("dict", []), ("dict", [("kv", C(1), C(2))]), ("dict", [("dstar", N(D))])]),
                "RPlus": rnd.choice([lst(C(1)), comp("CList", N(A), gen(tn(A), N(IT))), ("bin", "OAdd", N(IT), N(IT))]),
                "RUnion": rnd.choice([("seq", "KSet", [C(1)]), comp("CSet", N(A), gen(tn(A), N(IT)))])}[rid]
        body = [asg(X, init), rand_nest(rnd, leaf_of, [])]
        if rid in ("RPlus", "RUnion") and rnd.random() < 0.3:
            body.append(meth(X, "MExtend" if rid == "RPlus" else "MUpdate", rand_expr(rnd, [IT, IT2], 1)))
        return rand_wrap(rnd, body + rand_after(rnd))
    if rid == "RNestedLoops":
        def leaf_of(bound):
            return ("meth", rnd.choice([("rname", X), ("rname", X), ("rsub", D, C(1)), ("rsub", D, N(rnd.choice(bound)))]),
                    "MExtend", rand_expr(rnd, bound, 2))
        return rand_wrap(rnd, [rand_nest(rnd, leaf_of, [])] + rand_after(rnd))
    # expression rules
    fam = {"RRedundant": fam_redundant, "RChainedComps": fam_chained, "RNestedComps": fam_nestedcomps,
           "RMap": fam_lambda("map"), "RFilter": fam_lambda("filter")}[rid]
    pool = _POOLS.setdefault(rid, fam("quick", None))
    a, b = rnd.choice(pool), rnd.choice(pool)
    return rand_wrap(rnd, a + b + rand_after(rnd))


_POOLS: dict = {}


# ---------------------------------------------------------------------------------------------
# valuations and domains

VALUATIONS = [
    {"v3": [1, 2, 3], "v7": [(1, 2), (3, 4)], "v8": [[1, 2], [], [3]], "v1": [0], "v9": [], "v10": {1: [5], 2: []}},
    {"v3": [], "v7": [], "v8": [], "v1": [], "v9": [7], "v10": {1: []}},
    {"v3": [2, True, 1, 0], "v7": [[1, 0], (2, 2)], "v8": [(4,), [1, 3]], "v1": [1], "v9": [1], "v10": {1: [1], True: [2]},
     "v2": 9, "v4": [8]},
    {"v3": (3, 1, 3), "v7": {1: 2, 3: 4}, "v8": [[0, 0]], "v1": [], "v9": [], "v10": {}, "v2": [5, 6], "v4": 1, "v5": 2, "v6": 3},
    {"v3": [1, 2], "v7": [(1, 2)], "v8": [[1], [2]], "v9": [], "v10": {1: [], 3: [1]}},           # v1 unbound
    {"v3": [], "v7": [], "v8": [], "v9": [], "v10": {}},                                          # ... and no items
    {"v3": [1], "v7": [(2, 1)], "v8": [[1]], "v1": [], "v9": [], "v10": {1: []}, "v4": [5, 6], "v2": [[7]]},
]


def mutated_names(p):
    m = set()
    for s in T.walk_stmts(p):
        if s[0] in ("aug", "setitem"):
            m.add(s[1])
        if s[0] == "meth":
            m.add(s[1][1])
    return m


COPYING = {"BLen", "BSum", "BList", "BTuple", "BSet", "BSorted", "BDict"}


CONSUMING = {"BSum", "BList", "BTuple", "BSet", "BSorted", "BDict"}


def _lazy(x) -> bool:
    return (x[0] == "comp" and x[1] == "CGen") or x[0] in ("map", "filter") or (x[0] == "bi" and x[1] in ("BIter", "BReversed"))


def sem_domain(p) -> bool:
    """programs on which the value semantics of the model (no aliasing, iteration over a snapshot, sets in insertion
    order) is meant to coincide with CPython: a name that is mutated in place only occurs as the argument of a copying
    builtin or as the receiver of the mutation; no sets whose order could matter; every lazy value (generator
    expression, map, filter, iter) is consumed on the spot by list / tuple / set / sum / sorted / dict / extend / update"""
    mut = mutated_names(p)
    for s in T.walk_stmts(p):
        if s[0] == "for" and set(T.tgt_names(s[1])) & mut:
            return False
        for e in T.stmt_exprs(s):
            ok_occurrences = set()
            for x in T.sub_exprs(e):
                if x[0] == "bi" and x[1] in COPYING:
                    for a in x[2]:
                        if a[0] == "name":
                            ok_occurrences.add(id(a))
                if x[0] in ("seq",) and x[1] == "KSet" and len(x[2]) > 1:
                    return False
                if x[0] == "comp" and x[1] == "CSet":
                    return False
                if x[0] == "bi" and x[1] == "BSet":
                    return False
            consumed = set()
            for x in T.sub_exprs(e):
                if x[0] == "bi" and x[1] in CONSUMING:
                    consumed |= {id(a) for a in x[2]}
            if s[0] == "meth" and s[2] in ("MExtend", "MUpdate"):
                consumed.add(id(s[3]))
            for x in T.sub_exprs(e):
                if x[0] == "name" and x[1] in mut and id(x) not in ok_occurrences:
                    return False
                if _lazy(x) and id(x) not in consumed:
                    return False
                if x[0] == "gen" and set(T.tgt_names(x[1])) & mut:
                    return False
    return True


def final_names(p, bindings):
    return sorted(T.all_names(p) | {T.name_of(k) for k in bindings})


# ---------------------------------------------------------------------------------------------
# property oracle

def loop_bound_names(p) -> set:
    """names that a for statement (or the temporary of the nested-loops rule) binds in the original"""
    out = set()
    for s in T.walk_stmts(p):
        if s[0] == "for":
            out |= set(T.tgt_names(s[1]))
            if len(s[3]) == 2 and s[3][0][0] == "assign":
                out.add(s[3][0][1])
            for x in T.walk_stmts(s[3]):
                if x[0] in ("for", "if"):
                    body = x[3] if x[0] == "for" else x[2]
                    if len(body) == 2 and body[0][0] == "assign":
                        out.add(body[0][1])
    return out


def observe_run(res):
    (status, vals), log = res
    if status == "exc":
        return ("exc",), [(f, [T.observe(a) for a in args]) for f, args in log]
    return ("ok", {k: T.observe(v) for k, v in vals.items()}), [(f, [T.observe(a) for a in args]) for f, args in log]


def oracle_differs(p, src, new_src):
    """first valuation under which before / after are observably different; None if there is none"""
    dropped_ok = {T.name_txt(n) for n in loop_bound_names(p)}
    for k, env in enumerate(VALUATIONS):
        b, blog = observe_run(T.run_prog(src, env))
        if b[0] == "exc":
            continue            # the property only speaks about runs of the original that terminate normally
        a, alog = observe_run(T.run_prog(new_src, env))
        if a[0] == "exc":
            return {"valuation": k, "before": "terminates", "after": "raises", "log_before": repr(blog), "log_after": repr(alog)}
        if alog != blog:
            return {"valuation": k, "log_before": repr(blog), "log_after": repr(alog)}
        bv, av = b[1], a[1]
        for name in sorted(set(bv) | set(av)):
            if name in dropped_ok:
                continue        # a loop variable: it is observed through the reads of the program (log, other names)
            if name in bv and name in av:
                if bv[name] != av[name]:
                    return {"valuation": k, "name": name, "before": bv[name], "after": av[name]}
            elif name in av and (T.name_of(name) >= T.LETTER0):
                continue
            else:
                return {"valuation": k, "name": name, "before": bv.get(name, "<unbound>"), "after": av.get(name, "<unbound>")}
    return None


# ---------------------------------------------------------------------------------------------
# known findings of this tranche: structural predicates on a failing oracle case (rule id, program, diff)

def _leaf_setitems(p):
    for s in T.walk_stmts(p):
        if s[0] == "setitem":
            yield s


def _has_call(e):
    return any(x[0] in ("call",) for x in T.sub_exprs(e))


def _sig_dict_key_value_order(case):
    """d[k] = v evaluates v before k, {k: v ...} evaluates k first: both contain a call"""
    return any(_has_call(s[2]) and _has_call(s[3]) for s in _leaf_setitems(case["program"]))


def _comps(p):
    for s in T.walk_stmts(p):
        for e in T.stmt_exprs(s):
            for x in T.sub_exprs(e):
                if x[0] == "comp":
                    yield x


def _sig_comp_in_comp_order(case):
    """a list / set comprehension is the iterable of a clause: merging interleaves its conditions with the outer
    element / conditions (call order), and a set loses its de-duplication before the outer calls"""
    for c in _comps(case["program"]):
        for g in c[4]:
            if g[2][0] == "comp" and g[2][1] in ("CList", "CSet", "CDict"):
                inner_calls = any(_has_call(x) for gg in g[2][4] for x in [gg[2]] + gg[3])
                outer_calls = _has_call(c[2]) or _has_call(c[3]) or any(_has_call(x) for x in g[3]) \
                    or any(_has_call(x) for gg in c[4] for x in gg[3])
                if outer_calls and (inner_calls or g[2][1] in ("CSet", "CDict")):
                    return True
    return False


def _sig_extend_receiver_zero_iterations(case):
    """x.extend(generator) looks x up even when the loop runs zero times"""
    return case["diff"].get("after") == "raises"


def _sig_fold_start_not_a_collection(case):
    d = case["diff"]
    return d.get("after") == "raises" and any(s[0] == "assign" and s[2][0] == "bin" for s in T.walk_stmts(case["program"]))


def _sig_comprehension_scope(case):
    """an iterable / condition of the loop nest reads a variable that a clause at the same or a deeper level binds:
    in a comprehension that variable is local and still unbound"""
    for s in T.walk_stmts(case["program"]):
        if s[0] != "for":
            continue
        chain, node = [], s
        while node[0] in ("for", "if"):
            chain.append(node)
            body = node[3] if node[0] == "for" else node[2]
            if len(body) != 1:
                break
            node = body[0]
        fors = [n for n in chain if n[0] == "for"]
        for k, n in enumerate(chain):
            later = set()
            for m in chain[k if n[0] == "for" else k + 1:]:
                if m[0] == "for":
                    later |= set(T.tgt_names(m[1]))
            if n is fors[0]:
                continue
            e = n[2] if n[0] == "for" else n[1]
            if any(x[0] == "name" and x[1] in later for x in T.sub_exprs(e)):
                return True
    return False


def _sig_dictcomp_over_mapping(case):
    return case["rule"] == "RRedundant" and "dict(" in case["output"]


SIGS = {
    "dict_key_value_order": ("RDictComp", _sig_dict_key_value_order),
    "comprehension_in_comprehension_order": (("RChainedComps", "RNestedComps"), _sig_comp_in_comp_order),
    "extend_receiver_zero_iterations": ("RNestedLoops", _sig_extend_receiver_zero_iterations),
    "fold_start_not_a_collection": (("RPlus", "RUnion"), _sig_fold_start_not_a_collection),
    "comprehension_scope": (("RSetList", "RDictComp", "RNestedLoops"), _sig_comprehension_scope),
    "dictcomp_over_mapping_to_dict": ("RRedundant", _sig_dictcomp_over_mapping),      # F02-49 (reported by the sweep)
}


def match_finding(kf, case):
    for f in kf:
        if f.kind != "finding":
            continue
        sig = SIGS.get(f.fields.get("sig", ""))
        if not sig:
            continue
        rids = sig[0] if isinstance(sig[0], tuple) else (sig[0],)
        if case["rule"] not in rids or f.fields.get("site") not in [f"fixes.{RULES[r]}" for r in rids] + ["*"]:
            continue
        try:
            if sig[1](case):
                return f
        except Exception:  # noqa
            continue
    return None


# ---------------------------------------------------------------------------------------------

def g_case_rule(c):
    rid, p, q = c[0], c[1], c[2]
    return f"({rid}, {T.g_prog(p)}, {T.g_prog(q)})"


def write_files(wd, tag, items, gfun, ctype, tail, shard=350):
    files = []
    for k in range(0, len(items), shard):
        part = items[k:k + shard]
        path = wd / f"comp_{tag}_{k // shard}.v"
        path.write_text(HEADER + f"Definition cases : list ({ctype}) := [\n " + ";\n ".join(gfun(c) for c in part)
                        + "\n].\n" + tail + "\n")
        files.append((path, part))
    return files


def check(run, mods, wd, rnd) -> dict:
    t0 = time.time()
    tier = run.tier
    quick = tier == "quick"
    hist = Counter()
    timings = {}
    kf = common.load_findings("C02")
    det = _random.Random(20260929)

    # ---- programs: deterministic families, then seeded random ones
    cases = []            # (rid, p, q, src, out, seeded)
    problems = []
    seen = set()
    for rid in RULES:
        fam = FAMILIES[rid](tier, det)
        nrand = (40 if quick else 600)
        progs = [(p, False) for p in fam] + [(rand_prog(rid, rnd), True) for _ in range(nrand)]
        for p, seeded in progs:
            try:
                src = T.prog_src(p)
                p = T.parse_prog(src)          # canonical form (e.g. `if` with an empty body gets `pass`)
                if T.parse_prog(T.prog_src(p)) != p:
                    raise Unsupported("round trip")
            except Unsupported:
                hist[f"{rid}:unprintable"] += 1
                continue
            if (rid, src) in seen:
                continue
            seen.add((rid, src))
            try:
                out = real_apply(mods, rid, src)
            except Exception as e:  # noqa
                problems.append({"rule": rid, "source": src, "problem": f"the rule raised {type(e).__name__}: {e}"})
                continue
            try:
                q = T.parse_prog(out)
            except (Unsupported, SyntaxError) as e:
                problems.append({"rule": rid, "source": src, "output": out, "problem": f"output outside the fragment: {e}",
                                 "program": p})
                continue
            cases.append((rid, p, q, src, out, seeded))
            hist[f"{rid}:{'fired' if q != p else 'silent'}"] += 1
    timings["real_rules_s"] = round(time.time() - t0, 1)

    rule_files = write_files(wd, "rule", cases, g_case_rule, "rule * list st * list st",
                             "Eval vm_compute in (bad_idx rule_case_ok cases).")

    # ---- semantics validation on inputs and outputs of the fired cases (+ a sample of the silent ones)
    sem, sem_seen = [], set()
    n_outside = 0
    silent_quota = Counter()
    for rid, p, q, src, out, seeded in cases:
        progs = [p] if p == q else [p, q]
        silent_quota[rid, p == q] += 1
        if silent_quota[rid, p == q] % ((8 if quick else 2) if p == q else (2 if quick else 1)):
            continue
        for prog in progs:
            s = T.prog_src(prog)
            if s in sem_seen:
                continue
            sem_seen.add(s)
            if not sem_domain(prog):
                n_outside += 1
                continue
            h = sum(map(ord, s))
            for j in range(2 if quick else 3):
                env = VALUATIONS[(h + j) % len(VALUATIONS)]
                (status, vals), log = T.run_prog(s, env)
                names = final_names(prog, env)
                try:
                    if status == "exc":
                        exp = "None"
                    else:
                        vs = [(n, vals[T.name_txt(n)]) for n in names if T.name_txt(n) in vals]
                        exp = ("(Some (" + T.glist(vs, lambda nv: f"({nv[0]}%nat, {T.g_val(nv[1])})") + ", "
                               + T.g_trace(log) + "))")
                    sem.append((prog, T.g_bindings(env), T.glist(names, T.g_nat), exp, s, env))
                except Unsupported:
                    hist["sem:unsupported-value"] += 1
    sem_files = write_files(wd, "sem", sem, lambda c: f"({T.g_prog(c[0])}, {c[1]}, {c[2]}, {c[3]})",
                            "list st * list (nat * val) * list nat * option (list (nat * val) * trace)",
                            "Eval vm_compute in (map sem_case_status cases).")
    timings["cpython_sem_s"] = round(time.time() - t0, 1)

    results = common.run_case_files([f for f, _ in rule_files + sem_files])
    timings["coq_cases_s"] = round(time.time() - t0, 1)
    disagreements, sem_bad, sem_gap, eval_errors = [], [], 0, []
    for path, part in rule_files:
        rc, out = results[path]
        idx = common.parse_nat_list(out) if rc == 0 else None
        if idx is None:
            eval_errors.append({"file": path.name, "log": out[-1500:]})
            continue
        for i in idx:
            rid, p, q, src, o, seeded = part[i]
            disagreements.append({"rule": rid, "site": "fixes." + RULES[rid], "source": src, "impl_output": o})
    for path, part in sem_files:
        rc, out = results[path]
        idx = common.parse_nat_list(out) if rc == 0 else None
        if idx is None or len(idx) != len(part):
            eval_errors.append({"file": path.name, "log": out[-1500:]})
            continue
        for i, stt in enumerate(idx):
            if stt == 1:
                sem_bad.append({"source": part[i][4], "valuation": repr(part[i][5]), "cpython": part[i][3][:600]})
            elif stt == 2:
                sem_gap += 1

    # ---- property oracle on the fired cases of the deterministic families
    failures, reproduced = [], {}
    n_oracle = 0
    for rid, p, q, src, out, seeded in cases:
        if p == q or (seeded and quick and n_oracle > 4000):
            continue
        n_oracle += 1
        d = oracle_differs(p, src, out)
        if d:
            case = {"rule": rid, "site": "fixes." + RULES[rid], "program": p, "source": src, "output": out, "diff": d}
            f = match_finding(kf, case)
            if f is None:
                failures.append(case)
            else:
                reproduced.setdefault(f.id, (f, []))[1].append(case)
    # ---- witnesses of the findings (fixed programs; a finding is reported only while its witness still fails)
    for fid, rid, src in WITNESSES:
        out = real_apply(mods, rid, src)
        p = T.parse_prog(src)
        d = oracle_differs(p, src, out) if out != src else None
        listed = [f for f in kf if f.kind == "finding" and f.id == fid]
        if d and listed:
            reproduced.setdefault(fid, (listed[0], []))[1].append({"source": src, "output": out, "diff": d})
        elif d and not listed:
            failures.append({"rule": rid, "site": "fixes." + RULES[rid], "program": p, "source": src, "output": out, "diff": d})
    for fid, (f, hits) in sorted(reproduced.items()):
        if not fid.startswith("F02comp"):
            continue          # a finding of another tranche / of the sweep: reported there
        h = hits[0]
        run.known_finding(fid, f"{f.text} [{len(hits)} cases in this run, e.g. {h['source']!r} -> {h['output']!r}: {h['diff']}]")
    for f in kf:
        if f.kind == "finding" and f.id.startswith("F02comp") and f.id not in reproduced:
            common.log(f"note: known finding {f.id} no longer reproduces")
    reg_fails = check_regressions(mods)
    timings["oracle_s"] = round(time.time() - t0, 1)

    # ---- verdicts
    for c in reg_fails[:4]:
        run.violation({"tranche": "comp", "kind": "property-oracle", **c,
                       "explanation": "a program that was a failing input before a repair of this rule prints something else "
                                      "after the rewrite again"}, True)
    shown = Counter()
    for c in failures:
        shown[c["rule"]] += 1
        if shown[c["rule"]] <= 2:
            run.violation({"tranche": "comp", "kind": "property-oracle", "site": c["site"], "rule": c["rule"],
                           "source": c["source"], "output": c["output"], "diff": c["diff"],
                           "explanation": "executing the rewritten program gives a different call log / final value / "
                                          "exception status and no listed finding covers the shape"}, True)
    for c in problems[:3]:
        # failing-input search: the oracle does not need the output to be in the fragment
        prog = c.pop("program", None)
        d = None
        if prog is not None and c.get("output"):
            try:
                d = oracle_differs(prog, c["source"], c["output"])
            except SyntaxError:
                d = {"after": "does not parse"}
        if d:
            run.violation({"tranche": "comp", "kind": "property-oracle", "site": "fixes." + RULES[c["rule"]], **c, "diff": d,
                           "explanation": "the output of the rule is outside the fragment and behaves differently"}, True)
        else:
            run.violation({"tranche": "comp", "kind": "rule-output-outside-fragment", "site": "fixes." + RULES[c["rule"]], **c,
                           "kernel": "RulesCompModel", "explanation": "the real rule raised or produced text outside the fragment"},
                          False)
    if not failures:
        for d in disagreements[:5]:
            # failing-input search: the oracle on exactly this program, over all valuations
            src, out = d["source"], d["impl_output"]
            diff = oracle_differs(T.parse_prog(src), src, out) if out != src else None
            case = {"rule": d["rule"], "site": d["site"], "program": T.parse_prog(src), "source": src, "output": out, "diff": diff}
            if diff and match_finding(kf, case) is None:
                run.violation({"tranche": "comp", "kind": "property-oracle", **{k: v for k, v in case.items() if k != "program"},
                               "explanation": "found by the failing-input search after a rule-correspondence disagreement"}, True)
            else:
                run.violation({"tranche": "comp", "kind": "rule-correspondence", **d, "kernel": "RulesCompModel.apply_rule",
                               "explanation": "the real rule and its Gallina model disagree on this program; the property "
                                              "oracle finds no differing execution on the explored valuations"}, False)
        for d in sem_bad[:3]:
            run.violation({"tranche": "comp", "kind": "semantics-validation", **d, "kernel": "RulesCompModel.exec",
                           "explanation": "RulesCompModel.exec_block and CPython disagree on a printed program"}, False)
        for e in eval_errors[:2]:
            run.violation({"tranche": "comp", "kind": "model-evaluation-failed", **e, "kernel": "RulesCompModel"}, False)
    elif disagreements or sem_bad:
        run.notes.append(f"comp tranche: {len(disagreements)} correspondence / {len(sem_bad)} semantics disagreements "
                         "alongside the oracle failures")
    fired = [(c[0], c[3]) for c in cases if c[1] != c[2]]
    samples = [s for (_, s) in fired[:: max(1, len(fired) // 6)]][:6]
    timings["total_s"] = round(time.time() - t0, 1)
    return {
        "evaluations": len(cases) + len(sem) + n_oracle,
        "distinct_nontrivial": len(set(fired)),
        "rule": ("per rule: a deterministic family (every start value x leaf statement x element expression of the rule's "
                 "pattern; every for / if nesting shape x every kind of later use of the loop variable; the site in an if, "
                 "in an else, in a loop, with reads before / after) and seeded random programs; the real rule function runs "
                 "on the printed text, its output is parsed back and compared with five passes of the Gallina model; "
                 "non-trivial = the real rule changed the program; distinct by (rule, source). Semantics: CPython vs "
                 "exec_block on inputs and outputs under 2 valuations. Oracle: before / after under 5 valuations."),
        "samples": samples,
        "modelled_rules": MODELLED, "rules_with_model": MODELLED,
        "histogram": dict(hist), "rule_cases": len(cases), "semantic_cases": len(sem), "semantic_gaps": sem_gap,
        "semantic_outside_domain": n_outside, "semantic_mismatches": len(sem_bad),
        "correspondence_disagreements": len(disagreements), "oracle_cases": n_oracle, "oracle_failures": len(failures),
        "implementation_problems": len(problems), "regression_programs": len(REGRESSIONS),
        "regression_failures": len(reg_fails), "timings_cumulative": timings,
    }


# (rule function, source): inputs of repaired defects that are outside the fragment of the model (class bodies, yield, :=, async,
# rebound builtins, lazily consumed generators): the real rule runs on the text, before / after are executed by CPython and
# must print the same
REGRESSIONS: list = [
    # a54118b: loops in class bodies
    ("replace_for_loops_with_set_list_comp", "class A:\n    k = 2\n    res = []\n    for x in range(3):\n        res.append(x * k)\nprint(A.res, A.x)\n"),
    ("replace_for_loops_with_dict_comp", "class A:\n    k = 2\n    res = {}\n    for x in range(3):\n        res[x] = x * k\nprint(A.res, A.x)\n"),
    ("replace_listcomp_append_with_plus", "class A:\n    k = 2\n    res = [0]\n    for x in range(3):\n        res.append(x * k)\nprint(A.res)\n"),
    ("replace_setcomp_add_with_union", "class A:\n    k = 2\n    res = {0}\n    for x in range(3):\n        res.add(x * k)\nprint(sorted(A.res))\n"),
    ("replace_nested_loops_with_set_list_comp", "class A:\n    k = [1, 2]\n    res = []\n    for x in range(2):\n        for y in k:\n            res.append(x * y)\nprint(A.res)\n"),
    # fa920d7: yield and := cannot move into a comprehension
    ("replace_for_loops_with_set_list_comp", "def g(y):\n    result = []\n    for x in y:\n        result.append((yield x))\n    return result\nprint(list(g([1, 2])))\n"),
    ("replace_for_loops_with_set_list_comp", "def g(y):\n    result = []\n    for x in y:\n        if (x := x + 1):\n            result.append(x)\n    return result\nprint(g([1, -1, 2]))\n"),
    # 4d244a8: async for
    ("replace_nested_loops_with_set_list_comp", "import asyncio\nasync def agen():\n    yield [1, 2]\n    yield [3]\nasync def main():\n    res = []\n    async for x in agen():\n        res.extend(x)\n    print(res)\nasyncio.run(main())\n"),
    # 05d63ff: := inside the lambda
    ("replace_map_lambda_with_comp", "y = 0\nprint(list(map(lambda x: (y := x), [1, 2])))\nprint(y)\n"),
    ("replace_filter_lambda_with_comp", "y = 0\nprint(list(filter(lambda x: (y := x), [1, 2])))\nprint(y)\n"),
    # 7de4ae7: the builtin name is rebound
    ("remove_redundant_comprehensions", "def f(xs):\n    list = [x for x in xs]\n    return list\nprint(f((1, 2)))\n"),
    # f6bcd55: eager comprehension inside a lazy generator
    ("merge_nested_comprehensions", "a = [1, 2, 3]\ng = (x * 2 for x in [y for y in a if y])\na.append(4)\nprint(list(g))\n"),
    # 6bdbcbc (own repair, kept as a text-level program too): variable capture
    ("merge_nested_comprehensions", "a = [[1, 2], [3]]\nz = 9\nprint([(x, z) for x in [y for z in a for y in z]])\n"),
]


def run_text(src: str) -> str:
    import contextlib
    import io
    out = io.StringIO()
    try:
        with contextlib.redirect_stdout(out), contextlib.redirect_stderr(io.StringIO()):
            exec(compile(src, "<r>", "exec"), {"__name__": "r"})
    except BaseException as e:  # noqa
        return out.getvalue() + f"<raised {type(e).__name__}>"
    return out.getvalue()


def check_regressions(mods):
    fails = []
    for fname, src in REGRESSIONS:
        mods["core"].parse.cache_clear()
        try:
            with common.quiet():
                new = getattr(mods["fixes"], fname)(src)
        except Exception as e:  # noqa
            new = None
            after = f"<the rule raised {type(e).__name__}: {e}>"
        mods["core"].parse.cache_clear()
        before = run_text(src)
        if new is not None:
            after = run_text(new)
        if before != after:
            fails.append({"site": "fixes." + fname, "source": src, "output": new,
                          "diff": {"stdout_before": before, "stdout_after": after}})
    return fails


# (finding id, rule id, source): fixed witness programs, re-run on every check
WITNESSES: list = [
    ("F02comp-1", "RChainedComps", "v9 = [f0(v2) for v2 in [v2 for v2 in v3 if f4(v2)]]\n"),
    ("F02comp-2", "RNestedComps", "v9 = [f0(v2) for v2 in [v4 for v4 in v3 if f4(v4)]]\n"),
    ("F02comp-3", "RNestedLoops", "for v2 in v3:\n    v1.extend(f5(v2))\n"),
    ("F02comp-4", "RPlus", "v1 = 1 + 2\nfor v2 in v3:\n    v1.append(v2)\n"),
    ("F02comp-5", "RUnion", "v1 = 1 | 2\nfor v2 in v3:\n    v1.add(v2)\n"),
    ("F02comp-6", "RSetList", "v1 = []\nfor v2 in v8:\n    for v4 in v4:\n        v1.append(v4)\n"),
]

TRUSTED_BASE = [
    "term <-> Python text printer (through ast.unparse) and ast reader in harness/c02_comp_terms.py (round trip asserted "
    "on every case)",
    "RulesCompModel.eval / exec (value semantics: immutable list / set / dict values, `x.append(e)` rebinds x) are "
    "definitions, validated against CPython (final value of every name, call log, exception status) on the inputs and "
    "outputs of the fired cases that are free of aliasing",
    "opaque calls see their arguments only (not the variables of the program): two programs with the same call log "
    "and the same final values behave alike",
]
UNMODELLED = ["fixes.inline_math_comprehensions (executed by the sweep only; findings F02-59)",
              "loop -> comprehension rules: async loops, attribute / subscript accumulators (`self.x.append`), nested "
              "tuple targets, generator expressions as iterables of a clause (evaluated eagerly by the model)"]
ASSUMPTIONS = [
    "comp tranche: no floats (sum() of floats is not a left fold in CPython >= 3.12, finding F02-55), no strings "
    "beyond a / aa, no user classes; sets iterate in insertion order in the model (results are compared as sets)",
    "comp tranche: the statement rules are verified at a site followed by arbitrary code (T02c_*_in_context); their "
    "placement inside enclosing loops / ifs is modelled and checked by the correspondence, not proved",
]


def replay(mods, data) -> int:
    src, rid = data.get("source"), data.get("rule")
    if src and rid is None and str(data.get("site", "")).startswith("fixes."):
        # a regression program (text level)
        with common.quiet():
            out = getattr(mods["fixes"], data["site"].split(".", 1)[1])(src)
        before, after = run_text(src), run_text(out)
        print("input:\n" + src + "output now:\n" + out + f"stdout before: {before!r}\nstdout after:  {after!r}")
        return 1 if before != after else 0
    if not src or rid not in RULES:
        print(json.dumps({k: v for k, v in data.items() if k in ("kind", "explanation", "site")}, indent=1))
        return 0
    out = real_apply(mods, rid, src)
    print("input:\n" + src + "output now:\n" + out)
    try:
        d = oracle_differs(T.parse_prog(src), src, out) if out != src else None
    except Unsupported as e:
        print("outside the fragment:", e)
        return 0
    print("oracle:", d)
    return 1 if d else 0
