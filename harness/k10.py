"""K10 helpers shared by c07.py / c08.py: Python source <-> SurfaceModel terms, the surface oracle,
module generators, the real deleting/renaming rules."""
from __future__ import annotations

import ast
import itertools
import re

from . import common
from .common import gbool, glist

HEADER = ("From Coq Require Import List Bool String.\nImport ListNotations.\n"
          "Require Import Pyrefact.Base Pyrefact.SurfaceModel.\nOpen Scope string_scope.\nOpen Scope list_scope.\n")

_IDENT = re.compile(r"^[A-Za-z0-9_.*]*$")


def gname(s: str) -> str:
    if not _IDENT.match(s):
        raise ValueError(f"name outside the modelled alphabet: {s!r}")
    return '"%s"' % s


def gnames(names) -> str:
    return glist(sorted(names), gname)


def gpairs(pairs) -> str:
    return glist(sorted(pairs), lambda p: f"({gname(p[0])}, {gname(p[1])})")


# ---------------------------------------------------------------------------------------------
# ast -> model terms


def t_target(t) -> str:
    if isinstance(t, ast.Name):
        return f"(TName {gname(t.id)})"
    if isinstance(t, ast.Tuple):
        return f"(TTuple {glist(t.elts, t_target)})"
    if isinstance(t, ast.List):
        return f"(TList {glist(t.elts, t_target)})"
    if isinstance(t, ast.Starred):
        return f"(TStarred {t_target(t.value)})"
    if isinstance(t, ast.Attribute):
        base = t.value.id if isinstance(t.value, ast.Name) else "expr"
        return f"(TAttr {gname(base)} {gname(t.attr)})"
    if isinstance(t, ast.Subscript):
        base = t.value.id if isinstance(t.value, ast.Name) else "expr"
        return f"(TSub {gname(base)})"
    raise ValueError(ast.dump(t))


def _is_static(fd) -> bool:
    return any(isinstance(d, ast.Name) and d.id == "staticmethod" for d in fd.decorator_list)


def t_member(n) -> str:
    if isinstance(n, (ast.FunctionDef, ast.AsyncFunctionDef)):
        return f"(MDef {gname(n.name)} {gbool(_is_static(n))})"
    if isinstance(n, ast.ClassDef):
        return f"(MClass {gname(n.name)})"
    if isinstance(n, ast.Assign):
        return f"(MAssign {glist(n.targets, t_target)})"
    if isinstance(n, ast.AnnAssign):
        return f"(MAnnAssign {t_target(n.target)} {gbool(n.value is not None)})"
    if isinstance(n, ast.AugAssign):
        return f"(MAugAssign {t_target(n.target)})"
    return "MOther"


def t_item(n) -> str:
    if isinstance(n, ast.FunctionDef):
        return f"(Def {gname(n.name)} false)"
    if isinstance(n, ast.AsyncFunctionDef):
        return f"(Def {gname(n.name)} true)"
    if isinstance(n, ast.ClassDef):
        return f"(Class {gname(n.name)} {gbool(bool(n.bases))} {glist(n.body, t_member)})"
    if isinstance(n, ast.Assign):
        return f"(Assign {glist(n.targets, t_target)})"
    if isinstance(n, ast.AnnAssign):
        return f"(AnnAssign {t_target(n.target)} {gbool(n.value is not None)})"
    if isinstance(n, ast.AugAssign):
        return f"(AugAssign {t_target(n.target)})"
    if isinstance(n, (ast.Import, ast.ImportFrom)):
        return f"(Import {glist([a.asname or a.name for a in n.names], gname)})"
    return "Other"


def t_module(source: str) -> str:
    return glist(ast.parse(source).body, t_item)


# ---------------------------------------------------------------------------------------------
# the property's oracle (independent of the model: plain AST reading)


def _store_names(t):
    return [n.id for n in ast.walk(t) if isinstance(n, ast.Name) and isinstance(n.ctx, ast.Store)]


def body_surface(body) -> set:
    s = set()
    for n in body:
        if isinstance(n, (ast.FunctionDef, ast.AsyncFunctionDef, ast.ClassDef)):
            s.add(n.name)
        elif isinstance(n, ast.Assign):
            for t in n.targets:
                s.update(_store_names(t))
        elif isinstance(n, ast.AnnAssign) and n.value is not None:
            s.update(_store_names(n.target))
        elif isinstance(n, ast.AugAssign):
            s.update(_store_names(n.target))
    return s


def surface(source: str):
    """(top-level names, {(class, member)}) the property speaks about."""
    m = ast.parse(source)
    top = body_surface(m.body)
    mem = set()
    for n in m.body:
        if isinstance(n, ast.ClassDef):
            mem |= {(n.name, x) for x in body_surface(n.body)}
    return top, mem


def _scope_bound(body) -> set:
    """every name bound in this scope by any statement (lenient reading of the OUTPUT)."""
    out = set()

    def visit(n):
        if isinstance(n, (ast.FunctionDef, ast.AsyncFunctionDef, ast.ClassDef)):
            out.add(n.name)
            return
        if isinstance(n, (ast.Lambda, ast.ListComp, ast.SetComp, ast.DictComp, ast.GeneratorExp)):
            return
        if isinstance(n, ast.Name) and isinstance(n.ctx, ast.Store):
            out.add(n.id)
        if isinstance(n, (ast.Import, ast.ImportFrom)):
            for a in n.names:
                out.add((a.asname or a.name).split(".")[0])
        for c in ast.iter_child_nodes(n):
            visit(c)

    for st in body:
        visit(st)
    return out


def bound_after(source: str):
    m = ast.parse(source)
    top = _scope_bound(m.body)
    mem = set()
    for n in ast.walk(m):
        if isinstance(n, ast.ClassDef):
            mem |= {(n.name, x) for x in _scope_bound(n.body)}
    return top, mem


def lost(source: str, output: str):
    """surface names of `source` no longer bound in `output`."""
    t0, m0 = surface(source)
    t1, m1 = bound_after(output)
    return sorted(t0 - t1), sorted(m0 - m1)


# ---------------------------------------------------------------------------------------------
# the real rules


RULES = ["RUndefine", "RPointless", "RDeleteUnused", "RSelfCls", "RMoveStatic", "RDuplicate", "RAlign", "RUnreachable"]


def run_rule(mods, rule: str, source: str, P) -> str:
    fixes, oo, core = mods["fixes"], mods["object_oriented"], mods["core"]
    core.parse.cache_clear()
    P = frozenset(P)
    with common.quiet():
        if rule == "RUndefine":
            return fixes.undefine_unused_variables(source, preserve=P)
        if rule == "RPointless":
            return fixes.delete_pointless_statements(source)
        if rule == "RDeleteUnused":
            return fixes.delete_unused_functions_and_classes(source, preserve=P)
        if rule == "RSelfCls":
            return oo.remove_unused_self_cls(source)
        if rule == "RMoveStatic":
            return oo.move_staticmethod_static_scope(source, preserve=P)
        if rule == "RDuplicate":
            return fixes.remove_duplicate_functions(source, preserve=P)
        if rule == "RUnreachable":
            return fixes.delete_unreachable_code(source, preserve=P)
        if rule == "RAlign":
            return fixes.align_variable_names_with_convention(source, preserve=P)
    raise ValueError(rule)


def rule_case(rule, P, src, out, exact) -> str:
    return f"(mkRuleCase {rule} {gnames(P)} {t_module(src)} {t_module(out)} {gbool(exact)})"


def format_code(mods, source, **kw) -> str:
    mods["core"].parse.cache_clear()
    with common.quiet():
        return mods["main"].format_code(source, **kw)


# ---------------------------------------------------------------------------------------------
# generators: statement pools.  Every text is a complete, executable top-level statement group.

VAR_NAMES = ["someVar", "CONST_A", "lower_b", "_private", "xX"]
TARGET_FORMS = [          # (text with {0},{1},{2} names, number of names)
    ("{0} = 1\n", 1),
    ("{0}, {1} = 1, 2\n", 2),
    ("{0}, *{1} = 1, 2, 3\n", 2),
    ("*{0}, {1} = 1, 2, 3\n", 2),
    ("[{0}, {1}] = 1, 2\n", 2),
    ("({0}, ({1}, {2})) = 1, (2, 3)\n", 3),
    ("[{0}, [*{1}]] = 1, (2, 3)\n", 2),
    ("{0} = {1} = 7\n", 2),
    ("{0}: int = 3\n", 1),
    ("{0}: int\n", 1),
    ("{0} = 1\n{0} += 1\n", 1),
    ("holder = type('H', (), {{}})()\nholder.{0} = 3\n", 1),
    ("table = {{}}\ntable['k'], {0} = 3, 4\n", 1),
    ("holder2 = type('H', (), {{}})()\nholder2.attr, {0} = 3, 4\n", 1),
]

CLASS_MEMBERS = [
    "    {0} = 3\n",
    "    {0}: int = 4\n",
    "    {0}, *{1} = 1, 2, 3\n",
    "    def {0}(self):\n        return self\n",
    "    def {0}(self):\n        return 2\n",
    "    @staticmethod\n    def {0}(x):\n        return x + 1\n",
    "    @classmethod\n    def {0}(cls):\n        return cls\n",
    "    async def {0}(self):\n        return self\n",
    "    class {0}:\n        pass\n",
    "    def __init__(self):\n        self.{0} = 1\n",
    "    __slots__ = ()\n",
]
MEMBER_NAMES = ["myAttr", "other_attr", "myMethod", "stat", "Inner", "noSelf"]


def single_statements():
    """seed-independent pool of top-level statement groups with unconventional / unused / duplicate /
    static definitions and every assignment-target form."""
    pool = []
    for form, k in TARGET_FORMS:
        for names in ([VAR_NAMES[:k]] if k > 1 else [[n] for n in VAR_NAMES[:3]]):
            pool.append(form.format(*names))
    pool += [
        "def unusedFunc():\n    return 1\n",
        "def used_func():\n    return 1\nprint(used_func())\n",
        "async def asyncFunc():\n    return 1\n",
        "def _private_func():\n    return 1\n",
        "class unused_class:\n    pass\n",
        "class Child(dict):\n    childAttr = 3\n    def childMethod(self):\n        return 1\n",
        "def dupOne():\n    return 1 + 2\ndef dupTwo():\n    return 1 + 2\n",
        "def dupA(x):\n    return x + 2\ndef dupB(y):\n    return y + 2\nprint(dupB(3))\n",
        "class Holder:\n    @staticmethod\n    def statFn():\n        return 1\nprint(Holder.statFn())\n",
        "class Outer:\n    class Inner:\n        innerAttr = 1\n        def innerMethod(self):\n            return 1\n",
        "class Service:\n    async def ping(self):\n        return 1\n    async def usedAsync(self):\n        return await self.ping()\n",
        "class Hooks:\n    @staticmethod\n    async def on_start():\n        return 2\n    @classmethod\n    async def onStop(cls):\n        return 3\nprint(Hooks.on_start)\n",
        "import os\n",
        "for loop_i in range(2):\n    pass\n",
        "print(1)\n",
        "lam = lambda q: q + 1\n",
        "__all__ = ['x']\n",
    ]
    for k in range(1, 4):
        for combo in itertools.combinations(range(len(CLASS_MEMBERS)), k):
            if k == 3 and (combo[0] + combo[1] + combo[2]) % 5:
                continue
            names = iter(MEMBER_NAMES)
            body = ""
            for ci in combo:
                tmpl = CLASS_MEMBERS[ci]
                body += tmpl.format(*[next(names) for _ in range(tmpl.count("{0}") and (2 if "{1}" in tmpl else 1))])
            pool.append("class MyClass:\n" + body)
    return pool


def random_module(rnd, pool) -> str:
    k = rnd.randint(2, 5)
    parts = [rnd.choice(pool) for _ in range(k)]
    if rnd.random() < 0.3:
        t, m = surface("".join(parts))
        if t:
            parts.append("print(%s)\n" % ", ".join(sorted(t)[: rnd.randint(1, 3)]))
    return "".join(parts)


def keys_of(source: str):
    """candidate preserve keys of a module: names, member names, Class.member."""
    t, m = surface(source)
    return sorted(t | {f for _, f in m} | {f"{c}.{f}" for c, f in m})


def preserve_sets(source: str, rnd=None, single=True, quick=True):
    """preserve sets to try on a module: for a single pool statement all subsets of its keys (<= 4 keys) or
    {}, all, every singleton; for composed modules {}, all, every other key (+ seeded random subsets)."""
    keys = keys_of(source)
    if single and len(keys) <= 4:
        return [list(c) for k in range(len(keys) + 1) for c in itertools.combinations(keys, k)]
    sets = [[], keys, keys[::2]]
    if single or not quick:
        sets += [[k] for k in keys[: (8 if single else 3)]]
    if rnd is not None and len(keys) > 1:
        for _ in range(1 if quick else 2):
            sets.append(sorted(rnd.sample(keys, rnd.randint(1, len(keys) - 1))))
    return sets


# ---------------------------------------------------------------------------------------------
# generic pipeline bisection with a caller-supplied badness predicate on a stage's source text


def bisect_pipeline(mods, runner, bad, first_input_site="main._format_code:single_run_fixes"):
    """run `runner()` (which formats something through pyrefact.main) with every public rule function of the
    modules main uses wrapped; report the first stage whose input is not bad(...) but whose output is.
    If the source is already bad when it enters the first wrapped stage the chained single-run fixes
    (which processing.chain inspects and therefore cannot be wrapped) are reported."""
    import types as _types
    main = mods["main"]
    found, patched, seen_first = [], [], []
    memo = {}

    def is_bad(src):
        if src not in memo:
            try:
                memo[src] = bool(bad(src))
            except Exception:  # noqa
                memo[src] = False
        return memo[src]

    chained = {"deinterpolate_logging_args", "invalid_escape_sequence"}
    for modname in ("fixes", "object_oriented", "abstractions", "symbolic_math", "performance",
                    "performance_numpy", "performance_pandas"):
        mod = getattr(main, modname, None)
        if mod is None:
            continue
        for attr in dir(mod):
            fn = getattr(mod, attr)
            if attr.startswith("_") or attr in chained or not isinstance(fn, _types.FunctionType) \
                    or getattr(fn, "__module__", "") != mod.__name__:
                continue

            def make(fn=fn, name=f"{modname}.{attr}"):
                def wrapped(src, *a, **k):
                    if not seen_first and isinstance(src, str) and name != "fixes.fix_too_many_blank_lines" \
                            and name != "fixes.add_missing_imports":
                        seen_first.append(name)
                        if not found and is_bad(src):
                            found.append(first_input_site)
                    out = fn(src, *a, **k)
                    if not found and isinstance(src, str) and isinstance(out, str) and out != src:
                        if not is_bad(src) and is_bad(out):
                            found.append(name)
                    return out
                return wrapped
            patched.append((mod, attr, fn))
            setattr(mod, attr, make())
    try:
        mods["core"].parse.cache_clear()
        with common.quiet():
            runner()
    except Exception as e:  # noqa
        common.log(f"note: bisection run raised {type(e).__name__}: {e}")
    finally:
        for mod, attr, fn in patched:
            setattr(mod, attr, fn)
    return found[0] if found else None
