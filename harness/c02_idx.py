"""C02, tranche idx (coq/theories/RulesIdxModel.v + RulesIdxProofs.v): performance.replace_subscript_looping,
fixes.simplify_transposes (value semantics), fixes.inline_math_comprehensions (harness/c02_idx_inl.py, store semantics
of the perf tranche).

Plug-in of harness/c02.py:  check(run, mods, wd, rnd) -> dict.  On every run:
  * rule correspondence: fragment programs ('x = <value>' bindings + 'y = <expression>'; exhaustive small families +
    seeded random ones) are printed, the REAL rule is applied to the text, the result is parsed back into the
    fragment and compared in Coq with the model (rule_case_ok); outside the fragment -> rule-output-outside-fragment;
  * semantics validation: every input and output program runs under CPython and through RulesIdxModel.eval:
    exception class and the value of y (iterators by their elements) must agree;
  * property oracle (the failing-input search): before / after executed under CPython; a difference is reported
    unless a listed finding (site + structural predicate, SIGS below) covers it;
  * witness programs (text level, also outside the fragment) of the findings / repairs.
Findings of this tranche: F02idx-n (property=C02), reported here."""
from __future__ import annotations

import ast
import itertools
import json
import time
from collections import Counter

from . import common


class Unsupported(Exception):
    pass


NAMES = ["x", "i", "w", "k"]
X, I, W = 0, 1, 2


def join(x, i):
    return 100 + 10 * x + i


def name_txt(n: int) -> str:
    if n < len(NAMES):
        return NAMES[n]
    a, b = divmod(n - 100, 10)
    if n >= 100 and a < len(NAMES) and b < len(NAMES):
        return NAMES[a] + "_" + NAMES[b]
    raise Unsupported(f"name {n}")


def name_of(txt: str) -> int:
    if txt in NAMES:
        return NAMES.index(txt)
    a, _, b = txt.partition("_")
    if a in NAMES and b in NAMES:
        return join(NAMES.index(a), NAMES.index(b))
    raise Unsupported("name " + txt)


# ------------------------------------------------------------------------------------------------ printer (Python text)
def p_val(v) -> str:
    k = v[0]
    if k == "int":
        return str(v[1])
    if k == "list":
        return "[" + ", ".join(p_val(a) for a in v[1]) + "]"
    if k == "tup":
        return "(" + ", ".join(p_val(a) for a in v[1]) + ("," if len(v[1]) == 1 else "") + ")"
    if k == "iter":
        return "iter([" + ", ".join(p_val(a) for a in v[1]) + "])"
    if k == "dict":
        return "{" + ", ".join(f"{kk}: {p_val(a)}" for kk, a in v[1]) + "}"
    raise Unsupported(str(v))


def p_body(b, x, i) -> str:
    k = b[0]
    if k == "hole":
        if x is None:
            raise Unsupported("hole outside an index loop")
        return f"{name_txt(x)}[{name_txt(i)}]"
    if k == "int":
        return str(b[1])
    if k == "var":
        return name_txt(b[1])
    if k == "add":
        return f"({p_body(b[1], x, i)} + {p_body(b[2], x, i)})"
    if k == "idx0":
        return f"{p_body(b[1], x, i)}[0]"
    if k == "pair":
        return f"({p_body(b[1], x, i)}, {p_body(b[2], x, i)})"
    raise Unsupported(str(b))


def p_expr(e) -> str:
    k = e[0]
    if k == "var":
        return name_txt(e[1])
    if k == "sub":
        return f"[{p_body(e[3], e[1], e[2])} for {name_txt(e[2])} in range(len({name_txt(e[1])}))]"
    if k == "for":
        return f"[{p_body(e[3], None, None)} for {name_txt(e[1])} in {name_txt(e[2])}]"
    if k == "list":
        return f"list({p_expr(e[1])})"
    if k == "len":
        return f"len({p_expr(e[1])})"
    if k == "zip":
        return f"zip(*{p_expr(e[1])})"
    if k == "rows":
        return f"[list(r) for r in {p_expr(e[1])}]"
    raise Unsupported(str(e))


def p_env(en) -> str:
    return "".join(f"{name_txt(n)} = {p_val(v)}\n" for n, v in en)


def p_prog(en, e) -> str:
    return p_env(en) + "y = " + p_expr(e) + "\n"


# ------------------------------------------------------------------------------------------------ reader
def _is_name(n, txt=None):
    return isinstance(n, ast.Name) and (txt is None or n.id == txt)


def _call1(n, fname):
    return (isinstance(n, ast.Call) and _is_name(n.func, fname) and len(n.args) == 1 and not n.keywords)


def b_of(n, x, i):
    if isinstance(n, ast.Subscript):
        if _is_name(n.value) and _is_name(n.slice):
            if x is not None and name_of(n.value.id) == x and name_of(n.slice.id) == i:
                return ("hole",)
            raise Unsupported("subscript by a name")
        if isinstance(n.slice, ast.Constant) and n.slice.value == 0 and type(n.slice.value) is int:
            return ("idx0", b_of(n.value, x, i))
        raise Unsupported("subscript")
    if isinstance(n, ast.Constant) and type(n.value) is int:
        return ("int", n.value)
    if isinstance(n, ast.Name):
        return ("var", name_of(n.id))
    if isinstance(n, ast.BinOp) and isinstance(n.op, ast.Add):
        return ("add", b_of(n.left, x, i), b_of(n.right, x, i))
    if isinstance(n, ast.Tuple) and len(n.elts) == 2:
        return ("pair", b_of(n.elts[0], x, i), b_of(n.elts[1], x, i))
    raise Unsupported(type(n).__name__)


def e_of(n):
    if isinstance(n, ast.Name):
        return ("var", name_of(n.id))
    if _call1(n, "list"):
        return ("list", e_of(n.args[0]))
    if _call1(n, "len"):
        return ("len", e_of(n.args[0]))
    if _call1(n, "zip") and isinstance(n.args[0], ast.Starred):
        return ("zip", e_of(n.args[0].value))
    if isinstance(n, ast.ListComp) and len(n.generators) == 1:
        g = n.generators[0]
        if g.ifs or g.is_async or not isinstance(g.target, ast.Name):
            raise Unsupported("comprehension")
        if g.target.id == "r":
            if _call1(n.elt, "list") and _is_name(n.elt.args[0], "r"):
                return ("rows", e_of(g.iter))
            raise Unsupported("rows")
        if _call1(g.iter, "range") and _call1(g.iter.args[0], "len") and _is_name(g.iter.args[0].args[0]):
            x, i = name_of(g.iter.args[0].args[0].id), name_of(g.target.id)
            return ("sub", x, i, b_of(n.elt, x, i))
        if _is_name(g.iter):
            return ("for", name_of(g.target.id), name_of(g.iter.id), b_of(n.elt, None, None))
    raise Unsupported(type(n).__name__)


def parse_prog(src: str, env_txt: str):
    if not src.startswith(env_txt):
        raise Unsupported("bindings changed")
    root = ast.parse(src[len(env_txt):])
    if len(root.body) != 1 or not isinstance(root.body[0], ast.Assign) or len(root.body[0].targets) != 1 \
            or not _is_name(root.body[0].targets[0], "y"):
        raise Unsupported("shape")
    return e_of(root.body[0].value)


# ------------------------------------------------------------------------------------------------ Gallina printer
def gz(z):
    return f"({z})" if z < 0 else str(z)


def gn(n):
    return f"{n}%nat"


def g_val(v) -> str:
    k = v[0]
    if k == "int":
        return f"VInt {gz(v[1])}"
    if k in ("list", "tup", "iter"):
        c = {"list": "VList", "tup": "VTup", "iter": "VIter"}[k]
        return f"{c} [" + "; ".join("(" + g_val(a) + ")" for a in v[1]) + "]"
    if k == "dict":
        return "VDict [" + "; ".join(f"({gz(kk)}, {g_val(a)})" for kk, a in v[1]) + "]"
    raise Unsupported(str(v))


def g_body(b) -> str:
    k = b[0]
    if k == "hole":
        return "BHole"
    if k == "int":
        return f"BInt {gz(b[1])}"
    if k == "var":
        return f"BVar {gn(b[1])}"
    c = {"add": "BAdd", "idx0": "BIdx0", "pair": "BPair"}[k]
    return c + "".join(f" ({g_body(a)})" for a in b[1:])


def g_expr(e) -> str:
    k = e[0]
    if k == "var":
        return f"EVar {gn(e[1])}"
    if k in ("sub", "for"):
        return f"{'ESub' if k == 'sub' else 'EFor'} {gn(e[1])} {gn(e[2])} ({g_body(e[3])})"
    c = {"list": "EListOf", "len": "ELen", "zip": "EZip", "rows": "ERows"}[k]
    return f"{c} ({g_expr(e[1])})"


def g_env(en) -> str:
    # the LAST binding of a name wins in Python; lookup takes the first pair
    return "[" + "; ".join(f"({gn(n)}, {g_val(v)})" for n, v in reversed(en)) + "]"


HEADER = ("From Coq Require Import List ZArith Bool.\nFrom Pyrefact Require Import Base RulesIdxModel.\n"
          "Import ListNotations.\nOpen Scope Z_scope.\n")
EXC_CODE = {"TypeError": 1, "IndexError": 2, "KeyError": 3, "NameError": 4}


# ------------------------------------------------------------------------------------------------ CPython side
def _render(v, seen):
    if type(v) is int:
        return ("int", v)
    if type(v) is list:
        return ("list", [_render(a, seen) for a in v])
    if type(v) is tuple:
        return ("tup", [_render(a, seen) for a in v])
    if type(v) is dict:
        if not all(type(k) is int for k in v):
            raise Unsupported("key")
        return ("dict", [(k, _render(a, seen)) for k, a in v.items()])
    if hasattr(v, "__next__"):
        if id(v) in seen:
            raise Unsupported("iterator seen twice")
        seen.add(id(v))
        return ("iter", [_render(a, seen) for a in v])
    raise Unsupported(type(v).__name__)


def run_py(src: str):
    """-> (exception class name or None, rendered value of y or None); Unsupported when y cannot be rendered"""
    import warnings
    g = {"__name__": "idx"}
    try:
        with warnings.catch_warnings():
            warnings.simplefilter("ignore")
            exec(compile(src, "<idx>", "exec"), g)
    except Exception as e:  # noqa
        return type(e).__name__, None
    return None, _render(g["y"], set())


def observation(src: str):
    try:
        return run_py(src)
    except Unsupported as e:
        return ("unsupported", str(e))


# ------------------------------------------------------------------------------------------------ families
def A(z):
    return ("int", z)


def L(*a):
    return ("list", list(a))


def T(*a):
    return ("tup", list(a))


M22 = L(L(A(1), A(2)), L(A(3), A(4)))
X_SEQ = [L(A(1), A(2)), T(A(5), A(6)), M22, L(L(A(1), A(2)), L(A(3))), L(), L(T(A(1), A(2)), T(A(3), A(4))),
         ("dict", [(0, A(5)), (1, A(6))]), ("dict", [(1, A(5))]), ("iter", [A(5), A(6)]), A(3), None]
X_MAT = [M22, L(L(A(1), A(2)), L(A(3))), L(), L(L(), L()), T(T(A(1), A(2)), T(A(3), A(4))),
         L(T(A(1), A(2)), T(A(3), A(4))), ("iter", [L(A(1), A(2)), L(A(3), A(4))]),
         ("iter", [T(A(1), A(2)), T(A(3), A(4))]), A(3), L(A(1), A(2)), L(L(A(1), A(2)), A(3)),
         L(("dict", [(1, A(5)), (2, A(6))]), ("dict", [(3, A(7)), (4, A(8))])), None,
         L(L(A(1), A(2)), L(A(3), A(4)), L(A(5), A(6))), L(L(A(1), A(2), A(3))),
         L(L(L(A(1)), L(A(2))), L(L(A(3)), L(A(4)))), L(L(A(1)), L(A(2), A(3)), L(A(4), A(5), A(6)))]
XI = join(X, I)
ATOMS = [("hole",), ("int", 1), ("var", X), ("var", I), ("var", W), ("var", XI)]


def bodies():
    out = list(ATOMS)
    for a, b in itertools.product(ATOMS, ATOMS):
        out.append(("add", a, b))
        out.append(("pair", a, b))
    for a in ATOMS:
        out.append(("idx0", a))
        out.append(("add", ("idx0", ("hole",)), a))
        out.append(("pair", ("add", ("hole",), ("int", 1)), a))
        out.append(("idx0", ("pair", a, ("hole",))))
    out += [("idx0", ("idx0", ("hole",))), ("add", ("hole",), ("add", ("hole",), ("int", 1))),
            ("add", ("int", 1), ("add", ("int", 2), ("hole",))), ("pair", ("idx0", ("var", X)), ("hole",))]
    return out


def b_mentions(b, n):
    return (b[0] == "var" and b[1] == n) or any(b_mentions(a, n) for a in b[1:] if isinstance(a, tuple))


def b_holes(b):
    return 1 if b[0] == "hole" else sum(b_holes(a) for a in b[1:] if isinstance(a, tuple))


def mk_env(xv, xi=None):
    en = [(W, A(10))]
    if xv is not None:
        en.append((X, xv))
    if xi is not None:
        en.append((XI, xi))
    return en


def fam_sub():
    for b in bodies():
        for xv in X_SEQ:
            yield mk_env(xv), ("sub", X, I, b)
            if b_mentions(b, XI):
                yield mk_env(xv, A(10)), ("sub", X, I, b)
    for xv in X_SEQ[:4]:
        for ctx in ("list", "len", "rows", "zip"):
            yield mk_env(xv), (ctx, ("sub", X, I, ("hole",)))
            yield mk_env(xv), (ctx, ("sub", X, I, ("pair", ("hole",), ("int", 1))))
        yield mk_env(xv), ("for", XI, X, ("add", ("var", XI), ("int", 1)))
        yield mk_env(xv), ("sub", W, 3, ("add", ("hole",), ("int", 1)))


def fam_tr():
    ctxs = [lambda e: e, lambda e: ("list", e), lambda e: ("rows", e), lambda e: ("len", e),
            lambda e: ("list", ("rows", e)), lambda e: ("zip", ("rows", e))]
    for xv in X_MAT:
        for depth in range(6):
            e = ("var", X)
            for _ in range(depth):
                e = ("zip", e)
            for c in ctxs:
                yield mk_env(xv), c(e)
        yield mk_env(xv), ("zip", ("zip", ("rows", ("zip", ("zip", ("var", X))))))
        yield mk_env(xv), ("rows", ("zip", ("zip", ("sub", X, I, ("hole",)))))
        yield mk_env(xv), ("rows", ("zip", ("zip", ("sub", X, I, ("add", ("hole",), ("hole",))))))


def rand_val(rnd, depth):
    if depth == 0 or rnd.random() < 0.3:
        return A(rnd.randint(-2, 9))
    k = rnd.choice(["list", "list", "list", "tup", "iter", "dict"])
    n = rnd.randint(0, 3)
    if k == "dict":
        keys = rnd.sample(range(0, 4), n)
        return ("dict", [(kk, rand_val(rnd, depth - 1)) for kk in keys])
    if rnd.random() < 0.5 and depth >= 2:    # rectangular
        w = rnd.randint(0, 3)
        inner = rnd.choice(["list", "tup"])
        return (k, [(inner, [A(rnd.randint(0, 9)) for _ in range(w)]) for _ in range(n)])
    return (k, [rand_val(rnd, depth - 1) for _ in range(n)])


def rand_body(rnd, depth, names):
    if depth == 0 or rnd.random() < 0.35:
        r = rnd.random()
        if r < 0.45:
            return ("hole",)
        if r < 0.6:
            return ("int", rnd.randint(0, 3))
        return ("var", rnd.choice(names))
    k = rnd.choice(["add", "add", "pair", "idx0"])
    if k == "idx0":
        return ("idx0", rand_body(rnd, depth - 1, names))
    return (k, rand_body(rnd, depth - 1, names), rand_body(rnd, depth - 1, names))


def rand_expr(rnd, depth):
    if depth == 0 or rnd.random() < 0.25:
        r = rnd.random()
        if r < 0.4:
            return ("var", rnd.choice([X, X, W, 3]))
        x, i = rnd.choice([(X, I), (X, I), (X, 3), (W, I)])
        return ("sub", x, i, rand_body(rnd, 2, [X, I, W, 3, join(x, i)]))
    k = rnd.choice(["zip", "zip", "zip", "list", "rows", "len"])
    return (k, rand_expr(rnd, depth - 1))


def rand_prog(rnd):
    en = []
    for n in (W, X, 3, XI):
        if rnd.random() < (0.85 if n in (W, X) else 0.3):
            en.append((n, rand_val(rnd, 3 if n == X else 2)))
    return en, rand_expr(rnd, rnd.randint(1, 5))


# ------------------------------------------------------------------------------------------------ findings
RULES = {"RSub": "performance.replace_subscript_looping", "RTr": "fixes.simplify_transposes"}
MODELLED = list(RULES.values()) + ["fixes.inline_math_comprehensions"]


def has_iter(v) -> bool:
    return v[0] == "iter" or (v[0] in ("list", "tup") and any(has_iter(a) for a in v[1])) \
        or (v[0] == "dict" and any(has_iter(a) for _, a in v[1]))


def aliases_iterator(en, e) -> bool:
    """an element expression mentions a variable that holds an iterator: the same one-shot object in every element,
    which the value semantics (an iterator = its elements) does not describe"""
    def names(b):
        if b[0] == "var":
            yield b[1]
        for a in b[1:]:
            if isinstance(a, tuple):
                yield from names(a)
    return any(x[0] in ("sub", "for") and any(has_iter(_lookup(en, n) or A(0)) for n in names(x[3])) for x in walk_e(e))


def walk_e(e):
    yield e
    if e[0] in ("list", "len", "zip", "rows"):
        yield from walk_e(e[1])


def _lookup(en, n):
    for m, v in reversed(en):
        if m == n:
            return v
    return None


def _rect_value(v):
    """the guard transp_ok of the model on a rendered CPython value"""
    if v[0] == "int":
        return True
    rows = [(a if a[0] != "dict" else ("list", [A(k) for k, _ in a[1]])) for a in
            (v[1] if v[0] != "dict" else [A(k) for k, _ in v[1]])]
    if any(r[0] == "int" for r in rows):
        return True
    return not rows or (len(rows[0][1]) > 0 and all(len(r[1]) == len(rows[0][1]) for r in rows))


def _zz_outside_guard(case):
    """a zip(*zip(*e)) redex that is not directly under [list(r) for r in ..], or whose e is not rectangular"""
    def redexes(e, parent):
        if e[0] == "zip" and e[1][0] == "zip":
            yield e[1][1], parent
            yield from redexes(e[1][1], None)
        elif e[0] in ("list", "len", "zip", "rows"):
            yield from redexes(e[1], e[0])
    for inner, parent in redexes(case["p"], None):
        if parent != "rows":
            return True
        try:
            exc, v = run_py(p_prog(case["env"], inner))
        except Unsupported:
            return True
        if exc is None and not _rect_value(v):
            return True
    return False


SIGS = {
    # x is a dictionary or an iterator (or anything but a list / tuple that can be iterated)
    "subscript_of_non_sequence": lambda c: c["rule"] == "RSub" and any(
        e[0] == "sub" and (_lookup(c["env"], e[1]) or A(0))[0] in ("dict", "iter") for e in walk_e(c["p"])),
    "zip_zip_not_identity": lambda c: c["rule"] == "RTr" and _zz_outside_guard(c),
}


def match_finding(kf, case):
    site = RULES[case["rule"]]
    for f in kf:
        if f.kind != "finding" or f.fields.get("site") != site:
            continue
        pred = SIGS.get(f.fields.get("sig", ""))
        if pred is not None and pred(case):
            return f
    return None


_F = "def f():\n    print('f')\n    return [1, 2]\n"
WITNESSES = [
    # (id, site, source, expected difference now: True = finding still open, False = repaired / must agree)
    ("F02idx-3", "performance.replace_subscript_looping", _F + "print([f()[i] for i in range(len(f()))])\n", True),
    ("F02idx-4", "performance.replace_subscript_looping", "x = [1, 2, 3, 4]\ntry:\n    print([x.pop() + x[i] for i in range(len(x))])\nexcept IndexError:\n    print('short', x)\n", True),
    ("F02idx-1", "performance.replace_subscript_looping", "x = {1: 'a'}\ntry:\n    print([x[i] for i in range(len(x))])\nexcept KeyError:\n    print('no key 0')\n", True),
    ("F02idx-2", "performance.replace_subscript_looping", "x = [1, 2]\nx_i = 10\nprint([x[i] + x_i for i in range(len(x))])\n", False),
    ("F02idx-2", "performance.replace_subscript_looping", "x = [1, 2]\nprint([x[i] + x_i for i in range(len(x))] if x == [] else 0)\n", False),
    ("F02idx-5", "fixes.simplify_transposes", "x = [[1, 2], [3, 4]]\nprint(list(zip(*zip(*x))))\n", True),
    ("F02idx-5", "fixes.simplify_transposes", "x = [[1, 2], [3]]\nfor r in zip(*zip(*x)):\n    print(list(r))\n", True),
    ("F02idx-6", "fixes.inline_math_comprehensions", _F + "y = list(f())\nz = sum(y)\nprint(z)\n", False),
    ("F02idx-6", "fixes.inline_math_comprehensions", _F + "y = [c + 1 for c in f()]\nw = 0\nz = len(y)\nprint(z)\n", False),
    ("F02idx-7", "fixes.inline_math_comprehensions", "b = iter([1, 2, 3])\ny = list(b)\nz = sum(y)\nprint(z)\n", True),
    ("13da1a3", "fixes.inline_math_comprehensions", "a = [1, 2, 3]\nb = a\ny = [i * 2 for i in a]\nb.append(4)\nz = sum(y)\nprint(z)\n", False),
    ("13da1a3", "fixes.inline_math_comprehensions", "a = [1, 2, 3]\ndef grow():\n    a.append(4)\ny = [i * 2 for i in a]\ngrow()\nz = sum(y)\nprint(z)\n", False),
    ("eca6cd4", "fixes.inline_math_comprehensions", "y = [1]\ny += [2, 3]\nz = sum(y)\nprint(z)\n", False),
    ("eca6cd4", "fixes.inline_math_comprehensions", "y = [i for i in range(3)]\ny = 3\ntry:\n    z = sum(y)\nexcept TypeError:\n    z = -1\nprint(z)\n", False),
    ("inline-ok", "fixes.inline_math_comprehensions", "a = [1, 2, 3]\ny = [i * 2 for i in a]\nw = 3\nz = sum(y)\nprint(z, w)\n", False),
    ("b71cf14", "performance.replace_subscript_looping", "x = [1, 2]\nprint([x[i] + i for i in range(len(x))])\n", False),
    ("sub-ok", "performance.replace_subscript_looping", "x = [[1], [2]]\nprint([x[i][0] + 1 for i in range(len(x))], [x[i] for i in range(len(x))])\n", False),
    ("triple-ok", "fixes.simplify_transposes", "x = [[1, 2], [3]]\nprint(list(zip(*zip(*zip(*x)))))\n", False),
]
# which of the witness programs the rule must change (a rule that stops firing would make them pass trivially)
MUST_FIRE = {"F02idx-3", "F02idx-4", "F02idx-1", "F02idx-5", "F02idx-7", "inline-ok", "sub-ok", "triple-ok"}


def run_text(src: str):
    import contextlib
    import io
    buf = io.StringIO()
    try:
        with contextlib.redirect_stdout(buf):
            exec(compile(src, "<w>", "exec"), {"__name__": "w"})
        return buf.getvalue() + "<ok>"
    except Exception as e:  # noqa
        return buf.getvalue() + "<" + type(e).__name__ + ">"


def apply_rule(mods, site: str, src: str) -> str:
    mods["core"].parse.cache_clear()
    m, f = site.split(".")
    with common.quiet():
        return getattr(mods[m], f)(src)


def _shards(items, n=450):
    for k in range(0, len(items), n):
        yield k // n, items[k:k + n]


# ------------------------------------------------------------------------------------------------ check
def check(run, mods, wd, rnd) -> dict:
    t0 = time.time()
    quick = run.tier == "quick"
    hist = Counter()
    kf = common.load_findings("C02")
    progs, seen = [], set()

    def add(en, e, seeded):
        try:
            env_txt = p_env(en)
            src = env_txt + "y = " + p_expr(e) + "\n"
            if parse_prog(src, env_txt) != e:
                raise Unsupported("round trip")
        except (Unsupported, SyntaxError):
            hist["unprintable"] += 1
            return
        if src not in seen:
            seen.add(src)
            progs.append((en, e, src, env_txt, seeded))

    for fam in (fam_sub, fam_tr):
        for en, e in fam():
            add(en, e, False)
    n_exh = len(progs)
    for _ in range(400 if quick else 8000):
        add(*rand_prog(rnd), True)

    cases, problems, fired = [], [], {}
    for pi, (en, e, src, env_txt, seeded) in enumerate(progs):
        for g_rule, site in RULES.items():
            if quick and not seeded and pi % 4 and not any(
                    (x[0] == "sub") if g_rule == "RSub" else (x[0] == "zip") for x in walk_e(e)):
                continue          # quick tier: a rule with nothing to look at on every fourth program only
            try:
                out = apply_rule(mods, site, src)
            except Exception as ex:  # noqa
                problems.append({"kind": "rule-raised", "rule": site, "source": src, "problem": f"{type(ex).__name__}: {ex}"})
                continue
            try:
                q = parse_prog(out, env_txt)
            except (Unsupported, SyntaxError) as ex:
                problems.append({"kind": "rule-output-outside-fragment", "rule": site, "source": src, "impl_output": out, "problem": str(ex)})
                continue
            cases.append((g_rule, en, e, q, src, out))
            hist[f"{site}:{'fired' if q != e else 'silent'}"] += 1
            if q != e:
                fired.setdefault((g_rule, src), (en, e, q, out))
    t_impl = time.time() - t0

    files, meta = [], []
    for k, shard in _shards(cases):
        f = wd / f"irule_{k}.v"
        body = ";\n ".join(f"({c[0]}, [{'; '.join(gn(n) for n, _ in c[1])}], {g_expr(c[2])}, {g_expr(c[3])})" for c in shard)
        f.write_text(HEADER + f"Definition cases : list (irule * list name * expr * expr) := [\n {body}\n].\n"
                     "Eval vm_compute in (bad_idx rule_case_ok cases).\n")
        files.append(f)
        meta.append(("rule", shard))

    # semantics validation on inputs and outputs
    sem, sem_seen = [], set()
    for c in cases:
        for e, src in ((c[2], c[4]), (c[3], c[5])):
            if src in sem_seen:
                continue
            sem_seen.add(src)
            if aliases_iterator(c[1], e):
                hist["sem:skipped (an iterator mentioned by an element)"] += 1
                continue
            try:
                exc, v = run_py(src)
            except Unsupported as ex:
                hist["sem:unsupported " + str(ex)[:24]] += 1
                continue
            if exc is not None and exc not in EXC_CODE:
                hist["sem:other-exception " + exc] += 1
                continue
            hist["sem:" + str(exc)] += 1
            sem.append((c[1], e, src, EXC_CODE.get(exc, 0), v if v is not None else A(0), exc))
    for k, shard in _shards(sem):
        f = wd / f"isem_{k}.v"
        body = ";\n ".join(f"({g_env(en)}, {g_expr(e)}, {code}%nat, {g_val(v)})" for en, e, _, code, v, _ in shard)
        f.write_text(HEADER + f"Definition cases : list (env * expr * nat * val) := [\n {body}\n].\n"
                     "Eval vm_compute in (bad_idx sem_case_ok cases).\n")
        files.append(f)
        meta.append(("sem", shard))
    t_py = time.time() - t0

    results = common.run_case_files(files)
    disagreements, sem_bad = [], []
    for f, (kind, shard) in zip(files, meta):
        rc, out = results[f]
        idx = common.parse_nat_list(out) if rc == 0 else None
        if idx is None:
            disagreements.append({"kind": "eval-failed", "file": f.name, "log": out[-1200:]})
            continue
        for i in idx:
            c = shard[i]
            if kind == "rule":
                disagreements.append({"kind": "rule-model", "rule": RULES[c[0]], "source": c[4], "impl_output": c[5]})
            else:
                sem_bad.append({"kind": "semantics", "source": c[2], "cpython": f"{c[5]} {c[4]}"[:300]})
    t_coq = time.time() - t0

    # property oracle on every fired case (the failing-input search of the correspondence)
    failures, reproduced = [], {}
    for (g_rule, src), (en, e, q, out) in fired.items():
        before, after = observation(src), observation(out)
        if before == after:
            continue
        case = {"rule": g_rule, "env": en, "p": e, "q": q, "before": before, "after": after, "source": src, "output": out}
        m = match_finding(kf, case)
        if m is None:
            failures.append(case)
        else:
            reproduced.setdefault(m.id, (m, []))[1].append(case)
    # second part: inline_math_comprehensions over the store semantics of the perf tranche
    from . import c02_idx_inl as INL
    istats, ihist, idis, isem, iprob, ifail, irep = INL.check(run, mods, wd, rnd, kf)
    disagreements += idis
    sem_bad += isem
    problems += iprob
    failures += ifail
    hist.update(ihist)
    for fid, (f, hits) in irep.items():
        reproduced.setdefault(fid, (f, []))[1].extend(hits)
    # witness programs
    n_wit = 0
    open_ids = {f.id for f in kf if f.kind == "finding"}
    for fid, site, src, still_open in WITNESSES:
        n_wit += 1
        out = apply_rule(mods, site, src)
        b, a = run_text(src), run_text(out)
        if b != a and fid in open_ids and still_open:
            f = next(x for x in kf if x.id == fid and x.kind == "finding")
            reproduced.setdefault(fid, (f, []))[1].append({"source": src, "output": out, "before": b, "after": a})
        elif b != a:
            failures.append({"rule": site, "source": src, "output": out, "before": b, "after": a, "witness": fid})
        elif out == src and fid in MUST_FIRE:
            problems.append({"kind": "witness-not-rewritten", "rule": site, "source": src, "witness": fid,
                             "problem": "the rule no longer changes this program (the model says it does)"})
    for fid, (f, hits) in sorted(reproduced.items()):
        h = hits[0]
        run.known_finding(fid, f"{f.text} [{len(hits)} instances, e.g. {h['source']!r}: {h['before']!r} -> {h['after']!r}]"[:900])
    for f in kf:
        if f.kind == "finding" and f.id.startswith("F02idx") and f.id not in reproduced:
            common.log(f"note: known finding {f.id} no longer reproduces")

    for d in (disagreements + sem_bad + problems)[:8]:
        common.log("idx tranche: " + json.dumps(d, default=str)[:700])
    seen_rules = Counter()
    for c in failures:
        seen_rules[c["rule"]] += 1
        if seen_rules[c["rule"]] <= 2:
            run.violation({"tranche": "idx", "kind": "property-oracle", "site": RULES.get(c["rule"], c["rule"]),
                           "source": c["source"], "output": c["output"], "obs_before": repr(c["before"]),
                           "obs_after": repr(c["after"]), "witness": c.get("witness"),
                           "kernel": "RulesIdxInlModel" if c["rule"] == INL.SITE else "RulesIdxModel",
                           "explanation": "the program behaves differently after the rule (exception class / value of y / "
                                          "printed text) and no listed finding covers it"}, True)
    if not failures:
        for d in (disagreements + sem_bad + problems)[:5]:
            run.violation({"tranche": "idx", **d, "kernel": "RulesIdxInlModel" if d.get("rule") == INL.SITE else "RulesIdxModel",
                           "explanation": "model and implementation (or model and CPython) disagree; executing before/after "
                                          "found no difference on the generated programs"}, False)
    elif disagreements or sem_bad or problems:
        run.notes.append(f"idx: {len(disagreements)} correspondence / {len(sem_bad)} semantics disagreements / {len(problems)} rule problems")
    samples = [s for (_, s) in list(fired)[:: max(1, len(fired) // 5)]][:5]
    return {
        "evaluations": len(cases) + len(sem) + 2 * len(fired) + n_wit + istats["inl_rule_cases"]
        + istats["inl_semantic_cases"] + 2 * istats["inl_fired"],
        "distinct_nontrivial": len(fired) + istats["inl_fired"], **istats,
        "rule": ("programs of the fragment ('x = value' bindings + 'y = expression'): exhaustive families (index loops: "
                 "every element expression of depth <= 1 over {x[i], 1, x, i, w, x_i} + deeper ones x 11 bindings of x; "
                 "transposes: zip depth 0..5 x 6 contexts x 17 bindings of x) and seeded random programs; each through both "
                 "real rules, parsed back and compared with the model in Coq; non-trivial = the real rule changed the "
                 "program, distinct by (rule, source). Semantics: every input and output program under CPython vs "
                 "RulesIdxModel.eval (exception class + value). inline_math_comprehensions: modules 'pre; y = V; mid; z = "
                 "sum|len(y); post' with one candidate assignment (6 pre x 12 values x 11 mid + variants of the use) and "
                 "seeded random ones, real rule vs RulesIdxInlModel.inl, CPython vs run_i (exception class + event trace)."),
        "samples": samples, "modelled_rules": MODELLED, "exhaustive_part": n_exh, "random_part": len(progs) - n_exh,
        "histogram": dict(hist), "rule_cases": len(cases), "semantic_cases": len(sem),
        "semantic_mismatches": len(sem_bad), "correspondence_disagreements": len(disagreements), "rule_problems": len(problems),
        "oracle_runs": len(fired), "oracle_failures": len(failures), "witness_programs": n_wit,
        "known_reproduced": {k: len(v[1]) for k, v in reproduced.items()},
        "timings_cumulative": {"impl_s": round(t_impl, 1), "cpython_s": round(t_py, 1), "coq_s": round(t_coq, 1),
                               "total_s": round(time.time() - t0, 1)},
    }


TRUSTED_BASE = [
    "RulesIdxInlModel.run_i = the statements of RulesPerfModel + sum / len: validated against CPython (exception class + "
    "event trace) on every input and output module of the second part; printer / reader of harness/c02_perf.py",
    "program <-> Python text printer and ast reader in harness/c02_idx.py (round trip asserted on every case)",
    "RulesIdxModel.eval (items / getitem / zipn / beval) is a definition, validated against CPython (exception class + "
    "value of y) on every input and output program of the correspondence",
]
UNMODELLED = [
    "fixes.inline_math_comprehensions: modules with exactly one assignment the rule looks at, at module level; augmented / "
    "annotated assignments, uses inside functions and loops, set comprehensions, range / map / filter / reversed / set "
    "values, rebound builtins; the theorem covers values over lists / tuples / displays and plain statements in between",
    "performance.replace_subscript_looping: the numpy forms (x[i, :], x[:, i], x.shape[0], .T), generator / set / dict "
    "comprehensions, a sequence expression that is not a name (F02idx-3), elements that change x (F02idx-4), x = i",
    "fixes.simplify_transposes: the numpy forms (.T, np.array, np.matmul), zip with several / keyword arguments",
]
ASSUMPTIONS = [
    "idx: values are integers, lists, tuples, iterators and dictionaries with integer keys; an iterator is observed through "
    "its elements, each iterator is used once (the generated programs mention an iterator variable once)",
]


def replay(mods, data) -> int:
    if data.get("source") and data.get("site"):
        out = apply_rule(mods, data["site"], data["source"])
        print("input:\n" + data["source"] + "output now:\n" + out)
        if data.get("witness") or not data["source"].rstrip().split("\n")[-1].startswith("y = "):
            b, a = run_text(data["source"]), run_text(out)
        else:
            b, a = observation(data["source"]), observation(out)
        print("before:", b, "\nafter: ", a)
        return 1 if a != b else 0
    print(json.dumps({k: v for k, v in data.items() if k in ("kind", "rule", "source", "impl_output", "explanation")}, indent=1))
    return 0
