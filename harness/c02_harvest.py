"""Harvest the repository's own example inputs of every rule function (run as a separate process):
   python -m harness.c02_harvest <repo> <out.json> [script ...]
runs main() of tests/unit/test_*.py (those that expose one) with every public callable of the stage modules
wrapped so that each call records (module.rule, source text).  Nothing is copied into /verif."""
from __future__ import annotations

import contextlib
import functools
import importlib
import io
import json
import os
import sys
import types


STAGE_MODULES = ("fixes", "tracing", "abstractions", "performance", "performance_numpy", "performance_pandas",
                 "object_oriented", "symbolic_math")


def main(repo, out, scripts):
    sys.path[:0] = [repo, os.path.join(repo, "tests"), os.path.join(repo, "tests", "unit")]
    from pyrefact import logs
    logs.set_level(100)
    rec: dict = {}
    depth = [0]

    def wrap(key, fn):
        @functools.wraps(fn)
        def w(*a, **k):
            top = depth[0] == 0
            depth[0] += 1
            try:
                return fn(*a, **k)
            finally:
                depth[0] -= 1
                if top and a and isinstance(a[0], str):
                    rec.setdefault(key, [])
                    if a[0] not in rec[key]:
                        rec[key].append(a[0])
        return w

    for m in STAGE_MODULES:
        mod = importlib.import_module(f"pyrefact.{m}")
        for name, fn in list(vars(mod).items()):
            if name.startswith("_") or not callable(fn) or isinstance(fn, (type, types.ModuleType)):
                continue
            if getattr(fn, "__module__", None) != mod.__name__:
                continue
            setattr(mod, name, wrap(f"{m}.{name}", fn))
    status = {}
    for s in scripts:
        name = os.path.basename(s)[:-3]
        buf = io.StringIO()
        try:
            with contextlib.redirect_stdout(buf), contextlib.redirect_stderr(buf):
                mod = importlib.import_module(name)
                if hasattr(mod, "main"):
                    status[name] = mod.main()
                else:
                    status[name] = "no-main"
        except BaseException as e:  # noqa
            status[name] = f"error:{type(e).__name__}"
    json.dump({"examples": rec, "status": status}, open(out, "w"))


if __name__ == "__main__":
    main(sys.argv[1], sys.argv[2], sys.argv[3:])
