"""C12 -- Pattern matching agrees with its declarative semantics (kernel K2, MatchModel.v)."""
from __future__ import annotations

import ast
import itertools
import json
import random
import re
import time
from collections import Counter
from pathlib import Path

from . import common
from .common import glist
from .c12_conv import (Conv, OutOfDomain, IMPOSSIBLE, ref_compile, decl_findall, twin_findall, has_noncommon_named,
                       name_in_and_out_of_quantified_list)

PID = "C12"
HDR = ("From Coq Require Import List ZArith NArith String.\nImport ListNotations.\n"
       "Require Import Pyrefact.Base Pyrefact.MatchModel Pyrefact.MatchHarness PyrefactGen.Tables.\n"
       "Open Scope string_scope.\nOpen Scope list_scope.\n")
MOD = 1000000007

# ---------------------------------------------------------------------------------------------
# template / node specifications (JSON-able, so that every case can be replayed)


def tenv(mods):
    core = mods["core"]
    return {"ast": ast, "core": core, "W": core.Wildcard, "Opt": core.ZeroOrOne, "Star": core.ZeroOrMany,
            "Plus": core.OneOrMany, "C": core.compile_template, "K": lambda v: ast.Constant(value=v),
            "N": lambda i: ast.Name(id=i)}


def build_tmpl(mods, expr: str):
    return eval(expr, tenv(mods))  # noqa: S307 -- expressions written by this harness only


def pattern_of(tmpl_expr: str):
    """the pattern text of a `C('...')` template expression without keyword arguments, else None"""
    if not tmpl_expr.startswith("C("):
        return None
    try:
        call = ast.parse(tmpl_expr, mode="eval").body
    except SyntaxError:
        return None
    if isinstance(call, ast.Call) and len(call.args) == 1 and not call.keywords \
            and isinstance(call.args[0], ast.Constant) and isinstance(call.args[0].value, str):
        return call.args[0].value
    return None


def get_node(tree, spec):
    """spec: int = index in ast.walk order | [int, field] = that node's field value (a list / atom)"""
    nodes = list(ast.walk(tree))
    if isinstance(spec, int):
        return nodes[spec]
    return getattr(nodes[spec[0]], spec[1])


def impl_match(mods, node, tmpl, ignore=None):
    core = mods["core"]
    with common.quiet():
        if ignore is None:
            return core.match_template(node, tmpl)
        return core.match_template(node, tmpl, ignore=ignore)


# ---------------------------------------------------------------------------------------------
# 1. the exhaustive list-quantifier family (enumerated on both sides, one checksum per item list)

FAM_ELEMS = ["object", "K(0)", "K(1)", "W('x')", "W('y')"]
FAM_KINDS = ["{}", "Opt({})", "Star({})", "Plus({})"]


def fam_item_exprs():
    return [k.format(e) for k in FAM_KINDS for e in FAM_ELEMS]


def fam_nodelists(maxnodes):
    out = []
    for n in range(maxnodes + 1):
        for tup in itertools.product(range(3), repeat=n):
            out.append(ast.parse(repr(list(tup))).body[0].value.elts)
    return out


def fam_code(m, nodes):
    if not m:
        return 0

    def pc(name):
        if name not in getattr(m, "_fields", ()):
            return 0
        x = getattr(m, name)
        for i, n in enumerate(nodes):
            if n is x:
                return 1 + i
        return 7
    return 1 + 6 * pc("x") + pc("y")


_FAM = {}


def _fam_worker(args):
    idx_lists, maxnodes = args
    mods, items, nls = _FAM["mods"], _FAM["items"], _FAM["nls"][maxnodes]
    core = mods["core"]
    out = []
    for idx in idx_lists:
        tl = [items[i] for i in idx]
        acc = 0
        for nl in nls:
            try:
                m = core.match_template(nl, tl)
                code = fam_code(m, nl)
            except Exception:  # noqa
                code = 999
            acc = (acc * 37 + code) % MOD
        out.append(acc)
    return out


def family(run, mods, wd, rnd, hist):
    maxnodes = 4 if run.tier == "quick" else 5
    maxitems = 3
    env = tenv(mods)
    items = [eval(e, env) for e in fam_item_exprs()]  # noqa: S307
    _FAM.update(mods=mods, items=items, nls={maxnodes: fam_nodelists(maxnodes)})
    idx_all = []
    for n in range(maxitems + 1):
        lists = list(itertools.product(range(20), repeat=n))
        if n == 3 and run.tier == "quick":
            k = 8
            lists = [l for i, l in enumerate(lists) if i % k == run.seed % k]
        idx_all += lists
    chunks = [idx_all[i:i + 260] for i in range(0, len(idx_all), 260)]
    from concurrent.futures import ProcessPoolExecutor
    import multiprocessing
    with ProcessPoolExecutor(max_workers=4, mp_context=multiprocessing.get_context("fork")) as ex:
        sums = list(ex.map(_fam_worker, [(c, maxnodes) for c in chunks]))
    files, shards = [], []
    for k, (chunk, cs) in enumerate(zip(chunks, sums)):
        body = ";\n ".join(f"({glist(idx)}, {c}%N)" for idx, c in zip(chunk, cs))
        p = wd / f"fam_{k}.v"
        p.write_text(HDR + f"Definition cases : list (list nat * N) := [\n {body}\n].\n"
                           f"Eval vm_compute in (bad_idx (fam_case_ok {maxnodes}) cases).\n")
        files.append(p)
        shards.append([{"kind": "family", "items": list(idx), "maxnodes": maxnodes} for idx in chunk])
    hist["family:item-lists"] += len(idx_all)
    n_cases = len(idx_all) * len(_FAM["nls"][maxnodes])
    return files, shards, n_cases, len(idx_all)


def family_explicit(mods, conv, idx, maxnodes):
    """the 121 explicit cases of one item list (used to localise a checksum mismatch)"""
    exprs = fam_item_exprs()
    texpr = "[" + ", ".join(exprs[i] for i in idx) + "]"
    out = []
    for n in range(maxnodes + 1):
        for tup in itertools.product(range(3), repeat=n):
            out.append({"kind": "match", "tmpl": texpr, "source": repr(list(tup)), "node": [2, "elts"]})
    return out


# ---------------------------------------------------------------------------------------------
# 2. explicit (template, value) cases

SOURCES_C = [
    "f(1, 2)", "f(x, x)", "f(x, y, x)", "g([1, 2], 2)", "g([1, 2], 1)", "a.b.c", "x = 1", "x = True", "y = 1.5",
    "z = 'x'", "x = x", "h(a, k=1, *b)", "[1, [1, 2], (1, 2)]", "x if y else x", "a + a", "a + b * a",
    "lambda: None", "x[1:2]", "not x", "u = None", "t = ...", "print('x', x)", "{1: 2, 3: 4}", "f()", "x: int = 1",
    "for i in x:\n    f(i)\n    f(i)", "if x:\n    y = 1\nelse:\n    y = 2", "x == y == x", "f(1)(1)",
]

TMPLS_C = [
    "object", "ast.AST", "ast.expr", "ast.stmt", "ast.Name", "ast.Constant", "(ast.Name, ast.Constant)", "int", "str",
    "list", "W('x')", "W('x', ast.Name)", "W('x', (ast.Name, ast.Constant))", "W('x', ast.expr)",
    "W('x', ast.Name(id=W('n')))", "W('x', ast.Call(func=W('f')))", "ast.Call(func=W('x', ast.Name(id=W('n'))))",
    "(W('a', ast.Name), W('b'))", "(W('a', ast.Constant), W('b', ast.expr), W('c'))",
    "ast.Call(args=[(W('a', ast.Constant), W('b')), (W('b', ast.Name), W('a'))])",
    "ast.Call(args={W('a', ast.Constant), W('b')})", "ast.Call(func=(W('f', ast.Name), W('g')), args=[Star((W('a', ast.Constant), W('b')))])",
    "W('Ellipsis_anything', object, False)", "W('Ellipsis_anything', ast.Name)",
    "ast.Constant(value=int)", "ast.Constant(value=(int, float))", "ast.Constant(value=1)", "ast.Constant(value=True)",
    "ast.Constant(value=None)", "ast.Constant(value=W('v'))", "ast.Constant(value='x')", "ast.Constant(value=1.5)",
    "ast.Constant(value=Ellipsis)", "ast.Name(id='x')", "ast.Name(id=('x', 'y'))", "ast.Name(id=W('n'))",
    "ast.Name(id=str)", "ast.Name(id=W('n', str), ctx=ast.Load)", "ast.Name(id='x', ctx=ast.Store())",
    "ast.Call(func=ast.Name(id='f'))", "ast.Call(func=W('f'), args=[W('a'), W('a')])",
    "ast.Call(func=W('f'), args=[W('a'), W('b')])", "ast.Call(func=W('f'), args=W('args'))",
    "ast.Name(id={str})", "ast.Constant(value={int, str})", "ast.Attribute(value={ast.Name})", "{ast.Name}",
    "ast.Assign(targets={ast.Name}, value={ast.Constant})", "ast.Call(func={ast.Name}, args={ast.Constant})",
    "ast.Call(args={ast.Constant})", "ast.Call(args={W('a')})", "ast.Call(args={W('a', ast.Name), ast.Constant})",
    "ast.Call(args=[Star(object)], keywords=[])", "ast.Call(args=[Star(W('a'))])", "ast.Call(args=[Plus(W('a', ast.Name))])",
    "ast.Call(args=[W('a'), Star(object), W('a')])", "ast.Call(args=[Opt(W('a')), W('b'), Opt(W('a'))])",
    "ast.Call(func=ast.Name(id='g'), args=[ast.List(elts=[Star(object), W('x'), Star(object)]), W('x')])",
    "ast.Call(func=ast.Name(id='g'), args=[W('x'), ast.List(elts=[Star(object), W('x'), Star(object)])])",
    "ast.Call(func=ast.Name(id='f'), args=[W('x', W('m')), W('y', W('m'))])",
    "ast.BinOp(left=W('a'), right=W('a'))", "ast.BinOp(left=W('a'), op=W('o'), right=ast.BinOp(op=W('o')))",
    "ast.BinOp(left=W('a'), op=(ast.Add, ast.Mult))", "ast.BinOp(op=ast.Add())", "ast.Assign(targets=[W('t')], value=W('t'))",
    "ast.Assign(targets=[ast.Name], value=ast.Constant(value=(True, 1)))", "ast.IfExp(body=W('a'), orelse=W('a'))",
    "ast.Attribute(value=ast.Attribute(attr=W('a')), attr=W('a'))", "ast.Attribute(value=W('v'), attr=W('a'))",
    "ast.Compare(left=W('a'), comparators=[object, W('a')])", "ast.Compare(ops=[ast.Eq, ast.Eq])",
    "ast.For(body=[W('s'), W('s')])", "ast.For(body=[Plus(W('s'))])", "ast.If(body=[W('s')], orelse=[W('s')])",
    "ast.If(body=[ast.Assign(targets=[W('t')])], orelse=[ast.Assign(targets=[W('t')], value=W('v'))])",
    "ast.Module(body=[Star(object)])", "ast.Module", "ast.Expr(value=W('x'))", "ast.Expr", "[W('x')]", "None", "True", "1",
    "'x'", "ast.Dict(keys=[W('k'), object], values={ast.Constant})", "ast.Subscript(slice=ast.Slice(lower=W('l'), step=None))",
    "ast.keyword(arg='k')", "ast.keyword(arg=W('k'), value=W('v'))", "ast.Starred", "ast.Lambda(body=ast.Constant(value=None))",
    "ast.AnnAssign(simple=1)", "ast.AnnAssign(simple=True)", "Star(object)", "ast.Tuple(elts=[W('a'), Opt(W('b')), Opt(W('c'))])",
    "C('f({{x}}, {{y}})')", "C('f({{x}}, {{x}})')", "C('f({{a*}})')", "C('f({{...*}}, {{x}})')", "C('{{x}} = {{x}}')",
    "C('{{x}}.{{y}}')", "C('{{x}} + {{y}} * {{x}}')", "C('f({{...}})')", "C('[{{x}}, {{...+}}]')", "C('{{f}}({{a?}}, {{b}})')",
    "C('x = {{v}}', v=int)", "C('x = {{v}}', v=ast.Constant)", "C('{{x}}[{{a}}:{{b}}]')", "C('print({{...*}}, {{x}})')",
    "C('{{a}} == {{b}} == {{a}}')", "C('not {{x}}')", "C('{{x}} if {{y}} else {{x}}')", "C('lambda: {{b}}')",
    "C('for {{i}} in {{it}}:\\n    {{s+}}')", "C('if {{t}}:\\n    {{a}} = 1\\nelse:\\n    {{a}} = 2')",
    "C('{{x}}: {{t}} = {{v}}')", "C('{{x}} = True')", "C('{{x}} = 1')", "C('{{x}} = 1.5')",
]


def cases_misc(mods):
    out = []
    # every node of a source used as a template for every node of the same source (reflexivity and
    # structurally equal nodes at different positions)
    for src in SOURCES_C:
        nodes = list(ast.walk(ast.parse(src)))
        for i, a in enumerate(nodes):
            for j, b in enumerate(nodes):
                if type(a) is type(b) and not isinstance(a, (ast.expr_context, ast.operator, ast.cmpop)):
                    out.append({"kind": "match", "tmpl": "EMBED", "tnode": i, "source": src, "node": j})
    # hand-built nodes (no positions / kind / ctx) against parsed nodes used as templates and against
    # compiled patterns: _match_template_vars must skip ignored keys BEFORE the `k not in n_vars` test
    for src in SOURCES_C[:14]:
        nodes = list(ast.walk(ast.parse(src)))
        for i, a in enumerate(nodes):
            if isinstance(a, (ast.expr, ast.stmt)):
                out.append({"kind": "match", "tmpl": "EMBED", "tnode": i, "source": src, "node": i, "strip": True})
                for t in ("C('f({{x}}, {{y}})')", "C('{{x}} = 1')", "C('{{x}} = {{x}}')", "ast.Constant(value=1)",
                          "ast.Name(id='x', ctx=ast.Load)", "C('{{a}} + {{b}}')"):
                    out.append({"kind": "match", "tmpl": t, "source": src, "node": i, "strip": True})
    for src in SOURCES_C:
        n = len(list(ast.walk(ast.parse(src))))
        for t in TMPLS_C:
            for i in range(n):
                out.append({"kind": "match", "tmpl": t, "source": src, "node": i})
            if t in ("[W('x')]", "list", "object", "Star(object)"):
                for i, node in enumerate(ast.walk(ast.parse(src))):
                    for f in ("args", "elts", "body", "targets"):
                        if isinstance(getattr(node, f, None), list):
                            out.append({"kind": "match", "tmpl": t, "source": src, "node": [i, f]})
    return out


NEST_INNER = ["W('x')", "W('y')", "Star(object)", "Star(W('x'))", "Plus(W('x'))", "Opt(W('x'))", "K(1)"]
NEST_OUTER = ["W('x')", "W('y')", "Star(W('x'))", "K(2)"]
NEST_TXT = {"W('x')": "{{x}}", "W('y')": "{{y}}", "Star(object)": "{{...*}}", "Star(W('x'))": "{{x*}}",
            "Plus(W('x'))": "{{x+}}", "Opt(W('x'))": "{{x?}}", "K(1)": "1", "K(2)": "2"}


def nest_templates(inner_alpha, outer_alpha, maxin, maxout):
    for ni in range(maxin + 1):
        for inner in itertools.product(inner_alpha, repeat=ni):
            for no in range(maxout + 1):
                for outer in itertools.product(outer_alpha, repeat=no):
                    hand = ("ast.Call(func=N('g'), args=[ast.List(elts=[" + ", ".join(inner) + "])"
                            + "".join(", " + o for o in outer) + "])")
                    txt = "g([" + ", ".join(NEST_TXT[i] for i in inner) + "]" + "".join(
                        ", " + NEST_TXT[o] for o in outer) + ")"
                    yield hand, f"C({txt!r})"


def nest_sources(maxin, maxout):
    for ni in range(maxin + 1):
        for inner in itertools.product((1, 2), repeat=ni):
            for no in range(maxout + 1):
                for outer in itertools.product((1, 2), repeat=no):
                    yield "g([" + ", ".join(map(str, inner)) + "]" + "".join(f", {o}" for o in outer) + ")"


def cases_nested(tier, rnd):
    out = []
    # full smallest scope (seed independent)
    small_t = list(nest_templates(["W('x')", "Star(object)", "Star(W('x'))"], ["W('x')", "W('y')"], 2, 1))
    small_s = list(nest_sources(2, 1))
    for hand, comp in small_t:
        for s in small_s:
            out.append({"kind": "match", "tmpl": hand, "source": s, "node": 2})
            out.append({"kind": "match", "tmpl": comp, "source": s, "node": 2})
    n_small = len(out)
    big_t = list(nest_templates(NEST_INNER, NEST_OUTER, 2, 2))
    big_s = list(nest_sources(3, 2))
    n = 1500 if tier == "quick" else 40000
    for _ in range(n):
        hand, comp = rnd.choice(big_t)
        out.append({"kind": "match", "tmpl": rnd.choice((hand, comp)), "source": rnd.choice(big_s), "node": 2})
    return out, n_small


# ---- random trees from a Python expression / statement grammar ------------------------------

NAMES = ["a", "b", "c"]


def rexpr(rnd, d=0):
    r = rnd.random()
    if d >= 3 or r < 0.30:
        return rnd.choice(NAMES + ["0", "1", "2", "'s'", "None", "True", "1.5"])
    if r < 0.45:
        return f"({rexpr(rnd, d + 1)} {rnd.choice('+*-')} {rexpr(rnd, d + 1)})"
    if r < 0.65:
        args = [rexpr(rnd, d + 1) for _ in range(rnd.randint(0, 3))]
        if rnd.random() < 0.2:
            args.append(f"k={rexpr(rnd, d + 1)}")
        return f"{rnd.choice(['f', 'g', 'a.m'])}({', '.join(args)})"
    if r < 0.75:
        return "[" + ", ".join(rexpr(rnd, d + 1) for _ in range(rnd.randint(0, 3))) + "]"
    if r < 0.80:
        xs = [rexpr(rnd, d + 1) for _ in range(rnd.randint(0, 3))]
        return "(" + ", ".join(xs) + ("," if len(xs) == 1 else "") + ")"
    if r < 0.85:
        return f"{rexpr(rnd, d + 1)}.{rnd.choice(['p', 'q'])}"
    if r < 0.89:
        return f"{rexpr(rnd, d + 1)}[{rexpr(rnd, d + 1)}]"
    if r < 0.93:
        return f"({rexpr(rnd, d + 1)} {rnd.choice(['==', '<', 'is', 'in'])} {rexpr(rnd, d + 1)})"
    if r < 0.96:
        return f"({rexpr(rnd, d + 1)} {rnd.choice(['and', 'or'])} {rexpr(rnd, d + 1)})"
    if r < 0.98:
        return f"(not {rexpr(rnd, d + 1)})"
    return f"({rexpr(rnd, d + 1)} if {rexpr(rnd, d + 1)} else {rexpr(rnd, d + 1)})"


def rstmts(rnd, d=0, n=None):
    out = []
    for _ in range(n or rnd.randint(1, 3)):
        r = rnd.random()
        if d >= 2 or r < 0.45:
            k = rnd.random()
            if k < 0.5:
                out.append(f"{rnd.choice(NAMES)} = {rexpr(rnd, 1)}")
            elif k < 0.7:
                out.append(rexpr(rnd, 1))
            elif k < 0.8:
                out.append(f"{rnd.choice(NAMES)} += {rexpr(rnd, 2)}")
            elif k < 0.9:
                out.append("pass")
            else:
                out.append(f"{rnd.choice(NAMES)}: int = {rexpr(rnd, 2)}")
            continue
        body = ["    " + l for l in rstmts(rnd, d + 1)]
        if r < 0.65:
            out.append(f"if {rexpr(rnd, 2)}:")
            out += body
            if rnd.random() < 0.5:
                out.append("else:")
                out += ["    " + l for l in rstmts(rnd, d + 1)]
        elif r < 0.78:
            out.append(f"for {rnd.choice(NAMES)} in {rexpr(rnd, 2)}:")
            out += body
        elif r < 0.86:
            out.append(f"while {rexpr(rnd, 2)}:")
            out += body
        elif r < 0.92:
            out.append(f"with {rexpr(rnd, 2)} as {rnd.choice(NAMES)}:")
            out += body
        elif r < 0.97:
            out.append(f"def {rnd.choice(['f', 'g'])}({rnd.choice(['', 'a', 'a, b'])}):")
            out += body
        else:
            out.append("try:")
            out += body
            out.append("finally:")
            out += ["    " + l for l in rstmts(rnd, d + 1)]
    return out


class _Generalise(ast.NodeTransformer):
    """replace random sub-expressions by wildcard placeholders; list fields get quantified ones"""

    def __init__(self, rnd, p):
        self.rnd, self.p, self.k = rnd, p, 0

    def ph(self, kind):
        nm = self.rnd.choice(["x", "x", "y", "z"])
        return ast.Name(id=f"zq{kind}{nm}zq", ctx=ast.Load())

    def visit(self, node):
        if isinstance(node, ast.expr) and not isinstance(node, (ast.Starred,)) and self.rnd.random() < self.p \
                and isinstance(getattr(node, "ctx", ast.Load()), ast.Load):
            return self.ph("w" if self.rnd.random() < 0.8 else "e")
        node = self.generic_visit(node)
        for f in ("args", "elts"):
            l = getattr(node, f, None)
            if isinstance(l, list) and not isinstance(node, (ast.arguments,)) and self.rnd.random() < 0.5 \
                    and all(isinstance(a, ast.expr) and not isinstance(a, ast.Starred) for a in l):
                i = self.rnd.randint(0, len(l))
                j = self.rnd.randint(i, len(l))
                kind = self.rnd.choice(["s", "s", "p", "o", "S", "P", "O"])
                l[i:j] = [self.ph(kind)]
        return node


_PH_TXT = {"w": "{{%s}}", "e": "{{...}}", "s": "{{...*}}", "p": "{{...+}}", "o": "{{...?}}", "S": "{{%s*}}",
           "P": "{{%s+}}", "O": "{{%s?}}"}


def generalise(rnd, node, p=0.25):
    import copy
    import re
    g = _Generalise(rnd, p).visit(copy.deepcopy(node))
    if isinstance(g, ast.Name) and g.id.startswith("zq"):
        return None
    txt = ast.unparse(ast.fix_missing_locations(g))
    return re.sub(r"zq(\w)(\w)zq", lambda m: (_PH_TXT[m.group(1)] % m.group(2)) if "%" in _PH_TXT[m.group(1)]
                  else _PH_TXT[m.group(1)], txt)


def cases_random(mods, tier, rnd):
    out = []
    ntrees = 200 if tier == "quick" else 4000
    pool = []
    for _ in range(ntrees):
        src = "\n".join(rstmts(rnd)) if rnd.random() < 0.6 else rexpr(rnd)
        try:
            tree = ast.parse(src)
        except SyntaxError:
            continue
        nodes = list(ast.walk(tree))
        if len(nodes) > 60:
            continue
        cand = [i for i, n in enumerate(nodes) if isinstance(n, (ast.expr, ast.stmt))
                and not isinstance(n, (ast.Name, ast.Constant))]
        if not cand:
            continue
        pool.append((src, nodes, cand))
    for src, nodes, cand in pool:
        for i in rnd.sample(cand, min(3, len(cand))):
            out.append({"kind": "match", "tmpl": "EMBED", "source": src, "node": i})
            for _ in range(2):
                pat = generalise(rnd, nodes[i])
                if pat is None:
                    continue
                try:
                    with common.quiet():
                        mods["core"].compile_template(pat)
                except Exception:  # noqa
                    continue
                out.append({"kind": "match", "tmpl": f"C({pat!r})", "source": src, "node": i})
                # against other nodes of the same tree and of another tree
                for j in rnd.sample(cand, min(2, len(cand))):
                    out.append({"kind": "match", "tmpl": f"C({pat!r})", "source": src, "node": j})
                src2, nodes2, cand2 = rnd.choice(pool)
                out.append({"kind": "match", "tmpl": f"C({pat!r})", "source": src2, "node": rnd.choice(cand2)})
    return out


# ---- search ----------------------------------------------------------------------------------

SEARCH_SOURCES = [
    "f(1, 2)\nf(1, 1)\nf()\ng(f(2, 2))\n",
    "x = 1\ny = 2\nif a:\n    x = 1\n    y = 2\nelse:\n    x = 1\n    y = 2\n    z = 3\ntry:\n    x = 1\n    y = 2\nfinally:\n    pass\n",
    "def f(a):\n    x = a\n    x = a\n    return x\nclass K:\n    x = 1\n    y = 2\nfor i in r:\n    x = 1\n    y = 2\nelse:\n    x = 1\n    y = 2\n",
    "while c:\n    a = b\n    b = a\nwith c as d:\n    a = b\n    a = b\nx = [a, [a, b], (a, a)]\n",
    "a = a\nb = c\nc.d = c.d\nprint(a + a, a + b, (a + a) + (a + a))\n",
    "x = True\ny = 1.5\nz = 1\nw = '1'\n",
    "import os\nfrom a import b as c, d\nasync def g():\n    x = 1\n    y = 2\n",
    "if a:\n    pass\nelif b:\n    x = 1\n    y = 2\nelse:\n    x = 1\n",
]
SEARCH_PATTERNS = [
    "f({{x}}, {{x}})", "f({{a*}})", "f({{...*}})", "{{x}} = {{x}}", "{{x}} = {{y}}", "{{x}} + {{x}}", "{{x}} + {{y}}",
    "1", "{{x}}", "x = 1\ny = 2", "{{a}} = {{b}}\n{{b}} = {{a}}", "{{a}} = {{b}}\n{{a}} = {{b}}", "x = {{v}}\ny = {{w}}",
    "[{{x}}, {{...*}}]", "({{x}}, {{x}})", "{{f}}({{...*}}, {{x}})", "pass", "x = 1", "{{x}}.d", "return {{x}}",
    "x = 1\ny = 2\nz = 3", "{{...}} = {{v}}\n{{...}} = {{v}}",
]


IMPORT_SOURCES = [
    "from m import a\nfrom .m import a\nfrom ..m import a, b\nfrom . import a\nfrom m import a, b\nfrom m import a as c\n"
    "import m\nimport m as a\nfrom n import a\nfrom ..m import a\n",
    "import os\nfrom m import a\nx = 1\nif c:\n    import os\n    from .m import a\n    x = 1\nelse:\n    import os\n"
    "    from ..m import a, b\ndef f():\n    from . import a\n    from m import a\n    return a\n",
]
IMPORT_PATTERNS = [
    "from m import a", "from .m import a", "from ..m import a, b", "from . import a", "from m import {{n}}",
    "from .m import {{n}}", "from m import {{...+}}", "from ..m import {{...+}}", "from m import {{n+}}",
    "from {{mod}} import a", "from {{mod}} import {{n}}", "from . import {{n}}", "from m import a as {{c}}",
    "from m import {{n}}, {{k}}", "from m import a, {{...*}}", "import m", "import {{x}}", "import m as {{x}}",
    "import os\nfrom m import a", "import os\nfrom m import {{n}}", "from m import a\nx = 1",
    "import os\nfrom .m import {{...+}}", "from . import {{n}}\nfrom m import {{n}}",
    "import {{...}}\nfrom ..m import {{...+}}",
]


def walk_impl(mods, pattern, source):
    """the search entry points on the real code: returns (kind, template, results)"""
    core, processing = mods["core"], mods["processing"]
    with common.quiet():
        tmpl = core.compile_template(pattern)
        root = ast.parse(source)
        if isinstance(tmpl, list):
            res = [tuple(ms) for ms in core.walk_sequence(root, *tmpl)]
            merged = [core.merge_matches(root, ms) for ms in res]
            return "seq", tmpl, root, list(zip(res, merged))
        res = list(core.walk_wildcard(root, tmpl))
        return "one", tmpl, root, res


def cases_search(mods, tier, rnd):
    out = []
    for s in SEARCH_SOURCES:
        for p in SEARCH_PATTERNS:
            out.append({"kind": "search", "pattern": p, "source": s})
    for s in IMPORT_SOURCES:
        for p in IMPORT_PATTERNS:
            out.append({"kind": "search", "pattern": p, "source": s})
    n = 60 if tier == "quick" else 1500
    for _ in range(n):
        src = "\n".join(rstmts(rnd)) + "\n"
        try:
            tree = ast.parse(src)
        except SyntaxError:
            continue
        nodes = [n for n in ast.walk(tree) if isinstance(n, (ast.expr, ast.stmt)) and not isinstance(n, (ast.Name, ast.Constant))]
        if not nodes or len(list(ast.walk(tree))) > 80:
            continue
        for _ in range(2):
            pat = generalise(rnd, rnd.choice(nodes), p=0.35)
            if pat:
                try:
                    with common.quiet():
                        mods["core"].compile_template(pat)
                except Exception:  # noqa
                    continue
                out.append({"kind": "search", "pattern": pat, "source": src})
        # a statement-sequence pattern: two adjacent statements of some body, generalised
        bodies = [b for n in ast.walk(tree) for b in (getattr(n, "body", None), getattr(n, "orelse", None))
                  if isinstance(b, list) and len(b) >= 2]
        if bodies:
            b = rnd.choice(bodies)
            i = rnd.randrange(len(b) - 1)
            pats = [generalise(rnd, st, p=0.3) for st in b[i:i + 2]]
            if all(pats):
                pat = "\n".join(pats)
                try:
                    with common.quiet():
                        t = mods["core"].compile_template(pat)
                    if isinstance(t, list):
                        out.append({"kind": "search", "pattern": pat, "source": src})
                except Exception:  # noqa
                    pass
    return out


# ---------------------------------------------------------------------------------------------
# case -> Gallina


class Builder:
    def __init__(self, mods):
        self.mods = mods
        self.conv = Conv(mods["core"])
        self.trees = {}
        self.tmpls = {}
        self.tnames = {}
        self.strips = {}
        self.raised = Counter()
        self.skipped = Counter()
        order = mods["constants"]
        self.body_order = [c.__name__ for c in
                           dict.fromkeys((*order.AST_TYPES_WITH_BODY, *order.AST_TYPES_WITH_ORELSE))]

    def stripped(self, src, spec, node):
        key = (src, str(spec))
        if key not in self.strips:
            def go(x):
                if isinstance(x, list):
                    return [go(e) for e in x]
                if not isinstance(x, ast.AST):
                    return x
                y = type(x)(**{k: go(v) for k, v in vars(x).items()
                               if k not in ("lineno", "col_offset", "end_lineno", "end_col_offset", "kind", "ctx")})
                self.conv.text_of[id(y)] = x
                self.conv.keep.append(y)
                return y
            self.strips[key] = go(node)
        return self.strips[key]

    def tree(self, src):
        if src not in self.trees:
            self.trees[src] = ast.parse(src)
        return self.trees[src]

    def match_case(self, c):
        """-> (gallina text of an mcase, observed impl result summary) or None if out of domain"""
        mods, conv = self.mods, self.conv
        tree = self.tree(c["source"])
        node = get_node(tree, c["node"])
        if c["tmpl"] != "EMBED" and c["tmpl"] not in self.tmpls:
            try:
                with common.quiet():
                    self.tmpls[c["tmpl"]] = build_tmpl(mods, c["tmpl"])
            except Exception as e:  # noqa  (e.g. {{x}} and {{x*}} in one pattern: ValueError)
                self.tmpls[c["tmpl"]] = e
        if c["tmpl"] != "EMBED" and isinstance(self.tmpls[c["tmpl"]], Exception):
            self.skipped["template-build-raises:" + type(self.tmpls[c["tmpl"]]).__name__] += 1
            return None
        tnode = get_node(tree, c["tnode"]) if "tnode" in c else node
        if c.get("strip"):
            # a hand-built node: no position attributes, no `kind`, no ctx (as rules construct them)
            node = self.stripped(c["source"], c["node"], node)
        tmpl = tnode if c["tmpl"] == "EMBED" else self.tmpls[c["tmpl"]]
        ignore = mods["core"].DEFAULT_IGNORE
        try:
            m = impl_match(mods, node, tmpl)
            crash = None
        except Exception as e:  # noqa
            m, crash = None, type(e).__name__
        if crash:
            # the model is total: an exception of the implementation is a disagreement
            self.raised["impl-raises:" + crash] += 1
        try:
            ids = conv.name_ids(tmpl)
            tk = ("E", conv.uid(tnode)) if c["tmpl"] == "EMBED" else c["tmpl"]
            if tk not in self.tnames:
                self.tnames[tk] = conv.define(f"t_{len(self.tnames)}", conv.tmpl(tmpl, ignore, ids))
            t = self.tnames[tk]
            v = conv.value(node)
            e = IMPOSSIBLE if crash else conv.expected(
                m, ids, skip_root=isinstance(m[0], list) and isinstance(tmpl, (list, tuple)) if m else False)
        except OutOfDomain as ex:
            self.skipped["out-of-domain:" + str(ex).split(":")[0]] += 1
            return None
        return f"(mkCase {t} {v} {e})", bool(m)

    def search_case(self, c):
        mods, conv = self.mods, self.conv
        core = mods["core"]
        try:
            kind, tmpl, root, res = walk_impl(mods, c["pattern"], c["source"])
        except Exception as e:  # noqa
            self.skipped["search-raises:" + type(e).__name__] += 1
            return None
        try:
            if kind == "one":
                ids = conv.name_ids(tmpl)
                t = conv.tmpl(tmpl, (), ids)
                exp = glist([f"({conv.ref(m[0])}, {conv.expected(m, ids)})" for m in res])
                return "w", f"(mkWCase {t} {conv.value(root)} {exp})", len(res)
            ids = conv.name_ids(*tmpl)
            ts = glist([conv.tmpl(t, core.DEFAULT_IGNORE, ids) for t in tmpl])
            exp = []
            for ms, merged in res:
                if not merged:
                    raise OutOfDomain("walk_sequence yielded an unmergeable window")
                bs = [f"({ids[f]}, {conv.ref(x)})" for f, x in zip(getattr(merged, "_fields", ()), merged) if f != "root"]
                exp.append(f"({glist([conv.ref(m[0]) for m in ms])}, {glist(bs)})")
            order = glist(self.body_order, lambda s: f'"{s}"')
            return "s", f"(mkSCase {order} {ts} {conv.value(root)} {glist(exp)})", len(res)
        except OutOfDomain as ex:
            self.skipped["out-of-domain:" + str(ex).split(":")[0]] += 1
            return None


def closure(defs, text):
    need, todo = set(), set(re.findall(r"\b(?:n|t)_\d+\b", text))
    while todo:
        n = todo.pop()
        if n in need or n not in defs:
            continue
        need.add(n)
        todo |= defs[n][2]
    return need


def write_files(wd, prefix, texts, payloads, ctype, okfn, per=400, defs=None):
    """one file per `per` cases; shared node/template definitions first; string literals become
    constants (Coq elaborates a string literal char by char -- by far the dominant cost otherwise)"""
    defs = defs or {}
    files, shards = [], []
    for k in range(0, len(texts), per):
        p = wd / f"{prefix}_{k // per}.v"
        body = ";\n ".join(texts[k:k + per])
        need = sorted(closure(defs, body), key=lambda n: defs[n][0])
        dtext = "".join(f"Definition {n} := {defs[n][1]}.\n" for n in need)
        full = dtext + f"Definition cases : list {ctype} := [\n {body}\n].\n"
        lits = sorted(set(re.findall(r'"([^"]*)"', full)))
        names = {l: f"q{i}_" for i, l in enumerate(lits)}
        consts = "".join(f'Definition {n} : string := "{l}".\n' for l, n in names.items())
        full = re.sub(r'"([^"]*)"', lambda m: names[m.group(1)], full)
        p.write_text(HDR + consts + full + f"Eval vm_compute in (bad_idx {okfn} cases).\n")
        files.append(p)
        shards.append(payloads[k:k + per])
    return files, shards


# ---------------------------------------------------------------------------------------------
# property oracle: pattern_matching.findall vs the brute-force declarative matcher


def oracle_case(mods, pattern: str, source: str):
    """-> None if the search reports exactly the declarative occurrences, else a description"""
    core, pm = mods["core"], mods["pattern_matching"]
    with common.quiet():
        try:
            tmpl = core.compile_template(pattern)
        except Exception as e:  # noqa
            return None
        root = ast.parse(source)
        found = [(m.span.start, m.span.end) for m in pm.finditer(pattern, source)]

        def spans(items):
            out = []
            for w in items:
                try:
                    rs = [core.get_charnos(n, source) for n in (w if isinstance(w, tuple) else (w,))]
                    out.append((min(r.start for r in rs), max(r.end for r in rs)))
                except Exception:  # noqa
                    out.append(("no-position", type(w).__name__))
            return out
        # the declarative reading is taken from the INDEPENDENT reference compilation of the pattern
        # text whenever the reference covers it (so that a defect of compile_template itself -- e.g. a
        # field the compiled template no longer constrains -- shows up as a wrong search answer)
        try:
            dtmpl = ref_compile(core, pattern)
            if isinstance(dtmpl, list) != isinstance(tmpl, list):
                dtmpl = tmpl
        except (OutOfDomain, SyntaxError):
            dtmpl = tmpl
        want = spans(decl_findall(core, dtmpl, root, core.DEFAULT_IGNORE if isinstance(tmpl, list) else ()))
        twin = spans(twin_findall(core, tmpl, root))
    missing = sorted(set(want) - set(found), key=str)
    extra = sorted(set(found) - set(want), key=str)
    dup = len(found) != len(set(found))
    if not missing and not extra and not dup:
        return None
    show = lambda sp: source[sp[0]:sp[1]] if isinstance(sp[0], int) else str(sp)  # noqa
    return {"pattern": pattern, "source": source, "missing": [show(s) for s in missing][:6],
            "extra": [show(s) for s in extra][:6], "duplicates": dup,
            "found": [show(s) for s in found][:10],
            "model_agrees": sorted(twin, key=str) == sorted(found, key=str)}


def _compiled(mods, pattern):
    with common.quiet():
        return mods["core"].compile_template(pattern)


# known-finding signatures: predicates over the oracle's failure record.  Every one requires that the
# wrong answer is exactly the answer of the (Python twin of the) Coq model -- whose only defects are the
# listed ones -- plus a structural condition on the pattern that tells the findings apart.
def sig_named_quantifier_forced_equal(mods, f):
    return f["model_agrees"] and f["missing"] and not f["extra"] and \
        has_noncommon_named(mods["core"], _compiled(mods, f["pattern"]))


def sig_no_backtracking(mods, f):
    return f["model_agrees"] and f["missing"] and not f["extra"] and \
        name_in_and_out_of_quantified_list(mods["core"], _compiled(mods, f["pattern"]))


def sig_bare_wildcard(mods, f):
    return f["model_agrees"] and not f["found"] and \
        re.fullmatch(r"\s*\{\{(\w+|\.\.\.)\}\}\s*", f["pattern"]) is not None


SIGS = {
    "named_quantifier_forced_equal": sig_named_quantifier_forced_equal,
    "no_backtracking_across_fields": sig_no_backtracking,
    "bare_wildcard_pattern": sig_bare_wildcard,
}

SWEEP_ITEMS = ["{{x}}", "{{y}}", "{{...}}", "{{x*}}", "{{...*}}", "{{x?}}", "{{...+}}", "0", "1"]


def sweep_cases():
    """deterministic, seed independent"""
    out = []
    srcs = []
    for n in range(4):
        for tup in itertools.product((0, 1), repeat=n):
            srcs.append("f(" + ", ".join(map(str, tup)) + ")")
    source = "\n".join(srcs) + "\ng([1, 2], 2)\ng([1, 2], 1)\nh(True, 1.0, 1)\n"
    for n in range(4):
        for its in itertools.product(SWEEP_ITEMS, repeat=n):
            if n == 3 and sum(1 for i in its if i in ("0", "1", "{{y}}", "{{...}}")) > 1:
                continue
            out.append(("f(" + ", ".join(its) + ")", source))
    for p in ["g([{{...*}}, {{x}}, {{...*}}], {{x}})", "g([{{x}}, {{...*}}], {{x}})", "g({{x}}, {{y}})", "{{x}}",
              "h({{...*}}, 1, {{...*}})", "h({{a}}, {{b}}, {{c}})", "1", "True", "1.0", "h({{...*}})"]:
        out.append((p, source))
    for s in SEARCH_SOURCES:
        for p in SEARCH_PATTERNS:
            out.append((p, s))
    for s in IMPORT_SOURCES:
        for p in IMPORT_PATTERNS:
            out.append((p, s))
    return out


FINDING_WITNESS = {
    "F12-1": ("g([{{...*}}, {{x}}, {{...*}}], {{x}})", "g([1, 2], 2)\n"),
    "F12-2": ("f({{a*}})", "f(1, 2)\n"),
    "F12-3": ("{{x}}", "f(1, 2)\n"),
}


# ---------------------------------------------------------------------------------------------


GLUE_KW = [   # (pattern, keyword arguments of compile_template): typed wildcards, expand, keep_expr
    ("x = {{v}}", {"v": int}), ("x = {{v}}", {"v": ast.Constant}), ("{{f}}({{a}})", {"f": (ast.Name, ast.Attribute)}),
    ("f({{a*}}, {{b}})", {"a": ast.Constant, "b": ast.Name}), ("{{x}}.{{y}}", {"x": ast.Name, "y": str}),
    ("f({{a}})", {"expand": "a"}), ("f({{a}})", {"expand": ("a", "b")}), ("f({{a}}, k={{b}})", {"expand": "b"}),
    ("[{{a}}]", {"expand": "a"}), ("f({{a}})\ng([{{b}}])", {"expand": ("a", "b")}), ("f({{a}})", {"expand": "a", "a": ast.Name}),
    ("from m import {{n}}", {"expand": "n"}), ("def_ = ({{a}},)", {"expand": "a"}), ("f({{a}}, {{b}})", {"expand": "a"}),
    ("f([{{a}}], {{a}})", {"expand": "a"}),
    # wildcards typed by an AST instance (positions / ctx of the instance are not part of the pattern)
    ("f({{x}})", {"x": ast.Name(id="y", ctx=ast.Load())}), ("{{x}}", {"x": ast.Name(id="y", ctx=ast.Load())}),
    ("{{x}}\nz = 1", {"x": ast.Constant(value=1)}), ("{{x}}\n{{y}}", {"x": ast.Attribute(value=ast.Name(id="a"), attr="b"), "y": ast.stmt}),
    ("z = {{x}}", {"x": ast.parse("a + 1").body[0].value}), ("{{x}}\nz = 1", {"x": ast.Call}),
]


def compile_glue_check(mods, conv, patterns):
    """real compile_template vs the independent reference, compared through the template converter"""
    core = mods["core"]
    bad, n = [], 0
    for pat in list(patterns) + GLUE_KW:
        pat, kw = pat if isinstance(pat, tuple) else (pat, {})
        try:
            ref = ref_compile(core, pat, **kw)
        except (OutOfDomain, SyntaxError):
            continue
        try:
            with common.quiet():
                real = core.compile_template(pat, **kw)
        except Exception as e:  # noqa
            bad.append({"pattern": pat, "kwargs": str(kw), "real": "raises " + type(e).__name__, "reference": "compiles"})
            continue
        try:
            rl = real if isinstance(real, list) else [real]
            fl = ref if isinstance(ref, list) else [ref]
            ids = conv.name_ids(*rl, *fl)
            a = [conv.tmpl(t, (), ids, sort_fields=True) for t in rl]
            b = [conv.tmpl(t, (), ids, sort_fields=True) for t in fl]
        except OutOfDomain:
            continue
        n += 1
        if a != b:
            bad.append({"pattern": pat, "kwargs": str(kw), "real": a, "reference": b})
    return n, bad


def check(run: common.Run):
    t_start = time.time()
    wd = common.workdir(PID)
    ps = common.proof_step(run, PID, wd)
    mods = common.import_impl()
    rnd = random.Random(run.seed)
    hist = Counter()
    files, shards = [], []

    # 1. exhaustive family
    f1, s1, n_family, n_itemlists = family(run, mods, wd, rnd, hist)
    files += f1
    shards += s1

    # 2. explicit match cases
    B = Builder(mods)
    specs = cases_misc(mods)
    nested, n_small = cases_nested(run.tier, rnd)
    specs += nested
    specs += cases_random(mods, run.tier, rnd)
    texts, pays = [], []
    distinct = set()
    for c in specs:
        r = B.match_case(c)
        if r is None:
            continue
        texts.append(r[0])
        pays.append(c)
        hist["match:" + ("hit" if r[1] else "miss")] += 1
        if r[1]:
            distinct.add((c["tmpl"], c["source"], str(c["node"])))
    f2, s2 = write_files(wd, "match", texts, pays, "mcase", "mcase_ok", per=1600, defs=B.conv.defs)
    files += f2
    shards += s2

    # 3. search cases (walk_wildcard / walk_sequence) + ast.walk order
    sspecs = cases_search(mods, run.tier, rnd)
    wt, wp, st, sp = [], [], [], []
    for c in sspecs:
        r = B.search_case(c)
        if r is None:
            continue
        (wt if r[0] == "w" else st).append(r[1])
        (wp if r[0] == "w" else sp).append(c)
        hist["search:" + r[0] + (":hits" if r[2] else ":none")] += 1
        if r[2]:
            distinct.add(("search", c["pattern"], c["source"]))
    f3, s3 = write_files(wd, "walk", wt, wp, "wcase", "wcase_ok", per=100, defs=B.conv.defs)
    f4, s4 = write_files(wd, "seq", st, sp, "scase", "(scase_ok (AST_TYPES_WITH_BODY ++ AST_TYPES_WITH_ORELSE))", per=100,
                        defs=B.conv.defs)
    files += f3 + f4
    shards += s3 + s4
    walk_t, walk_p = [], []
    for src in SEARCH_SOURCES + [c["source"] for c in sspecs[-40:]]:
        root = B.tree(src)
        walk_t.append(f"({B.conv.value(root)}, {glist([B.conv.ref(n) for n in ast.walk(root)])})")
        walk_p.append({"kind": "ast.walk", "source": src})
    f5, s5 = write_files(wd, "bfs", walk_t, walk_p, "(value * list ref)", "walk_case_ok", per=100, defs=B.conv.defs)
    files += f5
    shards += s5

    t_gen = time.time()
    results = common.run_case_files(files)
    t_coq = time.time()
    disagreements = []
    for p, shard in zip(files, shards):
        rc, out = results[p]
        idx = common.parse_nat_list(out) if rc == 0 else None
        if idx is None:
            disagreements.append({"kind": "eval-failed", "file": p.name, "log": out[-1500:]})
            continue
        for i in idx:
            disagreements.append(dict(shard[i], file=p.name))

    # localise family mismatches to explicit cases
    explicit = []
    for d in [d for d in disagreements if d.get("kind") == "family"][:4]:
        ex = family_explicit(mods, B.conv, d["items"], d["maxnodes"])
        tx, py = [], []
        for c in ex:
            r = B.match_case(c)
            if r:
                tx.append(r[0])
                py.append(c)
        fx, sx = write_files(wd, "famx%d" % len(explicit), tx, py, "mcase", "mcase_ok", per=400, defs=B.conv.defs)
        rs = common.run_case_files(fx)
        for p, shard in zip(fx, sx):
            rc, out = rs[p]
            idx = common.parse_nat_list(out) if rc == 0 else []
            explicit += [shard[i] for i in (idx or [])][:3]

    # 4. glue: compile_template vs the independent reference
    pats = SEARCH_PATTERNS + IMPORT_PATTERNS + [p for p, _ in sweep_cases()][:400] + \
        [p for p in (pattern_of(c["tmpl"]) for c in specs) if p][:3000]
    n_glue, glue_bad = compile_glue_check(mods, B.conv, sorted(set(pats)))

    # 5. deterministic sweep of the property oracle + known findings; the corpus (witnesses of
    #    repaired defects) first -- those must pass from now on
    kf = common.load_findings(PID)
    sweep = sweep_cases()
    failures, matched = [], Counter()
    corpus_n = 0
    for cp in sorted((common.VERIF / "corpus" / "match").glob("*.json")):
        for pattern, source in json.loads(cp.read_text()).get("cases", []):
            corpus_n += 1
            f = oracle_case(mods, pattern, source)
            if f is not None:
                failures.append(dict(f, corpus=cp.name, note="witness of a repaired defect fails again"))
    for pattern, source in sweep:
        f = oracle_case(mods, pattern, source)
        if f is None:
            continue
        hit = None
        for k in kf:
            pred = SIGS.get(k.fields.get("sig", ""))
            if k.kind == "finding" and pred and pred(mods, f):
                hit = k
                break
        if hit is None:
            failures.append(f)
        else:
            matched[hit.id] += 1
    for k in kf:
        if k.kind != "finding":
            continue
        w = FINDING_WITNESS.get(k.id)
        if not w:
            continue
        f = oracle_case(mods, *w)
        if f is not None:
            run.known_finding(k.id, f"{k.text} [witness findall({w[0]!r}, {w[1]!r}): missing={f['missing']} "
                                    f"extra={f['extra']}; {matched[k.id]} sweep instances]")
        else:
            common.log(f"note: known finding {k.id} no longer reproduces")

    # ---- failing-input search when something structural broke
    broke = bool(disagreements) or bool(glue_bad) or (ps.get("props") and not ps["props"]["ok"]) or not ps["build_ok"]
    found_inputs = list(failures)
    if broke and not found_inputs:
        found_inputs = failing_input_search(mods, kf, disagreements + explicit, rnd)

    for f in found_inputs[:5]:
        run.violation({"kind": "property-oracle", "site": "pattern_matching.findall", **f,
                       "explanation": "findall reports occurrences that differ from the declarative reading "
                                      "(missing = instances of the pattern not reported, extra = reported but not "
                                      "instances)"}, True)
    if not found_inputs:
        for d in (explicit + disagreements)[:5]:
            run.violation({"kind": "correspondence", "kernel": "K2", "detail": d,
                           "explanation": "core.match_template / walk_* and MatchModel.v disagree on this case; the "
                                          "declarative oracle found no wrong search result"}, False)
        for g in glue_bad[:3]:
            run.violation({"kind": "correspondence-glue", "kernel": "K2 compile_template", "detail": g,
                           "explanation": "compile_template and the independent reference produce different templates"},
                          False)
    if ps.get("props") and not ps["props"]["ok"]:
        pr = ps["props"]
        run.violation({"kind": "proof", "file": pr["file"], "broken": pr.get("broken"), "log": pr["log"],
                       "explanation": "a property theorem no longer checks"}, bool(found_inputs))

    n_eval = n_family + len(texts) + len(wt) + len(st) + len(walk_t)
    run.coverage.update(
        evaluations=n_eval + len(sweep),
        distinct_nontrivial=len(distinct) + n_itemlists,
        rule=("family: every item list of length <=2 (and " + ("1/8 of length 3, shard = seed mod 8" if run.tier == "quick" else "all of length 3") +
              ") over {object, Constant 0, Constant 1, Wildcard x, Wildcard y} x {plain,?,*,+} against ALL node lists "
              "of length <=" + ("4" if run.tier == "quick" else "5") + " over Constant 0/1/2, real core.match_template vs the model evaluated in Coq, one checksum "
              "per item list (exhaustive for length <=2). explicit cases: 100+ hand-built/compiled templates x every "
              "sub-node of 29 sources; nested two-level lists with repeated names (full small scope + seeded sample); "
              "seeded random trees with generalised patterns and self-embedding. search: walk_wildcard/walk_sequence/"
              "ast.walk order on fixed + random sources. Non-trivial = the implementation matches (explicit/search) "
              "or one item list of the family; distinct by (template, source, node)."),
        samples=[specs[0], specs[len(specs) // 2], nested[0], specs[-1], sspecs[0], sspecs[-1],
                 {"family_items": [fam_item_exprs()[i] for i in (3, 12, 8)]}],
        exhaustive=False, exhaustive_family_itemlists_upto=2, family_cases=n_family,
        histogram=dict(hist), skipped=dict(B.skipped), implementation_raised=dict(B.raised),
        correspondence_disagreements=len(disagreements), glue_patterns_compared=n_glue, glue_disagreements=len(glue_bad),
        sweep={"cases": len(sweep), "corpus_cases": corpus_n, "unexplained_failures": len(failures),
               "matched_known": dict(matched)},
        timing={"generate_s": round(t_gen - t_start, 1), "coq_s": round(t_coq - t_gen, 1)},
        unmodelled=["core.compile_template (glue: compared against a 60-line reference for expression / simple "
                    "statement patterns)", "core.walk_sequence expand_first/expand_last (not used by finditer)",
                    "core.get_charnos / Match geometry (C13)", "wildcards over list templates (root slot carries the "
                    "template permutation)", "integral floats / complex constants (Python == across types)"],
        trusted_base=common.TRUSTED_BASE_COMMON + [
            "harness/c12_conv.py: AST/template -> MatchModel terms (type templates expanded to concrete class names, "
            "field order = `vars(t).keys() - ignore`, `key` = interned ast.unparse/str text)",
            "MatchModel.Matches (declarative semantics) is a definition; its Python twin decl_solve is the oracle",
            "ast.unparse-equality stands for 'the same tree' (as in core._all_fields_consistent)"],
    )
    run.assumptions += [
        "theorems are about MatchModel.v; agreement with core.py is established by the correspondence runs",
        "wildcard names are not 'root'; templates carry no position attributes that are not ignored",
        "soundness/completeness theorems carry the boolean guards wf_tmpl / linear (see design/C12.md)"]


def failing_input_search(mods, kf, seeds, rnd):
    """turn a broken correspondence into a wrong findall answer: the disagreeing cases first, then
    seeded random (pattern, source) pairs; known findings are filtered by signature"""
    out = []
    cand = []
    for d in seeds:
        if d.get("kind") == "search":
            cand.append((d["pattern"], d["source"]))
        elif d.get("kind") == "match" and pattern_of(d["tmpl"]):
            cand.append((pattern_of(d["tmpl"]), d["source"] + "\n"))
    cand += sweep_cases()
    for _ in range(300):
        src = "\n".join(rstmts(rnd)) + "\n"
        try:
            tree = ast.parse(src)
        except SyntaxError:
            continue
        nodes = [n for n in ast.walk(tree) if isinstance(n, (ast.expr, ast.stmt)) and not isinstance(n, (ast.Name, ast.Constant))]
        if nodes:
            pat = generalise(rnd, rnd.choice(nodes), p=0.3)
            if pat:
                cand.append((pat, src))
    for pat, src in cand:
        try:
            f = oracle_case(mods, pat, src)
        except Exception:  # noqa
            continue
        if f is None:
            continue
        if any(k.kind == "finding" and SIGS.get(k.fields.get("sig", ""), lambda *_: False)(mods, f) for k in kf):
            continue
        out.append(f)
        if len(out) >= 3:
            break
    return out


def replay(path: str) -> int:
    data = json.loads(Path(path).read_text())
    mods = common.import_impl()
    print(json.dumps({k: data[k] for k in data if k in ("kind", "explanation", "pattern", "source", "missing", "extra",
                                                         "detail")}, indent=1, default=str))
    if data.get("kind") == "property-oracle":
        print("now:", oracle_case(mods, data["pattern"], data["source"]))
        return 0
    d = data.get("detail") or {}
    if d.get("kind") == "match":
        B = Builder(mods)
        r = B.match_case(d)
        tree = B.tree(d["source"])
        node = get_node(tree, d["node"])
        tmpl = get_node(tree, d.get("tnode", d["node"])) if d["tmpl"] == "EMBED" else build_tmpl(mods, d["tmpl"])
        print("implementation:", impl_match(mods, node, tmpl))
        if r:
            wd = common.workdir(PID + "-replay")
            fs, _ = write_files(wd, "replay", [r[0]], [d], "mcase", "mcase_ok", defs=B.conv.defs)
            p = fs[0]
            p.write_text(p.read_text() + "Eval vm_compute in (map (fun c => match_template (c_tmpl c) (c_val c)) cases).\n")
            print("model:", common.coqc(p)[1][-3000:])
    elif d.get("kind") == "search":
        print("implementation:", walk_impl(mods, d["pattern"], d["source"])[3])
    elif data.get("kind") == "proof":
        print(data.get("log"))
    return 0
