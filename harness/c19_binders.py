"""C19, round 5: every syntactic place where Python binds or mentions an identifier.

Two independent pieces, both seed-independent:

* `asdl_identifier_fields()` / `asdl_mentions(root)`: the identifier fields of every AST node type, derived
  from the ASDL signature that the running interpreter publishes in `ast.<Node>.__doc__`
  (`Name(identifier id, expr_context ctx)`) -- nothing is listed by hand, so a node type that
  `fixes._iter_identifier_mentions` forgets (or that a new Python adds) is found without knowing it in advance.
  `expected_mentions(root)` turns that enumeration into what `_iter_identifier_mentions` documents
  (its three deliberate deviations are spelled out there).
* `binder_family()`: closed programs = binder kind x role of the identifier x scope shape x kind of the
  renamed binding, for the property oracle (exec before/after + symbol-table bijection).
"""
import ast
import re
import textwrap

# ---------------------------------------------------------------------------------------------
# identifier fields from the ASDL of the running interpreter

_SIG = re.compile(r"\s*(\w+)\((.*)\)\s*$", re.S)


def asdl_identifier_fields():
    """{node class: [(field, 'identifier' | 'identifier?' | 'identifier*')]} from the docstrings"""
    out = {}
    for name in sorted(dir(ast)):
        cls = getattr(ast, name)
        if not (isinstance(cls, type) and issubclass(cls, ast.AST) and cls.__doc__ and cls._fields):
            continue
        m = _SIG.match(cls.__doc__)
        if not m or m.group(1) != name:
            continue            # sum types (`stmt = FunctionDef(...) | ...`) and deprecated aliases
        declared = []
        for part in m.group(2).split(","):
            typ, field = part.split()
            declared.append(field)
            if typ.rstrip("?*") == "identifier":
                out.setdefault(cls, []).append((field, typ))
        if tuple(declared) != tuple(cls._fields):
            raise RuntimeError(f"ASDL docstring of ast.{name} does not list its _fields: {cls.__doc__!r}")
    if ast.Name not in out or ast.arg not in out or len(out) < 15:
        raise RuntimeError("could not derive the identifier fields from the ast docstrings")
    return out


IDENT_FIELDS = asdl_identifier_fields()


def asdl_mentions(root):
    """[(node, field, identifier)] for every identifier-typed field that is filled in"""
    out = []
    for node in ast.walk(root):
        for field, typ in IDENT_FIELDS.get(type(node), ()):
            v = getattr(node, field, None)
            if v is None:
                continue
            if typ.endswith("*"):
                out.extend((node, field, x) for x in v)
            else:
                out.append((node, field, v))
    return out


DEFS = (ast.FunctionDef, ast.AsyncFunctionDef, ast.ClassDef)
# identifier fields that do not name anything in THIS module (the deviations are part of the contract of
# _iter_identifier_mentions; each one is justified here and none of them is a binder):
#   ImportFrom.module      the dotted path of another module
#   alias.name + asname    `import a.b as c` / `from m import a as c`: only `c` is written into this namespace
#   alias.name             `import a.b.c` binds `a`: the first component is the identifier
#   def/class in a class   a member whose identifier is never written as a plain Name is reachable as an
#                          attribute only (documented in the docstring of the function, F19-15)


def expected_mentions(root):
    """multiset [(id(node), identifier)] that _iter_identifier_mentions must yield, from the ASDL walk"""
    plain = {n.id for n in ast.walk(root) if isinstance(n, ast.Name)}
    members = set()
    for cls in ast.walk(root):
        if isinstance(cls, ast.ClassDef):
            todo = list(cls.body)
            while todo:
                c = todo.pop()
                if isinstance(c, DEFS):
                    members.add(id(c))
                else:
                    todo.extend(ast.iter_child_nodes(c))
    out = []
    for node, field, ident in asdl_mentions(root):
        if isinstance(node, ast.ImportFrom):
            continue
        if isinstance(node, ast.alias):
            if field == "name" and node.asname is not None:
                continue
            ident = ident.split(".")[0]
        if isinstance(node, DEFS) and id(node) in members and ident not in plain:
            continue
        out.append((id(node), ident, type(node).__name__ + "." + field))
    return out


def mentions_diff(fixes, root):
    """None, or what fixes._iter_identifier_mentions(root) misses / adds w.r.t. the ASDL enumeration"""
    want = expected_mentions(root)
    got = [(id(n), s) for n, s in fixes._iter_identifier_mentions(root)]
    w = sorted((a, b) for a, b, _ in want)
    if w == sorted(got):
        return None
    label = {(a, b): c for a, b, c in want}
    gs, ws = list(got), list(w)
    missing = []
    for k in w:
        if k in gs:
            gs.remove(k)
        else:
            missing.append(k)
    nodes = {id(n): n for n in ast.walk(root)}
    return dict(missing=[dict(node=label[k], identifier=k[1], line=getattr(nodes.get(k[0]), "lineno", None))
                         for k in missing][:6],
                extra=[dict(node=type(nodes.get(k[0])).__name__, identifier=k[1]) for k in gs][:6])


# ---------------------------------------------------------------------------------------------
# binder kinds.  Each: (name, AST place it exercises, lines).  {X} is the identifier under test, a0/b0/g0...
# are neutral helpers.  The lines run inside the scope shape, after the renamed binding {V} has been made.

KINDS = [
    # plain names
    ("name_store", "Name.id/Store", "{X} = 2\nprint({X})"),
    ("name_load", "Name.id/Load", "try:\n    print(_show0({X}))\nexcept NameError:\n    print('undefined')"),
    ("name_del", "Name.id/Del", "{X} = 3\ndel {X}"),
    ("aug_assign", "Name.id/Store", "{X} = 3\n{X} += 1\nprint({X})"),
    ("ann_assign", "Name.id/Store", "{X}: int = 3\nprint({X})"),
    ("ann_only", "Name.id/Store", "{X}: int"),
    ("chain_assign", "Name.id/Store", "a0 = {X} = 4\nprint(a0, {X})"),
    ("tuple_target", "Name.id/Store", "a0, {X} = 1, 2\nprint(a0, {X})"),
    ("list_target", "Name.id/Store", "[a0, {X}] = 1, 2\nprint(a0, {X})"),
    ("starred_target", "Starred", "a0, *{X} = [1, 2, 3]\nprint(a0, {X})"),
    ("starred_list_target", "Starred", "[a0, *{X}] = [1, 2, 3]\nprint(a0, {X})"),
    ("nested_tuple_target", "Name.id/Store", "a0, (b0, {X}) = 1, (2, 3)\nprint({X})"),
    ("walrus", "NamedExpr", "if ({X} := 5) > 2:\n    print({X})"),
    ("walrus_in_comp", "NamedExpr", "print([({X} := i0) for i0 in range(3)])\nprint({X})"),
    ("type_alias", "TypeAlias", "type {X} = int\nprint({X}.__value__)"),
    # loops and context managers
    ("for_target", "For.target", "for {X} in range(3):\n    pass\nprint({X})"),
    ("for_tuple_target", "For.target", "for a0, {X} in [(1, 2)]:\n    pass\nprint({X})"),
    ("for_star_target", "For.target", "for a0, *{X} in [[1, 2, 3]]:\n    pass\nprint({X})"),
    ("with_target", "withitem", "with contextlib.nullcontext(5) as {X}:\n    pass\nprint({X})"),
    ("with_tuple_target", "withitem", "with contextlib.nullcontext((5, 6)) as (a0, {X}):\n    pass\nprint({X})"),
    ("async_for_with", "AsyncFor/AsyncWith",
     "async def g0():\n    async with contextlib.AsyncExitStack() as {X}:\n        pass\n    return {X} is not None\n"
     "print(asyncio.run(g0()))"),
    # comprehensions
    ("listcomp_target", "comprehension.target", "print([{X} for {X} in range(3)])"),
    ("setcomp_target", "comprehension.target", "print(sorted({{{X} for {X} in range(3)}}))"),
    ("dictcomp_target", "comprehension.target", "print({{{X}: 1 for {X} in range(3)}})"),
    ("genexp_target", "comprehension.target", "print(sum({X} for {X} in range(3)))"),
    ("comp_tuple_target", "comprehension.target", "print([{X} for a0, {X} in [(1, 2)]])"),
    ("comp_iter_load", "Name.id/Load", "try:\n    print([a0 for a0 in {X}])\nexcept (NameError, TypeError):\n    print('no')"),
    # parameters
    ("arg", "arg", "def g0({X}):\n    return {X}\nprint(g0(5))"),
    ("arg_default", "arg", "def g0({X}=4):\n    return {X}\nprint(g0())"),
    ("arg_posonly", "arg/posonly", "def g0({X}, /):\n    return {X}\nprint(g0(5))"),
    ("arg_kwonly", "arg/kwonly", "def g0(*, {X}=6):\n    return {X}\nprint(g0())"),
    ("arg_vararg", "arg/vararg", "def g0(*{X}):\n    return {X}\nprint(g0(5, 6))"),
    ("arg_kwarg", "arg/kwarg", "def g0(**{X}):\n    return sorted({X})\nprint(g0(k0=1))"),
    ("lambda_arg", "arg", "g0 = lambda {X}: {X} + 1\nprint(g0(5))"),
    ("lambda_vararg", "arg/vararg", "g0 = lambda *{X}: len({X})\nprint(g0(5, 6))"),
    ("lambda_kwarg", "arg/kwarg", "g0 = lambda **{X}: sorted({X})\nprint(g0(k0=5))"),
    ("arg_annotated", "arg", "def g0({X}: int) -> int:\n    return {X}\nprint(g0(5))"),
    # attributes and keywords
    ("attribute_store", "Attribute.attr", "o0 = types.SimpleNamespace()\no0.{X} = 5\nprint(o0.{X})"),
    ("attribute_load", "Attribute.attr", "print(getattr(types.SimpleNamespace(), 'n0', 0), hasattr(types, '{X}') and types.{X})"),
    ("keyword", "keyword.arg", "print(dict({X}=5))"),
    ("keyword_call_param", "keyword.arg", "def g0(**kw0):\n    return sorted(kw0.items())\nprint(g0({X}=5))"),
    ("class_keyword", "keyword.arg", "class C0:\n    def __init_subclass__(cls, **kw0):\n        print(sorted(kw0))\n"
                                     "class D0(C0, {X}=1):\n    pass"),
    # imports
    ("import_as", "alias.asname", "import os as {X}\nprint({X}.sep)"),
    ("import_dotted_as", "alias.asname", "import os.path as {X}\nprint({X}.sep)"),
    ("from_import_as", "alias.asname", "from os import sep as {X}\nprint({X})"),
    ("import_plain", "alias.name", "try:\n    import {X}\nexcept ImportError:\n    print('no module')"),
    ("from_import_plain", "alias.name", "try:\n    from os import {X}\nexcept ImportError:\n    print('no name')"),
    # exception handlers
    ("except_as", "ExceptHandler.name", "try:\n    raise ValueError(3)\nexcept ValueError as {X}:\n    print({X})"),
    ("except_star_as", "ExceptHandler.name",
     "try:\n    raise ExceptionGroup('g', [ValueError(3)])\nexcept* ValueError as {X}:\n    print(len({X}.exceptions))"),
    ("except_as_unraised", "ExceptHandler.name", "try:\n    pass\nexcept ValueError as {X}:\n    print({X})"),
    # match statements
    ("match_capture", "MatchAs.name", "match [5, 2]:\n    case [{X}, 2]:\n        print({X})"),
    ("match_as", "MatchAs.name", "match [5, 2]:\n    case [5, _] as {X}:\n        print({X})"),
    ("match_irrefutable", "MatchAs.name", "match 7:\n    case {X}:\n        print({X})"),
    ("match_star", "MatchStar.name", "match [5, 2, 3]:\n    case [5, *{X}]:\n        print({X})"),
    ("match_star_middle", "MatchStar.name", "match [5, 2, 3]:\n    case [a0, *{X}, 3]:\n        print(a0, {X})"),
    ("match_star_tuple", "MatchStar.name", "match (5, 2, 3):\n    case (*{X}, 3):\n        print({X})"),
    ("match_star_nomatch", "MatchStar.name", "match 5:\n    case [a0, *{X}]:\n        print(a0)\n    case _:\n        print('no sequence')"),
    ("match_mapping_rest", "MatchMapping.rest", "match {{'a': 1, 'b': 2}}:\n    case {{'a': 1, **{X}}}:\n        print({X})"),
    ("match_mapping_value", "MatchAs.name", "match {{'a': 1}}:\n    case {{'a': {X}}}:\n        print({X})"),
    ("match_class_kwd", "MatchClass.kwd_attrs",
     "match types.SimpleNamespace(**{{'{X}': 5}}):\n    case types.SimpleNamespace({X}=5):\n        print('matched')\n"
     "    case _:\n        print('not matched')"),
    ("match_class_kwd_capture", "MatchAs.name",
     "match types.SimpleNamespace(n0=5):\n    case types.SimpleNamespace(n0={X}):\n        print({X})"),
    ("match_class_attr", "MatchClass.kwd_attrs",
     "try:\n    match _K0():\n        case _K0({X}=1):\n            print('matched')\n        case _:\n"
     "            print('not matched')\nexcept NameError:\n    print('no _K0')"),
    ("match_or_capture", "MatchAs.name", "match [5]:\n    case [{X}] | {X}:\n        print({X})"),
    ("match_value_load", "Name.id/Load", "try:\n    match {X}:\n        case _:\n            print('any')\nexcept NameError:\n    print('undefined')"),
    ("match_guard_load", "Name.id/Load", "try:\n    match 5:\n        case 5 if {X}:\n            print('guard')\n"
                                         "        case _:\n            print('no')\nexcept NameError:\n    print('undefined')"),
    # declarations
    ("global_decl", "Global.names", "def g0():\n    global {X}\n    {X} = 7\ng0()"),
    ("global_read", "Global.names", "def g0():\n    global {X}\n    return '{X}' in globals() and {X}\nprint(_show0(g0()))"),
    ("nonlocal_decl", "Nonlocal.names", "def g0():\n    nonlocal {X}\n    {X} = 7\ng0()"),
    ("nonlocal_decl_bound", "Nonlocal.names", "{X} = 0\ndef g0():\n    nonlocal {X}\n    {X} = 7\ng0()\nprint({X})"),
    # definitions
    ("funcdef", "FunctionDef.name", "def {X}():\n    return 4\nprint({X}())"),
    ("async_funcdef", "AsyncFunctionDef.name", "async def {X}():\n    return 4\nprint(asyncio.run({X}()))"),
    ("classdef", "ClassDef.name", "class {X}:\n    v0 = 4\nprint({X}.v0)"),
    ("method_def", "FunctionDef.name", "class C0:\n    def {X}(self):\n        return 4\nprint(C0().{X}())"),
    ("class_attr_def", "Name.id/Store", "class C0:\n    {X} = 4\nprint(C0.{X})"),
    ("decorator", "Name.id/Load", "def d0(fn):\n    return fn\ntry:\n    @{X}\n    def g0():\n        return 1\n"
                                  "except (NameError, TypeError):\n    print('not a decorator')"),
    ("default_load", "Name.id/Load", "try:\n    def g0(a0={X}):\n        return a0\n    print(callable(g0()) or g0())\n"
                                     "except NameError:\n    print('undefined')"),
    ("base_class_load", "Name.id/Load", "try:\n    class C0({X}):\n        pass\nexcept (NameError, TypeError):\n    print('no base')"),
    ("inner_func_read", "Name.id/Load", "def g0():\n    try:\n        return {X}\n    except NameError:\n        return 'undefined'\nprint(callable(g0()) or g0())"),
    ("inner_func_store", "Name.id/Store", "def g0():\n    {X} = 8\n    return {X}\nprint(g0())"),
    # type parameters (3.12)
    ("typevar_func", "TypeVar.name", "def g0[{X}](a0: {X}) -> {X}:\n    return a0\nprint(g0(5), len(g0.__type_params__))"),
    ("typevar_bound", "TypeVar.name", "def g0[{X}: int](a0: {X}):\n    return a0\nprint(g0(5), len(g0.__type_params__))"),
    ("paramspec_func", "ParamSpec.name", "def g0[**{X}](a0):\n    return a0\nprint(g0(5), len(g0.__type_params__))"),
    ("typevartuple_func", "TypeVarTuple.name", "def g0[*{X}](a0):\n    return a0\nprint(g0(5), len(g0.__type_params__))"),
    ("typevar_class", "TypeVar.name", "class C0[{X}]:\n    v0 = 4\nprint(C0.v0, len(C0.__type_params__))"),
    ("typevar_alias", "TypeVar.name", "type A0[{X}] = list[{X}]\nprint(len(A0.__type_params__))"),
    # f-strings
    ("fstring_field", "FormattedValue", "try:\n    print(f'<{{_show0({X})}}>')\nexcept NameError:\n    print('undefined')"),
    ("fstring_spec", "FormattedValue", "try:\n    print(f'<{{5:{{{X}}}}}>')\nexcept (NameError, TypeError, ValueError):\n    print('no spec')"),
    ("fstring_debug", "FormattedValue", "try:\n    print(f'{{ _show0({X})!r}}')\nexcept NameError:\n    print('undefined')"),
    ("fstring_nested", "FormattedValue", "try:\n    print(f\"{{f'{{_show0({X})}}'}}\")\nexcept NameError:\n    print('undefined')"),
]

# _show0: functions, classes, coroutines print as their kind (their repr contains their own name, which a renaming changes)
PRELUDE = ("import asyncio\nimport contextlib\nimport types\n"
           "def _show0(v0):\n    return v0 if type(v0) in (int, str, bool, tuple, list, dict, set, type(None)) else type(v0).__name__\n")

# kind of the binding that the naming rule wants to rename: (name, binding lines, tail lines, old name,
# {role: identifier under test})
FLAVOURS = [
    ("assign", "{V} = 1", "try:\n    print(_show0({V}))\nexcept NameError:\n    print('unbound')", "myVar",
     {"same": "myVar", "new_snake": "my_var", "new_upper": "MY_VAR"}),
    ("def", "def {V}():\n    return 1", "try:\n    print(callable({V}) and _show0({V}()))\nexcept (NameError, TypeError):\n    print('unbound')",
     "myVar", {"same": "myVar", "new_snake": "my_var"}),
    ("class", "class {V}:\n    v1 = 1", "try:\n    print(isinstance({V}, type) and {V}.v1)\nexcept NameError:\n    print('unbound')",
     "my_var", {"same": "my_var", "new_camel": "MyVar"}),
]


def _ind(text, n=1):
    return textwrap.indent(text, "    " * n)


def _shape(shape, bind, lines, tail):
    """the five scope shapes; None when the shape makes no sense"""
    body = f"{bind}\n{lines}\n{tail}\n"
    if shape == "module":
        return PRELUDE + body
    if shape == "function":
        return PRELUDE + "def _f0():\n" + _ind(body) + "_f0()\n"
    if shape == "nested":          # everything in a function nested in a function
        return PRELUDE + "def _outer0():\n    def inner0():\n" + _ind(body, 2) + "    inner0()\nouter0()\n"
    if shape == "closure":         # bound in the outer function, the binder kind in the inner one
        return (PRELUDE + "def _outer0():\n" + _ind(bind) + "\n    def inner0():\n" + _ind(f"{lines}\n{tail}\n", 2)
                + "    inner0()\n" + _ind(tail) + "\nouter0()\n")
    if shape == "class":
        return PRELUDE + "class _K0:\n" + _ind(body)
    if shape == "method":          # bound in the class body, the binder kind inside a method
        return (PRELUDE + "class _K0:\n" + _ind(bind) + "\n    def m0(self):\n" + _ind(f"{lines}\n", 2)
                + "        return 0\nK0().m0()\n")
    raise KeyError(shape)


SHAPES = ["function", "nested", "closure", "class", "method", "module"]


def binder_family(flavours=None):
    """(label dict, source) -- only programs that compile (nonlocal at module level etc. are dropped)"""
    for fname, bind, tail, old, roles in FLAVOURS:
        if flavours and fname not in flavours:
            continue
        for role, x in roles.items():
            for kname, place, lines in KINDS:
                for shape in SHAPES:
                    src = _shape(shape, bind.format(V=old), lines.format(X=x), tail.format(V=old))
                    try:
                        compile(src, "<binder>", "exec")
                    except SyntaxError:
                        continue
                    yield dict(family="binder-kinds", kind=kname, place=place, role=role, shape=shape, flavour=fname,
                               names=[old, x]), src


def family_places():
    """the AST places the family really contains, by (node type, identifier field) from the ASDL walk"""
    seen = {}
    for label, src in binder_family(["assign"]):
        if label["role"] != "same":
            continue
        for node, field, ident in asdl_mentions(ast.parse(src)):
            if ident == label["names"][1]:
                seen.setdefault(type(node).__name__ + "." + field, label["kind"])
    return seen
