"""C02 -- Every individual rewrite rule preserves program behaviour (MiniPyModel.v, RulesFlowModel.v + proofs).

Proof: theorems of coq/props/C02.v (per modelled rule: `p ~ r_model p` for every MiniPy program, or the
refuted/partial pair).  Tie to /repo on every run:
  * semantics validation: printed MiniPy programs run under CPython with scripted stubs vs MiniPyModel.exec;
  * kernel correspondence: core.is_blocking / core._may_leave_iteration vs the model on the fragment;
  * rule correspondence: the REAL rule function on the printed program, parsed back, vs the Gallina rule model
    (exhaustive small shapes first, then seeded random);
  * property oracle on the same programs: before/after executed under every stub script up to a bound;
  * sweep (harness/c02_sweep.py; not a proof): EVERY public rule function on its repository examples and on
    per-rule trigger programs, executed before/after in subprocesses.
An optional sibling module harness.c02_expr (expression/collection tranche) is invoked when present."""
from __future__ import annotations

import itertools
import json
import re
import os
import random
import time
from collections import Counter
from pathlib import Path

from . import common
from . import minipy as M
from . import c02_sweep

PID = "C02"

# ------------------------------------------------------------------------------------------------
# modelled rules: name -> index used by RulesFlowModel.apply_rule

RULES = {
    "fixes.remove_dead_ifs": 0,
    "fixes.remove_redundant_else": 1,
    "fixes.fix_if_return": 2,
    "fixes.fix_if_assign": 3,
    "fixes.swap_if_else": 4,
    "fixes.delete_unreachable_code": 5,
    "fixes.early_return": 6,
    "fixes.early_continue": 7,
    "fixes.breakout_common_code_in_ifs": 8,
    "fixes.move_before_loop": 9,
}

B = lambda b: ("B", b)  # noqa
EV1, EV2, EV3 = ("ev", 1, ()), ("ev", 2, (0,)), ("ev", 3, ())
ASG = ("asg", 0, ("V", ("O", True, 0)))
RET = ("ret", ("V", ("O", True, 1)))
RETV = ("ret", ("X", 0))
C1, C2, C3 = ("U", 1, ()), ("U", 2, (0,)), ("U", 3, ())
KT, KF = ("K", True), ("K", False)
IK0, IK2, IU1 = ("IK", 0), ("IK", 2), ("IU", 1, ())


def tval(t):
    if t[0] == "K":
        return t[1]
    if t[0] == "N":
        v = tval(t[1])
        return None if v is None else not v
    return None


def is_elif(e):
    return len(e) == 1 and e[0][0] == "if"


def no_false_if_with_elif(mods, p):
    """`if <falsy literal>: A elif ...` makes remove_dead_ifs emit unparsable text (a dedented `elif`), which rolls
    back the whole pass: outside the correspondence domain of that rule (the model leaves the node in place)."""
    return not any(s[0] == "if" and tval(s[1]) is False and is_elif(s[3]) for s in M.walk(p))


def swap_domain(mods, p):
    """swap_if_else skips `if`s that _sequential_similar_ifs blacklists (a text-similarity heuristic, not modelled)
    and rewrites only the FIRST passing implicit if/else candidate in an address-dependent set order: the model
    covers programs without blacklisted ifs and with at most one passing candidate."""
    fixes, core = mods["fixes"], mods["core"]
    src = M.prog_src(p)
    core.parse.cache_clear()
    root = core.parse(src)
    if fixes._sequential_similar_ifs(src, root):
        return False
    n = 0
    for stmt, body, orelse in fixes._iter_implicit_if_elses(root):
        if orelse and any(core.is_blocking(x) for x in body) and not any(core.is_blocking(x) for x in orelse):
            continue
        if orelse and fixes._orelse_preferred_as_body(body, orelse):
            n += 1
    # the text back end fails to splice a multi-line replacement at an indentation of 16 columns or more
    # ("Failed to replace code", the pass is rolled back; C14's territory): keep every site above that
    # (an implicit swap nests the rest of the block one level deeper)
    if M.depth(p) + (1 if n else 0) > 3:
        return False
    return n <= 1


def flat_loops(mods, p):
    """move_before_loop is modelled on loops whose bodies (and else clauses) hold simple statements only"""
    for s in M.walk(p):
        if s[0] in ("while", "for"):
            if any(x[0] in ("if", "while", "for") for x in s[2] + s[3]):
                return False
    return True


def no_compound_in_dead_while(mods, p):
    """delete_unreachable_code yields the deletion of `while <falsy literal>` (no else) WITHOUT closing its
    transaction: the rewrites of the next visited node join it, and when that node lies inside the loop the
    transaction overlaps itself and is dropped in every pass (the dead loop then survives; harmless).  The
    breadth-first bookkeeping is not modelled: dead loops with a compound statement inside are outside the domain."""
    if any(s[0] == "while" and tval(s[1]) is False and s[3] for s in M.walk(p)):
        # `while <falsy literal>: ... else: ...`: on /repo main the repair 7d823f2 (C15) leaves the loop alone,
        # while this tranche's model replaces the dead body by `pass`; both are sound, the shape is covered by
        # C15's consumer model (ConstFoldModel) and by the execution sweep, and is outside this correspondence.
        return False
    return not any(s[0] == "while" and tval(s[1]) is False and not s[3]
                   and any(x[0] in ("if", "while", "for") for x in M.walk(s[2])) for s in M.walk(p))


EXTRA_TRANCHES = ("comp", "coll", "cls", "bool", "perf", "str", "abs", "idx", "ctl")   # optional harness/c02_<name>.py modules

DOMAIN = {"fixes.remove_dead_ifs": no_false_if_with_elif, "fixes.swap_if_else": swap_domain,
          "fixes.delete_unreachable_code": no_compound_in_dead_while,
          "fixes.move_before_loop": flat_loops}


LAYOUT_UNITS = ["  ", "\t", "   "]


def relayout_src(src: str, unit: str) -> str:
    """printed MiniPy programs use 4 blanks per level and have no string literals: re-indent every line"""
    out = []
    for line in src.split("\n"):
        body = line.lstrip(" ")
        out.append(unit * ((len(line) - len(body)) // 4) + body)
    return "\n".join(out)


def real_rule(mods, name):
    m, f = name.split(".")
    return getattr(mods[m], f)


def apply_real(mods, name, src):
    mods["core"].parse.cache_clear()
    with common.quiet():
        return real_rule(mods, name)(src)


# ------------------------------------------------------------------------------------------------
# program families (seed-independent)


def fam_generic(tier):
    """one compound statement (every kind) with bodies of <= 2 atoms, optional else of <= 2 atoms, an optional
    leading/trailing event; then depth 2 with a reduced alphabet."""
    atoms = [EV1, RET, ("raise",), ("pass",)]
    latoms = atoms + [("break",), ("cont",)]
    out = []
    bodies = list(M.blocks(atoms, 1, 2))
    lbodies = list(M.blocks(latoms, 1, 2))
    small = list(M.blocks([EV1, RET], 1, 1))
    for t in (KT, KF, C1):
        for b in bodies:
            for e in [[]] + list(M.blocks(atoms, 1, 1)):
                out.append([("if", t, b, e), EV3])
        for b in lbodies:
            for e in [[], [EV2], [RET]]:
                out.append([("while", t, b, e), EV3])
    for it in (IK0, IK2, IU1):
        for b in lbodies:
            for e in [[], [EV2], [RET]]:
                out.append([("for", it, b, e), EV3])
    # depth 2: if inside if / loop, elif chains, loops inside if
    inner_ifs = [("if", t, b, e) for t in (KT, KF, C2) for b in small for e in [[]] + small]
    inner_loops = [("while", t, [x], e) for t in (KF, C2) for x in (EV1, ("break",)) for e in ([], [EV2])]
    for s in inner_ifs + inner_loops:
        for t in (KT, KF, C1):
            out.append([("if", t, [s], []), EV3])
            out.append([("if", t, [EV1], [s]), EV3])           # elif form when s is an if
            out.append([("if", t, [s, EV1], [RET]), EV3])
            out.append([("if", t, [RET], [s, EV2]), EV3])
        out.append([("for", IK2, [s], []), EV3])
        out.append([("while", C1, [EV2, s], [EV1])])
    if tier != "quick":
        for t in (KT, KF, C1):
            for b in bodies:
                for e in M.blocks(atoms, 2, 2):
                    out.append([EV2, ("if", t, b, e)])
    return [p for p in out if M.well_formed(p)]


def contexts(core_stmts, tail=None):
    """put a statement sequence at top level, inside if / elif / else / loops (depth <= 2 around it)"""
    tail = tail or []
    c = list(core_stmts)
    yield c + tail
    yield [EV1] + c + tail
    yield [("if", C3, c, [])] + tail
    yield [("if", C3, [EV1], c)] + tail                      # else (elif when c is a single if)
    yield [("if", C3, [EV1], [EV2] + c)] + tail
    yield [("if", C3, [RET], [("if", C2, [EV1], c)])] + tail   # under an elif
    yield [("for", IK2, c, [])] + tail
    yield [("while", C3, [EV1] + c, c)] + tail
    yield [("for", IU1, [("if", C3, c, [EV1])], [])] + tail


def fam_if_return_assign(tier):
    out = []
    consts = [B(True), B(False), ("O", True, 0), ("O", False, 0)]
    tests = [C1, C2, ("N", C1), KT, KF, ("N", ("N", C2))]
    for t in tests:
        for a in consts:
            for b in consts:
                if tier == "quick" and a[0] == "O" and b[0] == "O":
                    continue
                site_r = [("if", t, [("ret", ("V", a))], []), ("ret", ("V", b))]
                site_a = [("if", t, [("asg", 0, ("V", a))], [("asg", 0, ("V", b))]), EV2]
                for c in contexts(site_r, [EV3]):
                    out.append(c)
                for c in contexts(site_a, [RETV]):
                    out.append(c)
        # near misses
        out.append([("if", t, [("ret", ("V", B(True)))], [EV1]), ("ret", ("V", B(False)))])
        out.append([("if", t, [EV1, ("ret", ("V", B(True)))], []), ("ret", ("V", B(False)))])
        out.append([("if", t, [("asg", 0, ("V", B(True)))], [("asg", 1, ("V", B(False)))]), RETV])
        out.append([("if", t, [("asg", 0, ("V", B(True)))], []), RETV])
        out.append([("if", t, [("ret", ("V", B(True)))], []), EV1, ("ret", ("V", B(False)))])
    return [p for p in out if M.well_formed(p)]


# rules whose sites are ordinary if/while shapes: the generic family is used in full also in the quick tier
GENERIC_SENSITIVE = {"fixes.remove_dead_ifs", "fixes.remove_redundant_else", "fixes.swap_if_else",
                     "fixes.delete_unreachable_code"}
def fam_swap(tier):
    out = []
    long_b = [EV1, EV2, EV3, ASG]
    inner = ("if", C2, [RET], [("raise",)])
    inner2 = ("if", C2, [EV1], [EV2])
    for t in (C1, ("N", C1), KT):
        for b in ([("pass",)], [EV1], [RET], long_b, long_b + [RET], [inner], [inner, RET], [inner2, inner2, RET],
                  [("pass",), EV1], [EV1, ("raise",)]):
            for e in ([("pass",)], [EV2], [RET], [("raise",), EV1], [inner], [inner2], [RET, EV1, EV2, EV3],
                      [("if", C3, [EV1], [])]):
                out.append([("if", t, b, e), EV3])
                out.append([("for", IK2, [("if", t, b, e)], [])])
            # implicit if/else: blocking body, no else, followed by the rest of the block
            for rest in ([RET], [EV1, RET], [("raise",)], [inner], [EV2]):
                out.append([("if", t, b, [])] + rest)
                out.append([EV3, ("if", C3, [("if", t, b, [])] + rest, [])])
    for t in (C1,):
        out.append([("if", t, [RET], [("if", C2, [("pass",)], [EV1])]), EV3])        # elif that could swap
        out.append([("if", t, [("if", C2, [("pass",)], [EV1])], [("if", C3, [("pass",)], [EV2])]), EV3])
        out.append([("while", t, [("if", C2, [("cont",)], [EV1, EV2, EV3, ASG]), EV3], [])])
        out.append([("while", t, [("if", C2, [EV1, EV2, EV3, ASG], [("break",)]), EV3], [])])
    return [p for p in out if M.well_formed(p)]


def fam_early_return(tier):
    out = []
    A = lambda x, e=("V", ("O", True, 1)): ("asg", x, e)  # noqa
    leaves = [[A(0)], [EV1, A(0, ("T", C2))], [A(0, ("X", 1))], [A(1)], [EV1], [A(0), EV1], [RET]]
    inner = [("if", C2, b, e) for b in leaves[:4] for e in [[]] + leaves[:3]]
    for t in (C1, KT):
        for b in leaves + [[i] for i in inner[:6]] + [[EV2, inner[1]]]:
            for e in [[]] + leaves + [[i] for i in inner[:8]]:
                for ret in (("ret", ("X", 0)), ("ret", ("X", 1)), ("ret", ("V", B(True)))):
                    out.append([("if", t, b, e), ret])
                out.append([EV3, ("if", t, b, e), ("ret", ("X", 0))])
                out.append([("if", t, b, e), ("ret", ("X", 0)), EV3])
                out.append([("if", C3, [("if", t, b, e), ("ret", ("X", 0))], [])])
    return [p for p in out if M.well_formed(p)]


def fam_early_continue(tier):
    out = []
    long6 = [EV1, EV2, EV3, ASG, EV1, EV2]
    long5 = long6[:5]
    nest = ("if", C2, [EV1, EV2], [EV3])
    bodies = [[EV1], [EV1, EV2, EV3], long5, long6, long6 + [("cont",)], [nest, EV1, EV2, EV3], [nest, nest, EV1],
              [("for", IK2, [EV1, EV2], []), EV1, EV2, EV3, EV1], [("if", C2, long5, [])]]
    elses = [[], [EV1], [EV1, EV2], [EV1, EV2, EV3], [("if", C3, [EV1], [EV1, EV2, EV3])], [("if", C3, [EV1], [EV2])],
             [("while", C3, [("if", C2, [EV1], [EV1, EV2, EV3])], [])]]
    for t in (C1, ("N", C1), KT):
        for b in bodies:
            for e in elses:
                last = ("if", t, b, e)
                for it in (IK2, IU1):
                    out.append([("for", it, [last], [])])
                    out.append([("for", it, [EV3, last], [EV1]), EV2])
                out.append([("for", IK2, [last, EV3], [])])          # not the last statement
                out.append([("while", C3, [last], [])])               # not a for loop
                out.append([("if", C3, [("for", IU1, [EV2, last], [])], [])])
    # nested loops with two sites
    last = ("if", C1, long6, [])
    out.append([("for", IK2, [("for", IU1, [last], []), ("if", C2, long6, [])], [])])
    out.append([("for", IK2, [("if", C2, [("for", IU1, [last], [])] + long5, [])], [])])
    out.append([("for", IK2, [("if", C2, [EV1], [("for", IU1, [last], []), EV1, EV2])], [])])
    return [p for p in out if M.well_formed(p)]


def fam_breakout(tier):
    out = []
    X, Y, Z = EV1, EV2, ASG
    atoms = [X, Y, RET, ("pass",), Z]
    blocks2 = [list(c) for n in (1, 2) for c in itertools.product(atoms, repeat=n)]
    for t in (C1, KT):
        for b in blocks2:
            for e in blocks2:
                out.append([EV3, ("if", t, b, e), EV3])
    # nested: deep first / last leaves
    def iff(t, b, e):
        return ("if", t, b, e)
    inner_same = iff(C2, [X, Y], [X, Z])
    inner_end = iff(C2, [Y, X], [Z, X])
    inner_ret = iff(C2, [RET], [Z, X])
    inner_noelse = iff(C2, [X], [])
    cases = [
        ([inner_same], [X, Z]), ([inner_same, Y], [inner_same, Z]), ([inner_end], [Y, X]), ([Y, inner_end], [X]),
        ([inner_ret], [Y, X]), ([inner_ret], [RET]), ([inner_noelse], [X]), ([X, inner_noelse], [X, Y]),
        ([inner_same], [inner_same]), ([inner_end], [inner_end]), ([X], [iff(C3, [X], [X])]), ([iff(C3, [Y, X], [X])], [X]),
        ([Y, X], [iff(C3, [X], [RET])]), ([X], [X]), ([("pass",)], [("pass",)]), ([X, RET], [X, RET]),
        ([iff(C2, [X, RET], [X, ("raise",)])], [X, Y]), ([Y, iff(C2, [RET], [X])], [Z, iff(C3, [X], [("raise",)])]),
    ]
    for t in (C1, ("N", C1)):
        for b, e in cases:
            out.append([iff(t, b, e), EV3])
            out.append([EV3, iff(C3, [iff(t, b, e)], [Y])])
            out.append([("for", IK2, [iff(t, b, e)], [])])
    # implicit else
    for b in ([X, RET], [X, Y, ("raise",)], [RET], [iff(C2, [X, RET], [X, ("raise",)])], [X]):
        for rest in ([X, Y], [X], [RET], [iff(C3, [X], [X, Y])], [Y, X]):
            out.append([iff(C1, b, [])] + rest)
            out.append([("while", C3, [iff(C1, b + [("break",)], [])] + rest, [])])
    return [p for p in out if M.well_formed(p)]


def fam_move_before_loop(tier):
    out = []
    A = lambda x, e: ("asg", x, e)  # noqa
    K2, K3 = ("V", ("O", True, 0)), ("V", ("O", True, 1))
    atoms = [A(0, K2), A(0, K3), A(1, ("X", 0)), A(0, ("X", 1)), A(1, ("T", C1)), ("ev", 1, (0,)), ("ev", 2, ()),
             ("break",), ("cont",), RET, ("pass",), A(2, ("V", B(True)))]
    heads = [("while", C1), ("while", ("U", 2, (0,))), ("while", KT), ("for", IK0), ("for", IK2), ("for", ("IU", 1, (0,)))]
    bodies = [list(c) for n in (1, 2) for c in itertools.product(atoms, repeat=n)]
    bodies += [[a, b, c] for a in atoms[:6] for b in atoms[:4] for c in (atoms[0], atoms[2], atoms[5])]
    for (k, h) in heads:
        for b in (bodies if tier != "quick" else bodies[::2]):
            out.append([(k, h, b, []), ("ev", 3, (0, 1))])
    for b in bodies[::7]:
        out.append([("if", C3, [("while", C1, b, [EV2])], [("for", IK2, b, [])]), ("ev", 3, (0, 1, 2))])
    return [p for p in out if M.well_formed(p)]


FAMILIES = {"fixes.move_before_loop": fam_move_before_loop, "fixes.breakout_common_code_in_ifs": fam_breakout, "fixes.swap_if_else": fam_swap, "fixes.early_return": fam_early_return,
            "fixes.early_continue": fam_early_continue, "fixes.fix_if_return": fam_if_return_assign, "fixes.fix_if_assign": fam_if_return_assign}


def rand_test(rnd, known=0.3):
    r = rnd.random()
    if r < known:
        return ("K", rnd.random() < 0.5)
    t = ("U", rnd.randint(1, 4), tuple(sorted(rnd.sample(range(M.NV), rnd.choice([0, 0, 1])))))
    return ("N", t) if rnd.random() < 0.2 else t


def rand_rexpr(rnd):
    r = rnd.random()
    if r < 0.4:
        return ("V", rnd.choice([B(True), B(False), ("O", True, rnd.randint(0, 3)), ("O", False, rnd.randint(0, 3))]))
    if r < 0.7:
        return ("X", rnd.randrange(M.NV))
    t = rand_test(rnd, 0.0)
    return ("T", t)


def rand_block(rnd, depth, in_loop, lo=1, hi=3):
    b = []
    for _ in range(rnd.randint(lo, hi)):
        r = rnd.random()
        if r < 0.06:      # fix_if_return shapes
            v = rnd.random() < 0.5
            w = (not v) if rnd.random() < 0.85 else v
            b += [("if", rand_test(rnd), [("ret", ("V", B(v)))], []), ("ret", ("V", B(w)))]
        elif r < 0.12:    # fix_if_assign shapes
            v = rnd.random() < 0.5
            x = rnd.randrange(M.NV)
            y = x if rnd.random() < 0.85 else rnd.randrange(M.NV)
            b.append(("if", rand_test(rnd), [("asg", x, ("V", B(v)))], [("asg", y, ("V", B(not v)))]))
        else:
            b.append(rand_stmt(rnd, depth, in_loop))
    return b


def rand_stmt(rnd, depth, in_loop):
    r = rnd.random()
    if depth > 0 and r < 0.45:
        k = rnd.choice(["if", "if", "if", "while", "for"])
        if k == "if":
            e = [] if rnd.random() < 0.4 else rand_block(rnd, depth - 1, in_loop, 1, 2)
            return ("if", rand_test(rnd), rand_block(rnd, depth - 1, in_loop), e)
        e = [] if rnd.random() < 0.7 else rand_block(rnd, depth - 1, in_loop, 1, 2)
        if k == "while":
            return ("while", rand_test(rnd, 0.25), rand_block(rnd, depth - 1, True), e)
        it = ("IK", rnd.randint(0, 2)) if rnd.random() < 0.5 else ("IU", rnd.randint(1, 3), ())
        return ("for", it, rand_block(rnd, depth - 1, True), e)
    atoms = ["ev", "ev", "ev", "asg", "ret", "raise", "pass"] + (["break", "cont"] if in_loop else [])
    k = rnd.choice(atoms)
    if k == "ev":
        return ("ev", rnd.randint(1, 5), tuple(sorted(rnd.sample(range(M.NV), rnd.choice([0, 0, 1, 2])))))
    if k == "asg":
        return ("asg", rnd.randrange(M.NV), rand_rexpr(rnd))
    if k == "ret":
        return ("ret", rand_rexpr(rnd))
    return (k,)


def rand_prog(rnd, depth=3):
    return rand_block(rnd, depth, False, 1, 4)


# ------------------------------------------------------------------------------------------------
# semantics validation: CPython vs MiniPyModel.exec


def scripts_upto(n, vals):
    for k in range(n + 1):
        yield from (list(c) for c in itertools.product(vals, repeat=k))


def draws_needed(p):
    """upper bound on oracle draws worth scripting = number of unknown tests / generator loops (syntactic)"""
    n = 0
    for s in M.walk(p):
        if s[0] in ("if", "while") and s[1][0] != "K":
            n += 1
        if s[0] == "for" and s[1][0] == "IU":
            n += 1
        if s[0] in ("asg", "ret") and s[1 if s[0] == "ret" else 2][0] == "T":
            n += 1
    return n


SEM_VALS = [B(True), B(False), ("O", True, 0), ("O", False, 0)]
INIT = [("O", True, 7), ("O", False, 1), B(True)]


def sem_cases(progs, rnd, per_prog=6):
    """(program, init, script, expected) with expected from CPython"""
    out = []
    for p in progs:
        src = M.prog_src(p)
        n = min(draws_needed(p) + 1, 3)
        scripts = list(scripts_upto(n, [B(True), B(False)]))
        if len(scripts) > per_prog:
            scripts = scripts[:2] + rnd.sample(scripts[2:], per_prog - 2)
        # a script with non-boolean values as well
        scripts.append([rnd.choice(SEM_VALS) for _ in range(n + 2)])
        for sc in scripts:
            try:
                exp = M.run_python(src, INIT, sc, 4000)
            except Exception as ex:  # noqa
                out.append((p, INIT, sc, ("harness-error", repr(ex))))
                continue
            out.append((p, INIT, sc, exp))
    return out


def g_sem_case(c):
    p, init, sc, exp = c
    if exp is None:
        e = "None"
    else:
        out, tr, env = exp
        e = f"(Some ({M.g_outcome(out)}, {M.g_list(tr, M.g_event)}, {M.g_list(env, M.g_val)}))"
    return f"(mkSem {M.g_prog(p)} {M.g_list(init, M.g_val)} {M.g_list(sc, M.g_val)} {e})"


PRELUDE = ("From Coq Require Import List Bool Arith.\nImport ListNotations.\n"
           "Require Import Pyrefact.Base Pyrefact.MiniPyModel Pyrefact.RulesFlowModel.\n")


def write_cases(wd: Path, tag: str, items, gfun, ctype, okfun, shard=400):
    files = []
    for k in range(0, len(items), shard):
        part = items[k:k + shard]
        p = wd / f"{tag}_{k // shard}.v"
        p.write_text(PRELUDE + f"Definition cases : list ({ctype}) := [\n " + ";\n ".join(gfun(c) for c in part)
                     + "\n].\nEval vm_compute in (bad_idx " + okfun + " cases).\n")
        files.append((p, part))
    return files


def eval_case_files(files):
    """-> (list of failing items, list of evaluation errors)"""
    res = common.run_case_files([p for p, _ in files])
    bad, errs = [], []
    for p, part in files:
        rc, out = res[p]
        idx = common.parse_nat_list(out) if rc == 0 else None
        if idx is None:
            errs.append({"file": p.name, "log": out[-1500:]})
            continue
        bad += [part[i] for i in idx]
    return bad, errs


# ------------------------------------------------------------------------------------------------
# kernel correspondence: is_blocking / may_leave


def stmt_node(s):
    import ast
    src = M.prog_src([("while", ("U", 9, ()), [s], [])])   # inside a loop so that break/continue parse
    return ast.parse(src).body[0].body[0].body[0]


def blocking_cases(mods, stmts):
    import ast
    core = mods["core"]
    out = []
    for s in stmts:
        n = stmt_node(s)
        with common.quiet():
            out.append((s, [bool(core.is_blocking(n)), bool(core.is_blocking(n, ast.While)),
                            bool(core._may_leave_iteration(n))]))
    return out


# ------------------------------------------------------------------------------------------------
# rule correspondence + property oracle on MiniPy programs


def fires_and_expected(mods, name, p):
    src = M.prog_src(p)
    try:
        out = apply_real(mods, name, src)
    except Exception as ex:  # noqa
        return src, None, ("raised", type(ex).__name__, str(ex)[:200])
    try:
        q = M.parse_prog(out)
    except (M.ParseError, SyntaxError) as ex:
        return src, out, ("unparsable", str(ex)[:300])
    return src, out, q


def behaviours(p, max_draws=3, vals=(B(True), B(False))):
    src = M.prog_src(p) if not isinstance(p, str) else p
    res = []
    for sc in scripts_upto(max_draws, list(vals)):
        r = M.run_python(src, INIT, sc, 3000)
        res.append(None if r is None else (r[0], tuple(r[1])))
    return res


def oracle_differs(p, q, max_draws=3, vals=(B(True), B(False), ("O", True, 0))):
    """first stub script under which the two function bodies are observably different (outcome incl. returned
    value, trace); None if there is none up to the bound"""
    sp, sq = M.prog_src(p), M.prog_src(q)
    for sc in scripts_upto(max_draws, list(vals)):
        a = M.run_python(sp, INIT, sc, 3000)
        b = M.run_python(sq, INIT, sc, 3000)
        oa = None if a is None else (a[0], tuple(a[1]))
        ob = None if b is None else (b[0], tuple(b[1]))
        if oa != ob:
            return {"script": sc, "before": repr(oa), "after": repr(ob)}
    return None


# structural predicates of the known findings of the modelled rules (sig= field), on a MiniPy case
# case = dict(rule, program, result, diff)
def blocks_of(p):
    yield p
    for s in M.walk(p):
        if s[0] in ("if", "while", "for"):
            yield s[2]
            yield s[3]


def _first_leaves(s):
    """fixes._all_branches(..., expand_ifs_on="start"); None = IndexError"""
    if s[0] != "if":
        return [s]
    if not s[2] or not s[3]:
        return None
    a, b = _first_leaves(s[2][0]), _first_leaves(s[3][0])
    return None if a is None or b is None else a + b


def _reads(t):
    return set() if t[0] == "K" else set(t[2]) if t[0] == "U" else _reads(t[1])


def _interferes(x, t):
    """may moving statement x in front of the evaluation of test t be observable?"""
    if tval(t) is not None:
        return False
    if x[0] == "pass":
        return False
    if x[0] == "asg" and x[2][0] in ("V", "X"):
        return x[1] in _reads(t)
    return True          # events, returns, raises, assignments that evaluate a call


def _sig_common_stmt_hoisted_over_test(case):
    """some `if` (with an else, or with a blocking body and an implicit else) has equal first statements / first
    leaves in both branches, and that statement interferes with the test it is moved over"""
    for blk in blocks_of(case["program"]):
        for i, s in enumerate(blk):
            if s[0] != "if":
                continue
            other = s[3] if s[3] else blk[i + 1:]
            if not other or not s[2]:
                continue
            # the rule is iterated: after the common first statement is moved, the next common one is first
            k = 0
            while k < min(len(s[2]), len(other)) and s[2][k] == other[k]:
                if _interferes(s[2][k], s[1]):
                    return True
                k += 1
            if k < min(len(s[2]), len(other)):
                a, b = _first_leaves(s[2][k]), _first_leaves(other[k])
                if a and b and all(x == a[0] for x in a + b) and _interferes(a[0], s[1]):
                    return True
    return False


def _may_run_zero_times(s):
    if s[0] == "while":
        return tval(s[1]) is not True
    return not (s[1][0] == "IK" and s[1][1] >= 1)


def _plain_assign(x):
    return x[0] == "asg" and x[2][0] in ("V", "X")


def _sig_hoist_zero_iterations(case):
    """an assignment `x = <constant/variable>` stands at the top level of the body of a loop that may run zero times"""
    return any(s[0] in ("while", "for") and _may_run_zero_times(s) and any(_plain_assign(x) for x in s[2])
               for s in M.walk(case["program"]))


# keyed by the same sig names as the sweep's predicates (harness/c02_sweep.py): one finding line per root cause
# (the predicates of F02-21 `bool_coercion_dropped` and F02-11 `hoist_reassigned_variable` went away with the repairs
# 4486780 / d47dff7: such a difference is a VIOLATION again)
SIGS: dict = {"common_stmt_hoisted_over_test": _sig_common_stmt_hoisted_over_test,
              "hoist_out_of_zero_iteration_loop": _sig_hoist_zero_iterations}


live_findings = c02_sweep.live_findings


def match_finding(kf, case):
    for f in kf:
        if f.kind != "finding" or f.fields.get("site") not in (case["rule"], "*"):
            continue
        pred = SIGS.get(f.fields.get("sig", ""))
        try:
            if pred and pred(case):
                return f
        except Exception:  # noqa
            continue
    return None


# ------------------------------------------------------------------------------------------------


class _IdSet:
    def __init__(self, items):
        self.ids = {id(x) for x in items}

    def __contains__(self, x):
        return id(x) in self.ids


def check(run: common.Run):
    wd = common.workdir(PID)
    ps = common.proof_step(run, PID, wd)
    mods = common.import_impl()
    rnd = random.Random(run.seed)
    quick = run.tier == "quick"
    hist = Counter()
    kf = live_findings()
    t0 = time.time()

    # ---- program families
    exh = fam_generic(run.tier)
    nrand = 250 if quick else 3000
    rnds = [p for p in (rand_prog(rnd) for _ in range(nrand)) if M.well_formed(p)]
    rnds_set = _IdSet(rnds)
    timing = {}

    # ---- semantics validation
    sem_progs = exh[:: (5 if quick else 1)] + rnds[: (120 if quick else 1500)]
    sem = sem_cases(sem_progs, rnd, per_prog=4 if quick else 8)
    sem_bad_harness = [c for c in sem if isinstance(c[3], tuple) and c[3] and c[3][0] == "harness-error"]
    sem_ok = [c for c in sem if c not in sem_bad_harness]
    files = write_cases(wd, "sem", sem_ok, g_sem_case, "sem_case", f"(sem_case_ok 400 {M.NV})")
    timing["sem_gen"] = round(time.time() - t0, 1)

    # ---- kernel correspondence (is_blocking)
    stmts = []
    seen = set()
    for p in exh + rnds:
        for s in M.walk(p):
            key = M.g_stmt(s)
            if key not in seen:
                seen.add(key)
                stmts.append(s)
    bl = blocking_cases(mods, stmts)
    files_bl = write_cases(wd, "blk", bl, lambda c: f"({M.g_stmt(c[0])}, {M.g_list(c[1], M.g_bool)})",
                           "stmt * list bool", "blocking_case_ok")
    timing["blocking_gen"] = round(time.time() - t0, 1)

    # ---- rule correspondence
    rule_items = []          # (k, name, p, src, out, q)
    layout_fail = []
    impl_problems = []
    fired = Counter()
    for name, k in RULES.items():
        dom = DOMAIN.get(name, lambda mods, p: True)
        special = FAMILIES[name](run.tier) if name in FAMILIES else []
        hist[f"special-family:{name}"] = len(special)
        gen = exh if (not quick or name in GENERIC_SENSITIVE) else exh[::6]
        unfired_random = 0
        for p in special + gen + rnds:
            if not dom(mods, p):
                hist[f"outside-domain:{name}"] += 1
                continue
            src, out, q = fires_and_expected(mods, name, p)
            if isinstance(q, tuple):
                impl_problems.append({"rule": name, "source": src, "output": out, "problem": q})
                continue
            if q != p:
                fired[name] += 1
                hist[f"fired:{name}"] += 1
                # layout independence: the same program written with another indentation unit must be rewritten to
                # the same tree (hunt C01-b-13 / C15-7: textual dedent by four blanks)
                if fired[name] % (7 if quick else 2) == 0:
                    unit = LAYOUT_UNITS[(fired[name] // 7) % len(LAYOUT_UNITS)]
                    src2 = relayout_src(src, unit)
                    try:
                        out2 = apply_real(mods, name, src2)
                        q2 = M.parse_prog(out2)
                    except Exception as ex:  # noqa
                        out2, q2 = None, ("raised-or-unparsable", type(ex).__name__, str(ex)[:200])
                    hist[f"layout-variants:{name}"] += 1
                    if q2 == p:
                        # the rule does not fire in this layout (the text back end could not splice its 4-blank
                        # unparse into the file): a missed rewrite, not a behaviour change
                        hist[f"layout-not-applied:{name}"] += 1
                    elif q2 != q:
                        layout_fail.append({"rule": name, "program": p, "source": src2, "output": out2,
                                            "expected_tree_from_4_space_layout": out, "parsed": q2, "unit": repr(unit)})
            elif quick and p in rnds_set:
                # quick tier: keep only a quota of random programs on which the rule does nothing
                unfired_random += 1
                if unfired_random > 60:
                    continue
            rule_items.append((k, name, p, src, out, q))
    files_rule = write_cases(wd, "rule", rule_items,
                             lambda c: f"({c[0]}, {M.g_prog(c[2])}, " + ("None" if c[5] == c[2] else f"Some {M.g_prog(c[5])}") + ")",
                             "nat * list stmt * option (list stmt)", "rule_case_ok")
    timing["rules_gen"] = round(time.time() - t0, 1)

    sem_fail, e1 = eval_case_files(files)
    bl_fail, e2 = eval_case_files(files_bl)
    rule_fail, e3 = eval_case_files(files_rule)
    timing["coq_eval"] = round(time.time() - t0, 1)

    # ---- property oracle on the MiniPy programs on which a modelled rule fired (execute before/after)
    oracle_fail, oracle_known = [], Counter()
    known_example = {}
    n_oracle = 0
    stride = {}
    for name in RULES:
        stride[name] = max(1, fired[name] // (150 if quick else 3000))
    cnt = Counter()
    for (k, name, p, src, out, q) in rule_items:
        if q == p:
            continue
        cnt[name] += 1
        if cnt[name] % stride[name]:
            continue
        n_oracle += 1
        d = oracle_differs(p, q, 3 if quick else 4)
        if d:
            case = {"rule": name, "program": p, "result": q, "source": src, "output": out, "diff": d}
            f = match_finding(kf, case)
            if f is None:
                oracle_fail.append(case)
            else:
                oracle_known[f.id] += 1
                known_example.setdefault(f.id, case)
    timing["oracle"] = round(time.time() - t0, 1)

    # ---- sweep over every public rule function (not a proof)
    sw = c02_sweep.sweep(run, mods, wd, kf, hist)
    timing["sweep"] = round(time.time() - t0, 1)

    # ---- sibling tranche (expression / collection rules), when merged
    expr = None
    try:
        from . import c02_expr  # type: ignore
    except ImportError:
        c02_expr = None
    if c02_expr is not None:
        expr = c02_expr.check(run, mods, wd, rnd)
    # further tranches plug in the same way: harness/c02_<name>.py exposing check(run, mods, wd, rnd) -> dict and
    # optionally TRUSTED_BASE / UNMODELLED / ASSUMPTIONS / replay(mods, data); finding ids F02<name>-n
    extra = {}
    for tname in EXTRA_TRANCHES:
        try:
            tmod = __import__(f"harness.c02_{tname}", fromlist=["check"])
        except ImportError:
            continue
        extra[tname] = (tmod, tmod.check(run, mods, wd, rnd))

    # ---- known findings (ids F02x-* belong to the sibling tranche, which reports them itself)
    for f in kf:
        if f.kind != "finding" or f.id.startswith("F02x") or re.match(r"F02(comp|coll|cls|bool|perf|str|abs|idx|ctl)-", f.id):
            continue
        n = oracle_known.get(f.id, 0) + sw["known"].get(f.id, 0)
        if n:
            ex = known_example.get(f.id) or sw["known_example"].get(f.id)
            where = ex.get("source", "")
            run.known_finding(f.id, f"{f.text} [{n} cases in this run, e.g. {where!r}]")
        else:
            common.log(f"note: known finding {f.id} no longer reproduces")

    # ---- verdicts
    for (k, name, p, src, out, q) in rule_fail[:6]:
        common.log(f"disagreement rule={name}\n{src}--- impl --->\n{out}")
    for c in impl_problems[:6]:
        common.log(f"impl problem {c['rule']} {c['problem']}\n{c['source']}--->\n{c['output']}")
    for c in bl_fail[:6]:
        common.log(f"kernel disagreement impl={c[1]}\n{M.prog_src([c[0]])}")
    for c in sem_fail[:6]:
        common.log(f"semantics disagreement script={c[2]} cpython={c[3]}\n{M.prog_src(c[0])}")
    for e in (e1 + e2 + e3)[:3]:
        common.log(f"model evaluation failed: {e}")
    failing_inputs = 0
    n_layout_all = len(layout_fail)
    layout_fail = [c for c in layout_fail
                   if isinstance(c["parsed"], tuple) or oracle_differs(c["program"], c["parsed"], 3)]
    hist["layout-different-but-equivalent"] = n_layout_all - len(layout_fail)
    for c in layout_fail[:4]:
        d = None
        if not isinstance(c["parsed"], tuple):
            d = oracle_differs(c["program"], c["parsed"], 3)
        elif c["output"]:
            try:
                compile(c["output"], "<out>", "exec")
            except SyntaxError as ex:
                d = {"after": "SyntaxError: " + str(ex)}
        failing_inputs += 1 if d else 0
        run.violation({"kind": "property-oracle" if d else "rule-correspondence", "site": c["rule"], "source": c["source"],
                       "output": c["output"], "diff": d, "indentation_unit": c["unit"],
                       "explanation": "the real rule rewrites the same program differently when it is indented with "
                                      "another unit than four blanks" + ("; the result behaves differently / does not compile"
                                                                          if d else "")}, bool(d))
    for c in oracle_fail[:5]:
        failing_inputs += 1
        run.violation({"kind": "property-oracle", "site": c["rule"], **c,
                       "explanation": "the real rule changes the observable behaviour (outcome/returned value/trace "
                                      "under a scripted stub run) of a MiniPy program and no listed finding covers it"}, True)
    for c in sw["failures"][:8]:
        failing_inputs += 1
        run.violation({"kind": "property-oracle-sweep", **c,
                       "explanation": "stdout / normal termination differs after the rule and no listed finding covers "
                                      "this site and shape"}, True)

    def search_and_report(kind, payload, p=None, name=None):
        """failing-input search for a broken correspondence: the property's own oracle on the real rule"""
        if p is not None and name is not None:
            src, out, q = fires_and_expected(mods, name, p)
            if not isinstance(q, tuple) and q != p:
                d = oracle_differs(p, q, 4)
                if d and match_finding(kf, {"rule": name, "program": p, "result": q, "diff": d}) is None:
                    run.violation(dict(payload, kind="property-oracle", site=name, source=src, output=out, diff=d,
                                       explanation="found by the failing-input search after: " + kind), True)
                    return
        run.violation(dict(payload, kind=kind), False)

    if not failing_inputs:
        for (k, name, p, src, out, q) in rule_fail[:5]:
            search_and_report("rule-correspondence",
                              {"rule": name, "program": M.g_prog(p), "source": src, "impl_output": out,
                               "impl_parsed": M.g_prog(q), "kernel": "RulesFlowModel." + name.split(".")[1] + "_model",
                               "explanation": "the real rule and its Gallina model disagree on this program"}, p, name)
        for c in impl_problems[:3]:
            search_and_report("rule-output-outside-fragment", dict(c, explanation="the real rule raised or produced text outside the MiniPy fragment"))
        for c in bl_fail[:4]:
            # failing-input search: put the statement where the rules that trust is_blocking act on it
            st = c[0]
            found = False
            ctxs = [[st, EV3], [("if", C1, [st], [EV1]), EV3], [("while", C3, [st, EV1], []), EV3],
                    [("for", IK2, [st, EV1], [EV2]), EV3], [("while", KT, [st, EV1], []), EV3]]
            for p in ctxs:
                if found or not M.well_formed(p):
                    continue
                for name in ("fixes.delete_unreachable_code", "fixes.remove_redundant_else", "fixes.swap_if_else"):
                    src, out, q = fires_and_expected(mods, name, p)
                    if isinstance(q, tuple) or q == p:
                        continue
                    d = oracle_differs(p, q, 4)
                    if d and match_finding(kf, {"rule": name, "program": p, "result": q, "diff": d}) is None:
                        run.violation({"kind": "property-oracle", "site": name, "source": src, "output": out, "diff": d,
                                       "kernel": "core.is_blocking/_may_leave_iteration",
                                       "explanation": "found by the failing-input search after a kernel-correspondence "
                                                      "disagreement on " + M.prog_src([st])}, True)
                        found = True
                        break
            if not found:
                search_and_report("kernel-correspondence", {"statement": M.prog_src([st]), "impl": c[1],
                                                            "kernel": "RulesFlowModel.is_blocking/may_leave",
                                                            "explanation": "core.is_blocking/_may_leave_iteration and the model disagree"})
        for c in sem_fail[:3]:
            search_and_report("semantics-validation", {"source": M.prog_src(c[0]), "script": c[2], "cpython": repr(c[3]),
                                                       "explanation": "MiniPyModel.exec and CPython disagree on a printed program"})
        for c in sem_bad_harness[:2]:
            search_and_report("semantics-validation", {"source": M.prog_src(c[0]), "script": c[2], "detail": c[3][1],
                                                       "explanation": "the scripted CPython run failed"})
        for e in (e1 + e2 + e3)[:3]:
            search_and_report("model-evaluation-failed", e)
    if ps.get("props") and not ps["props"]["ok"]:
        pr = ps["props"]
        run.violation({"kind": "proof", "file": pr["file"], "broken": pr.get("broken"), "log": pr["log"],
                       "explanation": "a property theorem no longer checks"}, False)

    # ---- evidence
    for p in exh:
        hist["exh:depth=%d" % M.depth(p)] += 1
    for c in sem_ok:
        hist["sem:" + ("diverges" if c[3] is None else c[3][0][0])] += 1
    nontrivial = {(n, M.g_prog(p)) for (k, n, p, src, out, q) in rule_items if q != p}
    modelled = sorted(RULES) + (sorted(expr.get("modelled_rules", [])) if expr else [])
    for tname, (tmod, tres) in extra.items():
        modelled += sorted((tres or {}).get("modelled_rules", []))
    all_rules = sw["rules"]
    run.coverage.update(
        evaluations=len(sem) + len(bl) + len(rule_items) + n_oracle + sw["executions"] + (expr or {}).get("evaluations", 0),
        distinct_nontrivial=len(nontrivial) + sw["fired"] + (expr or {}).get("distinct_nontrivial", 0),
        rule=("semantics: printed MiniPy programs (exhaustive small family + seeded random) run under CPython with scripted "
              "stubs for every boolean script up to the number of unknowns (+1 non-boolean script) vs MiniPyModel.exec "
              "(outcome, trace, final environment; divergence = step budget). Kernel: every distinct statement of these "
              "programs through core.is_blocking(None/While) and _may_leave_iteration vs the model. Rules: for each "
              "modelled rule, the real function on the printed program, parsed back, vs <rule>_model (exact, canonical "
              "form). Exhaustive family: one if/while/for with every test kind, bodies of <= 2 atoms, else of <= 1-2 atoms, "
              "followed by an event; depth-2 nestings (if-in-if, elif chains, loops in ifs, ifs in loops) over a reduced "
              "alphabet. Non-trivial = the real rule changed the program; distinct by (rule, program). Oracle: before/after "
              "of fired cases executed under every script over {True, False, 2} up to length 3. Sweep: see coverage.sweep."),
        samples=[M.prog_src(exh[0]), M.prog_src(exh[len(exh) // 2]), M.prog_src(rnds[0]) if rnds else ""],
        exhaustive=False, exhaustive_part=len(exh), random_part=len(rnds),
        semantics_cases=len(sem), kernel_cases=len(bl), rule_cases=len(rule_items), fired=dict(fired),
        oracle_cases=n_oracle, histogram=dict(hist), timing_s=timing,
        modelled_rules=modelled,
        unmodelled_rules=sorted(r for r in all_rules if r not in modelled),
        unmodelled=["every rule function listed under unmodelled_rules: nothing is proved about it; it is only "
                    "exercised by the sweep",
                    "try/with/assert/nested def/class, augmented assignment, compound tests (and/or/comparisons), "
                    "exceptions raised by opaque calls"],
        sweep=sw["summary"],
        correspondence_disagreements=len(rule_fail) + len(bl_fail) + len(sem_fail) + len(impl_problems),
        property_oracle_failures=len(oracle_fail) + len(sw["failures"]) + len(layout_fail),
        trusted_base=common.TRUSTED_BASE_COMMON + [
            "MiniPyModel.exec is the reference semantics (a definition), validated against CPython on printed programs",
            "the abstraction argument: opaque calls/tests are uninterpreted events whose results come from an oracle "
            "indexed by draw position; two programs with equal traces under every oracle behave alike in CPython",
            "harness/minipy.py printer/parser (round trip checked on every generated program)",
            "processing.fix / the text back end (splicing, pass insertion, validity roll-back) are not modelled: the "
            "rule models describe their net effect on the tree and are tied to the code by the correspondence"],
    )
    if expr:
        run.coverage["expr_tranche"] = {k: v for k, v in expr.items() if k not in ("modelled_rules",)}
        run.coverage["trusted_base"] += list(getattr(c02_expr, "TRUSTED_BASE", []))
        run.coverage["unmodelled"] += list(getattr(c02_expr, "UNMODELLED", []))
        run.assumptions += list(getattr(c02_expr, "ASSUMPTIONS", []))
    for tname, (tmod, tres) in extra.items():
        run.coverage[f"{tname}_tranche"] = {k: v for k, v in (tres or {}).items() if k not in ("modelled_rules",)}
        run.coverage["trusted_base"] += list(getattr(tmod, "TRUSTED_BASE", []))
        run.coverage["unmodelled"] += list(getattr(tmod, "UNMODELLED", []))
        run.assumptions += list(getattr(tmod, "ASSUMPTIONS", []))
        for k in ("evaluations", "distinct_nontrivial"):
            if isinstance((tres or {}).get(k), int) and isinstance(run.coverage.get(k), int):
                run.coverage[k] += tres[k]
    run.assumptions += [
        "theorems are about the Gallina rule models; that the Python functions compute these models is established by "
        "the correspondence on the enumerated/sampled domain only",
        "rules without a Gallina model (coverage.unmodelled_rules) are hypotheses: exercised by the sweep, not proved",
        "the sweep is a deterministic enumeration with an execution oracle, not a proof"]


def replay(path: str) -> int:
    data = json.loads(Path(path).read_text())
    mods = common.import_impl()
    try:
        from . import c02_expr  # type: ignore
    except ImportError:
        c02_expr = None
    if c02_expr is not None and (str(data.get("kernel", "")).startswith("RulesExpr") or data.get("tranche") == "expr"):
        return c02_expr.replay(mods, data) or 0
    for tname in EXTRA_TRANCHES:
        if data.get("tranche") == tname:
            try:
                tmod = __import__(f"harness.c02_{tname}", fromlist=["replay"])
            except ImportError:
                continue
            if hasattr(tmod, "replay"):
                return tmod.replay(mods, data) or 0
    print(json.dumps({k: data[k] for k in data if k in ("kind", "explanation", "site", "rule", "kernel")}, indent=1))
    if data.get("source") and (data.get("site") or data.get("rule")):
        name = data.get("site") or data.get("rule")
        try:
            out = apply_real(mods, name, data["source"])
        except Exception as e:  # noqa
            out = f"raised {type(e).__name__}: {e}"
        print("input:\n" + data["source"])
        print("output now:\n" + str(out))
        if data.get("kind") == "property-oracle-sweep":
            print(json.dumps(c02_sweep.compare_exec(data["source"], out), indent=1))
    return 0
