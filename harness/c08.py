"""C08 -- Preserved names survive, within a file and across files (kernel K10)."""
from __future__ import annotations

import ast
import contextlib
import io
import itertools
import json
import os
import random
import subprocess
import sys
import types
from collections import Counter
from pathlib import Path

from . import common, k10
from .common import gbool, glist, gopt
from .k10 import gname, gnames

PID = "C08"
CORPUS = common.VERIF / "corpus" / "surface"

# ---------------------------------------------------------------------------------------------
# generated (library, client) pairs

LIB_DEFS = ["helper", "Klass", "CONST", "otherThing"]
LIB = '''import sys


def helper():
    return 1


def otherThing(x=2):
    return x * 2


def viaModule():
    return sys.modules[__name__].otherThing(1)


class Klass:
    attr = 3

    def __init__(self):
        self.val = 4

    def meth(self):
        return self.val

    def growBy(self, k):
        return self.val + k

    def summary(self):
        return (self.meth(), self.growBy(1), self.attr)

    @staticmethod
    def smeth():
        return 5

    def noSelf(self):
        return 6


def make():
    return Klass()


CONST = 7
unusedVar = 8
'''
# the library references its own public names internally (self.growBy, self.meth, self.attr, <module>.otherThing):
# with the library itself among the preserved files those names are in BOTH files' used-name sets

USE = {     # how a client exercises a definition reached as expression `e`
    "helper": "print({e}())",
    "otherThing": "print({e}(3))",
    "Klass": "k = {e}()\nprint(k.meth(), k.smeth(), k.noSelf(), k.attr, {e}.smeth(), k.growBy(2), k.summary())",
    "CONST": "print({e} + 1)",
}


def client_text(form: str, subset) -> str:
    names = list(subset)
    if form == "from_used":
        return "".join(f"from lib import {n}\n" for n in names) + "".join(USE[n].format(e=n) + "\n" for n in names)
    if form == "from_unused":          # re-exporting client
        return "".join(f"from lib import {n}\n" for n in names) + "print('reexport')\n"
    if form == "from_alias":
        return "".join(f"from lib import {n} as alias_{n}\n" for n in names) + \
            "".join(USE[n].format(e="alias_" + n) + "\n" for n in names)
    if form == "from_list":
        return (f"from lib import {', '.join(names)}\n" if names else "") + \
            "".join(USE[n].format(e=n) + "\n" for n in names)
    if form == "module_attr":
        return "import lib\n" + "".join(USE[n].format(e="lib." + n) + "\n" for n in names)
    if form == "module_alias":
        return "import lib as L\n" + "".join(USE[n].format(e="L." + n) + "\n" for n in names)
    if form == "star":
        return "from lib import *\n" + "".join(USE[n].format(e=n) + "\n" for n in names)
    if form == "object_attr":           # reaches members through an object only
        return "from lib import make\nobj = make()\n" + \
            ("print(obj.meth(), obj.smeth(), obj.noSelf(), obj.attr, obj.growBy(2), obj.summary())\n"
             if "Klass" in names else "") + \
            "".join(USE[n].format(e="__import__('lib')." + n) + "\n" for n in names if n != "Klass")
    raise ValueError(form)


FORMS = ["from_used", "from_unused", "from_alias", "from_list", "module_attr", "module_alias", "star", "object_attr"]


# a library with backwards-compatibility aliases: groups of functions with alpha-equivalent bodies
# (remove_duplicate_functions buckets).  A preserved client may reference SEVERAL members of one bucket.
ALIAS_DEFS = ["mean", "average", "arithmeticMean", "value_range", "spread"]
ALIAS_LIB = '''def mean(values):
    total = sum(values)
    return total / len(values)


def average(items):
    acc = sum(items)
    return acc / len(items)


def arithmeticMean(xs):
    s = sum(xs)
    return s / len(xs)


def value_range(values):
    return max(values) - min(values)


def spread(items):
    return max(items) - min(items)


def unrelated(values):
    return sorted(values)[0]
'''
for _n in ALIAS_DEFS:
    USE[_n] = "print({e}([1, 2, 6]))"
ALIAS_FORMS = ["from_used", "from_unused", "from_alias", "module_attr", "star"]


def alias_pairs():
    for form in ALIAS_FORMS:
        for k in range(len(ALIAS_DEFS) + 1):
            for subset in itertools.combinations(ALIAS_DEFS, k):
                yield form, subset, client_text(form, subset)


DUP_STATEMENTS = [   # duplicate groups for the rule correspondence, several preserved members per bucket
    ALIAS_LIB,
    "def dupA():\n    return 1 + 2\ndef dupB():\n    return 1 + 2\ndef dupC():\n    return 1 + 2\n"
    "async def dupD():\n    return 1 + 2\nprint(dupB(), dupC())\n",
    "def twice(x):\n    y = x * 2\n    return y\ndef double(z):\n    w = z * 2\n    return w\n"
    "class K:\n    def twice(self):\n        return 1\n",
]


def all_pairs():
    for form in FORMS:
        for k in range(len(LIB_DEFS) + 1):
            for subset in itertools.combinations(LIB_DEFS, k):
                yield form, subset, client_text(form, subset)


def random_client(rnd) -> str:
    parts = []
    for _ in range(rnd.randint(1, 3)):
        form = rnd.choice(FORMS)
        subset = rnd.sample(LIB_DEFS, rnd.randint(0, 3))
        parts.append(client_text(form, subset))
    return "".join(parts)


# ---------------------------------------------------------------------------------------------
# client source -> pyfile term


def _unpacked(t):
    """parsing._unpack_ast_target: Name, Tuple, List, Starred"""
    if isinstance(t, ast.Name):
        return [t.id]
    if isinstance(t, (ast.Tuple, ast.List)):
        return [n for e in t.elts for n in _unpacked(e)]
    if isinstance(t, ast.Starred):
        return _unpacked(t.value)
    return []


def t_pyfile(source: str) -> str:
    root = ast.parse(source)
    imports, occs = [], []
    for node in ast.walk(root):
        if isinstance(node, (ast.Import, ast.ImportFrom)):
            if isinstance(node, ast.ImportFrom) and node.module == "__future__":
                raise ValueError("__future__ imports are outside the modelled domain")
            for a in node.names:
                imports.append(f"{{| i_from := {gbool(isinstance(node, ast.ImportFrom))}; i_name := {gname(a.name)}; "
                               f"i_as := {gopt(a.asname, gname)} |}}")
        elif isinstance(node, ast.Name):
            occs.append(f"(OName {gname(node.id)})")
        elif isinstance(node, ast.Attribute):
            base = node.value.id if isinstance(node.value, ast.Name) else None
            occs.append(f"(OAttr {gopt(base, gname)} {gname(node.attr)})")
        elif isinstance(node, ast.keyword) and node.arg is not None:
            occs.append(f"(OKeyword {gname(node.arg)})")
        elif isinstance(node, ast.MatchClass):
            occs += [f"(OKeyword {gname(a)})" for a in node.kwd_attrs]
        elif isinstance(node, ast.ClassDef) and node.bases:
            for m in node.body:
                if isinstance(m, (ast.FunctionDef, ast.AsyncFunctionDef, ast.ClassDef)):
                    occs.append(f"(OSubMember {gname(m.name)})")
                elif isinstance(m, (ast.Assign, ast.AnnAssign, ast.AugAssign)):
                    targets = m.targets if isinstance(m, ast.Assign) else [m.target]
                    for t in targets:
                        occs += [f"(OSubMember {gname(n)})" for n in _unpacked(t)]
    return f"{{| f_imports := {glist(imports)}; f_occs := {glist(occs)} |}}"


# ---------------------------------------------------------------------------------------------
# running the real cross-file path


class _FakePool:
    """multiprocessing.Pool stand-in (starmap = map): same arguments, same order, in process"""

    def __init__(self, *a, **k):
        pass

    def __enter__(self):
        return self

    def __exit__(self, *a):
        return False

    def starmap(self, f, args, chunksize=None):
        return [f(*a) for a in args]


@contextlib.contextmanager
def in_process_pool(mods, record=None):
    main = mods["main"]
    real_mp, real_ff = main.mp, main.format_file
    main.mp = types.SimpleNamespace(Pool=_FakePool, cpu_count=real_mp.cpu_count)
    if record is not None:
        def spy(filename, preserve=frozenset(), safe=False):
            record.append((str(filename), set(preserve)))
            return real_ff(filename, preserve, safe)
        main.format_file = spy
    try:
        yield
    finally:
        main.mp, main.format_file = real_mp, real_ff


def run_format_files(mods, d: Path, lib_src: str, client_src: str, passes: int, record=None, real_pool=False,
                     preserved=("client.py",), extra_files=(), relative=False):
    (d / "lib.py").write_text(lib_src)
    (d / "client.py").write_text(client_src)
    for name, text in extra_files:
        (d / name).write_text(text)
    mods["core"].parse.cache_clear()
    with common.quiet():
        if real_pool:
            mods["main"].format_files([d / "lib.py"], preserved_filenames=[d / p for p in preserved], n_cores=1,
                                      max_passes=passes)
        elif relative:      # preserved files named relative to the working directory (API use)
            cwd = os.getcwd()
            os.chdir(d)
            try:
                with in_process_pool(mods, record):
                    mods["main"].format_files([Path("lib.py")], preserved_filenames=[Path(p) for p in preserved],
                                              n_cores=1, max_passes=passes)
            finally:
                os.chdir(cwd)
        else:
            with in_process_pool(mods, record):
                mods["main"].format_files([d / "lib.py"], preserved_filenames=[d / p for p in preserved],
                                          n_cores=1, max_passes=passes)
    return (d / "lib.py").read_text()


def run_client(lib_src: str, client_src: str):
    """execute the client against a library source, in process; (stdout, exception class)"""
    lib = types.ModuleType("lib")
    out = io.StringIO()
    saved = sys.modules.get("lib")
    try:
        with contextlib.redirect_stdout(out):
            exec(compile(lib_src, "lib.py", "exec"), lib.__dict__)
            sys.modules["lib"] = lib
            exec(compile(client_src, "client.py", "exec"), {"__name__": "__main__"})
        return out.getvalue(), None
    except BaseException as e:  # noqa
        return out.getvalue(), type(e).__name__
    finally:
        if saved is None:
            sys.modules.pop("lib", None)
        else:
            sys.modules["lib"] = saved


def cross_oracle(mods, wd, lib_src, client_src, passes, **kw):
    """the property's oracle: referenced definitions are still there and the client behaves the same"""
    new_lib = run_format_files(mods, wd, lib_src, client_src, passes, **kw)
    before, after = run_client(lib_src, client_src), run_client(new_lib, client_src)
    used = set(mods["main"]._used_names_in_file(wd / "client.py"))
    top, mem = k10.surface(lib_src)
    try:
        top1, mem1 = k10.bound_after(new_lib)
    except SyntaxError:
        return {"lib": lib_src, "client": client_src, "passes": passes, "new_lib": new_lib,
                "problem": "formatted library does not parse"}
    lost_top = sorted((top & used) - top1 - {"_"})
    lost_mem = sorted(p for p in mem if p[0] in used and p[1] in used and p not in mem1)
    if before != after or lost_top or lost_mem:
        return {"lib": lib_src, "client": client_src, "passes": passes, "new_lib": new_lib,
                "client_before": before, "client_after": after, "lost_top": lost_top,
                "lost_members": [list(p) for p in lost_mem]}
    return None


def preserve_oracle(mods, source, P):
    """format_code(source, preserve=P): every definition whose name is in P is still there"""
    try:
        out = k10.format_code(mods, source, preserve=frozenset(P))
        top1, mem1 = k10.bound_after(out)
    except Exception:  # noqa (C03/C04)
        return None
    top, mem = k10.surface(source)
    lost_top = sorted(n for n in top if n in P and n not in top1)
    lost_mem = sorted(p for p in mem if p[1] in P and p not in mem1)
    if lost_top or lost_mem:
        return {"source": source, "preserve": sorted(P), "output": out, "lost_top": lost_top,
                "lost_members": [list(p) for p in lost_mem]}
    return None


# known-finding signatures ---------------------------------------------------------------------


def _sig_member_of_unpreserved_class(case) -> bool:
    """only members are lost, and each one's class name is not in the preserve set"""
    P = set(case["preserve"])
    return not case["lost_top"] and bool(case["lost_members"]) and all(c not in P for c, _ in case["lost_members"])


def _sig_underscore(case) -> bool:
    return all(n == "_" for n in case["lost_top"]) and all(f == "_" or c == "_" for c, f in case["lost_members"])


SIGS = {"member_of_unpreserved_class": _sig_member_of_unpreserved_class}
F08_3_WITNESSES = [
    ("class A:\n    def m(self):\n        return 1\n", ["m"]),
    ("class A:\n    attr = 1\n", ["attr"]),
    ("class A:\n    def m(self):\n        return 1\nprint(A)\n", ["m"]),
]


def match_finding(findings, case):
    if _sig_underscore(case):      # C07's F07-3 (`_` convention) -- not a C08 matter, never an alarm here
        return "F07-3"
    for f in findings:
        pred = SIGS.get(f.fields.get("sig", ""))
        if f.kind == "finding" and pred and pred(case):
            return f.id
    return None


# ---------------------------------------------------------------------------------------------
# round-4 hunt families (seed-independent).  Each entry: (tag, library source, client source)


EXTRA_CLIENTS = [   # shapes for the used_names correspondence: keywords, subclass members, mangled attributes
    "import lib\nlib.f(aB=1, **{'c': 2})\nprint(dict(x=1), lib.g(lib.h(yZ=3)))\n",
    "import lib\n\n\nclass B(lib.Base, metaclass=type):\n    a, *b = 1, 2, 3\n    [c, d] = 4, 5\n    e: int = 6\n    f: int\n"
    "    e += 1\n    class Inner:\n        innerAttr = 1\n    async def am(self):\n        return 1\n",
    "class NoBases:\n    notCollected = 1\n    def neither(self):\n        return 1\n",
    "import lib\nprint(lib.A._A__x, lib.a._My_Class__y_z, lib.a.__dunder__, lib.a._x__, lib.a.__a__b, lib.a._a___b, lib.a.a__b)\n",
    "from lib import *\nfrom other import name as alias, second\nprint(free, alias)\n",
]


def hunt_pairs():
    out = []
    # H0 bindings the library gets by import and the client reaches through the library
    for imp, name in (("from math import sqrt", "sqrt"), ("import os", "os"), ("import json as js", "js"),
                      ("from os import path as pth, sep", "sep")):
        lib = f"{imp}\n\n\ndef f():\n    return 1\n"
        out.append(("H0-import-reexport", lib, f"from lib import {name}, f\nprint(bool({name}), f())\n"))
        out.append(("H0-import-reexport", lib, f"import lib\nprint(bool(lib.{name}), lib.f())\n"))
    # H1 a starred import in the library
    for body in ("def f():\n    return floor(1.5)\n", "def f():\n    return 1\n"):
        lib = "from math import *\n\n\n" + body
        out.append(("H1-star-import", lib, "import lib\nprint(lib.sqrt(4), lib.f())\n"))
        out.append(("H1-star-import", lib, "from lib import sqrt, f\nprint(sqrt(4), f())\n"))
    # H2 loop variables of module / class scope that the client reads
    loops = ["res = []\nfor keep in range(3):\n    res.append(keep * 2)\n",
             "res = set()\nfor keep in range(3):\n    res.add(keep * 2)\n",
             "res = {}\nfor keep in range(3):\n    res[keep] = keep * 2\n",
             "res = []\nfor outer in range(2):\n    for keep in range(3):\n        res.append(keep * outer)\n",
             "res = 0\nfor keep in range(3):\n    res += keep\n"]
    for lp in loops:
        out.append(("H2-loop-target", lp, "import lib\nprint(lib.res, lib.keep)\n"))
        cls = "class Box:\n" + "".join("    " + l + "\n" for l in lp.splitlines())
        out.append(("H2-loop-target", cls, "import lib\nprint(lib.Box.res, lib.Box.keep)\n"))
    # H3 names the client writes as call keywords / match-class keyword patterns
    out.append(("H3-keyword", "import dataclasses\n\n\n@dataclasses.dataclass\nclass P:\n    xCoord: int = 0\n",
                "import lib\nprint(lib.P(xCoord=2))\n"))
    out.append(("H3-keyword", "def area(sideLen=1, otherSide=2):\n    return sideLen * otherSide\n",
                "import lib\nprint(lib.area(sideLen=3))\n"))
    out.append(("H3-keyword", "class P:\n    XCoord = 0\n\n\ndef mk():\n    return P()\n",
                "import lib\nmatch lib.mk():\n    case lib.P(XCoord=0):\n        print('yes')\n    case _:\n        print('no')\n"))
    # H4 methods a client subclass overrides
    out.append(("H4-override", "class Base:\n    def run(self):\n        return self.hookMethod()\n\n"
                "    def hookMethod(self):\n        return 1\n",
                "import lib\n\n\nclass B(lib.Base):\n    def hookMethod(self):\n        return 2\n\n\nprint(B().run())\n"))
    out.append(("H4-override", "class Base:\n    defaultSize = 1\n\n    def run(self):\n        return self.defaultSize\n",
                "from lib import Base\n\n\nclass B(Base):\n    defaultSize = 5\n\n\nprint(B().run())\n"))
    # H5 __all__ of a library that a client star-imports
    out.append(("H5-all", "__all__ = ['_priv']\n\n\ndef _priv():\n    return 1\n", "from lib import *\nprint(_priv())\n"))
    out.append(("H5-all", "__all__ = ['pub']\n\n\ndef pub():\n    return 1\n\n\ndef other():\n    return 2\n",
                "from lib import *\nprint(pub(), 'other' in dir())\n"))
    # H6 private (name-mangled) members reached from outside
    out.append(("H6-mangled", "class A:\n    x = 5\n\n    def __secret(self):\n        return self.x\n",
                "import lib\nprint(lib.A()._A__secret())\n"))
    out.append(("H6-mangled", "class A:\n    __hidden = 5\n", "import lib\nprint(lib.A._A__hidden)\n"))
    out.append(("H6-mangled", "class _Impl:\n    def __run(self):\n        return 3\n\n\ndef mk():\n    return _Impl()\n",
                "import lib\nprint(lib.mk()._Impl__run())\n"))
    return out


HUNT_SINGLE = [   # (tag, source, preserve) through format_code(preserve=...)
    ("H0-import-reexport", "try:\n    import json as keep\nexcept ImportError:\n    keep = None\n", ["keep"]),
    ("H2-loop-target", "res = []\nfor keep in range(3):\n    res.append(keep * 2)\n", ["keep", "res"]),
    ("H2-loop-target", "class Box:\n    res = []\n    for keep in range(3):\n        res.append(keep * 2)\n", ["Box", "keep", "res"]),
]


def scope_bindings(source: str):
    """every name bound at module scope / in class bodies by ANY statement (imports, loops, with, ...)"""
    return k10.bound_after(source)


def binding_oracle(mods, source, P):
    """format_code(source, preserve=P): every name in P that the input binds at module scope (by any
    statement) is still bound there"""
    try:
        out = k10.format_code(mods, source, preserve=frozenset(P))
        top1, mem1 = scope_bindings(out)
    except Exception:  # noqa
        return None
    top, mem = scope_bindings(source)
    lost_top = sorted(n for n in top if n in P and n not in top1)
    lost_mem = sorted(p for p in mem if p[1] in P and p[0] in P and p not in mem1)
    if lost_top or lost_mem:
        return {"source": source, "preserve": sorted(P), "output": out, "lost_top": lost_top,
                "lost_members": [list(p) for p in lost_mem], "binding_kind": "any"}
    return None


def import_bound(source: str) -> set:
    out = set()
    for n in ast.walk(ast.parse(source)):
        if isinstance(n, (ast.Import, ast.ImportFrom)):
            out |= {(a.asname or a.name).split(".")[0] for a in n.names}
    return out


def loop_bound(source: str) -> set:
    out = set()
    for n in ast.walk(ast.parse(source)):
        if isinstance(n, (ast.For, ast.AsyncFor)):
            out |= {x.id for x in ast.walk(n.target) if isinstance(x, ast.Name)}
    return out


def _case_source(case):
    return case.get("lib") or case.get("source") or ""


def _case_output(case):
    return case.get("new_lib") or case.get("output") or ""


def _sig_import_binding_lost(case) -> bool:
    """an import of the library disappeared (and with it a name the client / preserve set needs)"""
    try:
        gone = import_bound(_case_source(case)) - scope_bindings(_case_output(case))[0]
    except SyntaxError:
        return False
    return bool(gone) and "*" not in import_bound(_case_source(case))


def _sig_star_import_narrowed(case) -> bool:
    try:
        return "*" in import_bound(_case_source(case)) and "*" not in import_bound(_case_output(case))
    except SyntaxError:
        return False


def _sig_loop_target_lost(case) -> bool:
    try:
        top, mem = scope_bindings(_case_output(case))
        bound = top | {f for _, f in mem}
        return bool(loop_bound(_case_source(case)) - bound)
    except SyntaxError:
        return False


def _method_kinds(source: str):
    out = {}
    for c in ast.walk(ast.parse(source)):
        if isinstance(c, ast.ClassDef):
            for m in c.body:
                if isinstance(m, (ast.FunctionDef, ast.AsyncFunctionDef)):
                    out[(c.name, m.name)] = tuple(sorted(d.id for d in m.decorator_list if isinstance(d, ast.Name)
                                                         and d.id in ("staticmethod", "classmethod")))
    return out


def _sig_method_kind_changed(case) -> bool:
    """no definition is lost, but a method became a staticmethod / classmethod (its name is kept)"""
    try:
        a, b = _method_kinds(_case_source(case)), _method_kinds(_case_output(case))
    except SyntaxError:
        return False
    return not case.get("lost_top") and not case.get("lost_members") and any(b.get(k, v) != v for k, v in a.items())


HUNT_SIGS = {"method_kind_changed", "import_binding_lost", "star_import_narrowed", "loop_target_lost"}
SIGS.update({"method_kind_changed": _sig_method_kind_changed, "import_binding_lost": _sig_import_binding_lost, "star_import_narrowed": _sig_star_import_narrowed,
             "loop_target_lost": _sig_loop_target_lost})


def cross_site(mods, tree, case):
    """bisect a cross-file failure: the first pipeline stage after which the client no longer behaves as before"""
    lib, client = case["lib"], case["client"]
    base = run_client(lib, client)
    return k10.bisect_pipeline(
        mods, lambda: run_format_files(mods, tree, lib, client, case.get("passes", 1),
                                       preserved=tuple(case.get("preserved", ("client.py",)))),
        lambda src: run_client(src, client) != base)


def single_site(mods, case):
    src, P = case["source"], set(case["preserve"])
    top, mem = scope_bindings(src)

    def bad(s):
        t1, m1 = scope_bindings(s)
        return any(n in P and n not in t1 for n in top) or any(p[1] in P and p not in m1 for p in mem)
    return k10.bisect_pipeline(mods, lambda: mods["main"].format_code(src, preserve=frozenset(P)), bad)


def namespace_collision_case(mods, tree: Path):
    """hunt C08-7: <d>/a/b.py is formatted, <d>/a.b.py is the preserved client (dots in file names)"""
    d = tree / "nsdots"
    (d / "a").mkdir(parents=True, exist_ok=True)
    lib, client = d / "a" / "b.py", d / "a.b.py"
    lib_src = "def helper():\n    return 1\n\n\ndef unusedThing():\n    return 2\n"
    lib.write_text(lib_src)
    client.write_text("from b import helper\nprint(helper())\n")
    rec = []
    mods["core"].parse.cache_clear()
    with common.quiet(), in_process_pool(mods, rec):
        mods["main"].format_files([lib], preserved_filenames=[client], n_cores=1, max_passes=1)
    new_lib = lib.read_text()
    got = sorted(rec[0][1]) if rec else None
    want = sorted(mods["main"]._used_names_in_file(client))
    if "helper" not in k10.bound_after(new_lib)[0] or got != want:
        return {"path": "format_files([<d>/a/b.py], preserved_filenames=[<d>/a.b.py])", "lib": lib_src,
                "client": client.read_text(), "new_lib": new_lib, "preserve_handed_to_format_file": got,
                "names_used_by_the_preserved_file": want, "lost_top": ["helper"] if "def helper" not in new_lib else [],
                "lost_members": [], "site": "main._namespace_name"}
    return None


def match_site_finding(findings, site, case):
    """a hunt finding suppresses a failure only when the bisected site is the finding's site AND its predicate holds"""
    for f in findings:
        if f.kind != "finding" or f.fields.get("sig") not in HUNT_SIGS:
            continue
        sites = set(f.fields.get("site", "").split(","))
        pred = SIGS.get(f.fields.get("sig", ""))
        if site in sites and pred and pred(case):
            return f.id
    return None


# ---------------------------------------------------------------------------------------------


def check(run: common.Run):
    from .c07 import write_cases
    wd = common.workdir(PID)
    ps = common.proof_step(run, PID, wd)
    mods = common.import_impl()
    rnd = random.Random(run.seed)
    findings = common.load_findings(PID)
    hist = Counter()
    distinct = set()
    quick = run.tier == "quick"
    tree = wd / "tree"
    tree.mkdir()

    pairs = list(all_pairs())
    n_exh = len(pairs)
    nrand = 60 if quick else 1500
    clients = [c for _, _, c in pairs] + [c for _, _, c in hunt_pairs()] + EXTRA_CLIENTS + \
              [random_client(rnd) for _ in range(nrand)]

    # ---- (a) _used_names_in_file vs used_names
    ucases = []
    for c in dict.fromkeys(clients):
        (tree / "client.py").write_text(c)
        mods["core"].parse.cache_clear()
        impl = sorted(mods["main"]._used_names_in_file(tree / "client.py"))
        ucases.append((f"({t_pyfile(c)}, {gnames(impl)})", ("used", c, impl)))
        hist["used"] += 1
        if len(impl) > 1:
            distinct.add("used:" + c)
    files, shards = write_cases(wd, "used", "pyfile * list name", "used_case_ok", ucases)

    # ---- (b) filename_preserve vs file_preserve (1-3 preserved files, the library itself among them)
    fcases = []
    other = "import lib\nprint(lib.unusedVar)\n"
    sel = pairs[:: (7 if quick else 1)]
    for j, (form, subset, c) in enumerate(sel):
        for preserved, extra in ((("client.py",), ()), (("client.py", "other.py"), (("other.py", other),)),
                                 (("client.py", "lib.py"), ()), (("lib.py",), ())):
            rec = []
            run_format_files(mods, tree, LIB, c, 1, record=rec, preserved=preserved, extra_files=extra,
                             relative=(j % 2 == 1))
            texts = {"client.py": c, "lib.py": LIB, "other.py": other}
            term = glist([f"({gname(p.replace('.py', ''))}, {t_pyfile(texts[p])})" for p in preserved])
            for fname, P in rec:
                fcases.append((f"({term}, {gname(Path(fname).stem)}, {gnames(P)})",
                               ("file_preserve", c, list(preserved), sorted(P))))
                hist["file_preserve"] += 1
                if P:
                    distinct.add(f"fp:{preserved}:{c}")
    f, s = write_cases(wd, "filepres", "list (name * pyfile) * name * list name", "file_preserve_case_ok", fcases)
    files += f; shards += s

    # ---- (c) the rules on the library with the preserve set a client induces (refinement)
    rcases, rule_errors = [], []   # the model's rules are total: a raise / unparsable output on this
    for form, subset, c in pairs[:: (3 if quick else 1)]:     # seed-independent domain is a disagreement
        (tree / "client.py").write_text(c)
        P = sorted(mods["main"]._used_names_in_file(tree / "client.py"))
        for rule in k10.RULES:
            try:
                out = k10.run_rule(mods, rule, LIB, P)
                ast.parse(out)
            except Exception as e:  # noqa
                hist[f"{rule}:raised:{type(e).__name__}"] += 1
                rule_errors.append(("rule-raised", rule, P, LIB, f"{type(e).__name__}: {e}"[:200]))
                continue
            hist[f"{rule}:{'changed' if out != LIB else 'same'}"] += 1
            if out != LIB:
                distinct.add(f"{rule}:{P}")
            rcases.append((k10.rule_case(rule, P, LIB, out, False), ("rule", rule, P, LIB, out, False)))
    for src in k10.single_statements()[:: (3 if quick else 1)]:
        for P in k10.preserve_sets(src, None, single=True, quick=quick):
            for rule in ("RUndefine", "RDeleteUnused", "RMoveStatic", "RDuplicate", "RAlign"):
                try:
                    out = k10.run_rule(mods, rule, src, P)
                    ast.parse(out)
                except Exception as e:  # noqa
                    hist[f"{rule}:raised:{type(e).__name__}"] += 1
                    rule_errors.append(("rule-raised", rule, sorted(P), src, f"{type(e).__name__}: {e}"[:200]))
                    continue
                hist[f"{rule}:{'changed' if out != src else 'same'}"] += 1
                rcases.append((k10.rule_case(rule, P, src, out, False), ("rule", rule, sorted(P), src, out, False)))
    for src in DUP_STATEMENTS:
        fnames = [n.name for n in ast.parse(src).body if isinstance(n, (ast.FunctionDef, ast.AsyncFunctionDef))]
        for k in range(len(fnames) + 1):
            for P in itertools.combinations(fnames, k):
                for rule in ("RDuplicate", "RDeleteUnused", "RAlign"):
                    try:
                        out = k10.run_rule(mods, rule, src, P)
                        ast.parse(out)
                    except Exception as e:  # noqa
                        hist[f"{rule}:raised:{type(e).__name__}"] += 1
                        rule_errors.append(("rule-raised", rule, sorted(P), src, f"{type(e).__name__}: {e}"[:200]))
                        continue
                    hist[f"{rule}:dup:{'changed' if out != src else 'same'}"] += 1
                    if out != src:
                        distinct.add(f"{rule}:{P}:dup")
                    rcases.append((k10.rule_case(rule, list(P), src, out, False),
                                   ("rule", rule, sorted(P), src, out, False)))
    f, s = write_cases(wd, "rules", "rule_case", "rule_case_ok", rcases, per=300)
    files += f; shards += s

    results = common.run_case_files(files)
    disagreements = list(rule_errors[:3])
    for p, shard in zip(files, shards):
        rc, out = results[p]
        idx = common.parse_nat_list(out) if rc == 0 else None
        if idx is None:
            disagreements.append(("eval-failed", p.name, out[-1500:]))
            continue
        for i in idx:
            disagreements.append(shard[i])

    # ---- (d) deterministic sweep: every access form x every subset, single and 5-pass runs; the CLI path
    failures, suppressed = [], Counter()
    n_sweep = 0
    # two ways of passing the preserved files: the client only, or client AND library (`pyrefact lib.py
    # --preserve .`) -- what the library references internally must not cost the client its protection.
    # On a correct tree both give the library the same preserve set, so the quick tier alternates them
    # (1-pass run in one mode, 5-pass run of odd-sized subsets in the other); thorough runs everything.
    modes = (("client.py",), ("client.py", "lib.py"))
    for i, (form, subset, c) in enumerate(pairs):
        for passes in (1, 5):
            for mi, preserved in enumerate(modes):
                if quick and (mi != (i + (passes == 5)) % 2 or (passes == 5 and len(subset) % 2 == 0)):
                    continue
                n_sweep += 1
                fail = cross_oracle(mods, tree, LIB, c, passes, preserved=preserved)
                hist[f"sweep:{form}"] += 1
                hist[f"sweep:preserved={'+'.join(preserved)}"] += 1
                if fail:
                    fail["form"], fail["subset"], fail["preserved"] = form, list(subset), list(preserved)
                    failures.append(fail)
    for form, subset, c in pairs[5:: (61 if quick else 9)]:      # the real multiprocessing pool and the CLI
        n_sweep += 1
        fail = cross_oracle(mods, tree, LIB, c, 5, real_pool=True)
        if fail:
            fail["path"] = "format_files with a real Pool"
            failures.append(fail)
        for target in ("client.py", "."):
            n_sweep += 1
            fail = cli_oracle(tree, LIB, c, target)
            if fail:
                failures.append(fail)
    for c in load_corpus():
        if c.get("mode") == "cross":
            n_sweep += 1
            fail = cross_oracle(mods, tree, c["lib"], c["client"], 5,
                                preserved=tuple(c.get("preserved", ["client.py"])))
            if fail:
                fail["corpus"] = c["id"]
                failures.append(fail)
        elif c.get("mode") == "preserve":
            n_sweep += 1
            fail = preserve_oracle(mods, c["source"], set(c["preserve"]))
            if fail:
                fail["corpus"] = c["id"]
                failures.append(fail)
    # the alias library: every access form x every subset of the 5 alias functions (2 buckets), the client
    # may reference several members of one bucket; then every preserve subset through format_code
    for i, (form, subset, c) in enumerate(alias_pairs()):
        if quick and len(subset) not in (2, 3) and i % 4:
            continue
        for passes in ((1, 5) if not quick else ((1, 5)[i % 2],)):
            n_sweep += 1
            fail = cross_oracle(mods, tree, ALIAS_LIB, c, passes, preserved=modes[i % 2])
            hist["sweep:alias-lib"] += 1
            if fail:
                fail["form"], fail["subset"], fail["preserved"] = form, list(subset), list(modes[i % 2])
                failures.append(fail)
    for k in range(len(ALIAS_DEFS) + 1):
        for P in itertools.combinations(ALIAS_DEFS, k):
            n_sweep += 1
            fail = preserve_oracle(mods, ALIAS_LIB, set(P))
            hist["sweep:alias-format_code"] += 1
            if fail:
                failures.append(fail)
    fail = cli_oracle(tree, ALIAS_LIB, client_text("from_used", ("mean", "average", "spread", "value_range")))
    n_sweep += 1
    if fail:
        failures.append(fail)
    # round-4 hunt families: bindings by import / starred import / loops, keywords, overrides, __all__,
    # name mangling, dotted file names.  Failures are bisected (first stage after which the client breaks)
    hunt_examples = {}
    for tag, lib_src, c in hunt_pairs():
        for passes in ((1,) if quick else (1, 5)):
            n_sweep += 1
            hist[f"sweep:hunt:{tag}"] += 1
            fail = cross_oracle(mods, tree, lib_src, c, passes)
            if fail:
                fail["family"] = tag
                fail["site"] = cross_site(mods, tree, fail)
                fid = match_site_finding(findings, fail["site"], fail)
                if fid:
                    suppressed[fid] += 1
                    hunt_examples.setdefault(fid, fail)
                else:
                    failures.append(fail)
    for tag, src, P in HUNT_SINGLE:
        n_sweep += 1
        fail = binding_oracle(mods, src, set(P))
        if fail:
            fail["family"] = tag
            fail["site"] = single_site(mods, fail)
            fid = match_site_finding(findings, fail["site"], fail)
            if fid:
                suppressed[fid] += 1
                hunt_examples.setdefault(fid, fail)
            else:
                failures.append(fail)
    n_sweep += 1
    fail = namespace_collision_case(mods, tree)
    if fail:
        failures.append(fail)
    # explicit preserve sets through format_code (the within-a-file clause), seed-independent
    for src in k10.single_statements()[:: (3 if quick else 1)]:
        for P in k10.preserve_sets(src, None, single=True, quick=True)[:: (2 if quick else 1)]:
            n_sweep += 1
            fail = preserve_oracle(mods, src, set(P))
            if fail:
                fid = match_finding(findings, fail)
                if fid:
                    suppressed[fid] += 1
                else:
                    failures.append(fail)

    # ---- failing-input search (only after a disagreement / broken proof), seeded
    searched = 0
    if (disagreements or (ps.get("props") and not ps["props"]["ok"])) and not failures:
        for _ in range(150 if quick else 2000):
            c = random_client(rnd)
            searched += 1
            fail = cross_oracle(mods, tree, LIB, c, rnd.choice([1, 5]))
            if fail:
                failures.append(fail)
                break
        if not failures:
            pool = k10.single_statements()
            for _ in range(300 if quick else 3000):
                src = k10.random_module(rnd, pool)
                keys = k10.keys_of(src)
                if not keys:
                    continue
                P = set(rnd.sample(keys, rnd.randint(1, len(keys))))
                searched += 1
                fail = preserve_oracle(mods, src, P)
                if fail and not match_finding(findings, fail):
                    failures.append(fail)
                    break

    # ---- known findings
    for fnd in findings:
        if fnd.kind != "finding":
            continue
        if fnd.fields.get("sig") in HUNT_SIGS:      # replayed by the hunt families of the sweep (site + predicate)
            if suppressed.get(fnd.id):
                ex = hunt_examples.get(fnd.id, {})
                run.known_finding(fnd.id, f"{fnd.text} [{suppressed[fnd.id]} sweep cases reproduce at this site with "
                                          f"this signature, e.g. {ex.get('lib', ex.get('source', ''))!r} -> "
                                          f"{ex.get('new_lib', ex.get('output', ''))!r}]")
            else:
                common.log(f"note: known finding {fnd.id} no longer reproduces")
            continue
        hits = []
        for src, P in F08_3_WITNESSES:
            fail = preserve_oracle(mods, src, set(P))
            if fail and match_finding([fnd], fail) == fnd.id:
                hits.append(fail)
        if hits:
            run.known_finding(fnd.id, f"{fnd.text} [{len(hits)} witnesses reproduce, e.g. preserve={hits[0]['preserve']} "
                                      f"{hits[0]['source']!r} -> {hits[0]['output']!r}; {suppressed.get(fnd.id, 0)} "
                                      "sweep cases suppressed by this signature]")
        else:
            common.log(f"note: known finding {fnd.id} no longer reproduces")

    # ---- verdicts
    shown, keys = [], set()
    for fail in failures:           # one report per (family, bisected site), at most 12
        key = (fail.get("family"), fail.get("site"), fail.get("path"))
        if key not in keys or key == (None, None, None) and len(shown) < 5:
            keys.add(key)
            shown.append(fail)
    for fail in shown[:12]:
        run.violation({"kind": "property-oracle", **fail,
                       "explanation": "a definition that is in the preserve set / referenced by the preserved client "
                                      "was deleted or renamed, or the client's behaviour changed"}, True)
    if not failures:
        for d in disagreements[:5]:
            run.violation({"kind": "correspondence", "kernel": "K10 SurfaceModel (used_names / file_preserve / rule "
                           "guards)", "detail": d,
                           "explanation": "model and implementation disagree; the cross-file and preserve-set oracles "
                                          f"found no failing input on {searched} searched inputs"}, False)
    if ps.get("props") and not ps["props"]["ok"]:
        pr = ps["props"]
        run.violation({"kind": "proof", "file": pr["file"], "broken": pr.get("broken"), "log": pr["log"],
                       "explanation": "a property theorem no longer checks"}, bool(failures))

    run.coverage.update(
        evaluations=len(ucases) + len(fcases) + len(rcases) + n_sweep,
        distinct_nontrivial=len(distinct),
        rule=("clients: ALL 8 access forms (from-import used / unused re-export / aliased / list, module attribute, "
              "module alias, starred import, attribute access on an object) x ALL 16 subsets of the library's 4 "
              "public definitions (exhaustive) + seeded mixtures: _used_names_in_file = used_names. filename_preserve "
              "captured from format_files for 1-2 preserved files incl. the library itself = file_preserve. rules: "
              "each real rule on the library with each client's name set, and on the statement pool with all "
              "preserve subsets: protected definitions survive. Non-trivial = >1 collected name / non-empty preserve "
              "/ the rule changed the source."),
        samples=[pairs[9][2], pairs[40][2], pairs[-1][2], clients[-1]],
        exhaustive=False, exhaustive_part=n_exh, random_part=nrand, histogram=dict(hist),
        sweep={"cases": n_sweep, "suppressed_by_finding": dict(suppressed), "unexplained": len(failures),
               "search_inputs": searched,
               "what": "every (form, subset) pair formatted through format_files(preserved_filenames=[client]) with "
                       "1 and 5 passes (+ real Pool and `python -m pyrefact lib.py --preserve client.py` on a "
                       "sample); client executed before/after; format_code(statement, preserve=P) for all P"},
        correspondence_disagreements=len(disagreements), property_oracle_failures=len(failures),
        unmodelled=["usage analyses / naming / hashing are an arbitrary oracle in the theorems",
                    "multiprocessing.Pool.starmap is replaced by map in the sweep (a sample runs the real pool)",
                    "__future__ imports in preserved files"],
        trusted_base=common.TRUSTED_BASE_COMMON + [
            "harness/k10.py + c08.t_pyfile: ast -> SurfaceModel term converters; the AST surface oracle",
            "in-process execution of the client against the library (exec + sys.modules) as the behaviour oracle"],
    )
    run.assumptions += [
        "a member is guaranteed only when its class name is in the preserve set too (finding F08-3)",
        "the theorems cover the seven modelled rules; the rest of the pipeline is observed by the sweep only"]


def cli_oracle(tree: Path, lib_src: str, client_src: str, target: str = "client.py"):
    (tree / "lib.py").write_text(lib_src)
    (tree / "client.py").write_text(client_src)
    env = dict(os.environ, PYTHONPATH=str(common.REPO), PYTHONHASHSEED="0")
    r = subprocess.run([sys.executable, "-m", "pyrefact", "lib.py", "--preserve", target, "--n_cores", "1"],
                       cwd=tree, env=env, capture_output=True, text=True, timeout=300)
    new_lib = (tree / "lib.py").read_text()
    before, after = run_client(lib_src, client_src), run_client(new_lib, client_src)
    if r.returncode != 0 or before != after:
        return {"path": f"CLI `python -m pyrefact lib.py --preserve {target}`", "lib": lib_src, "client": client_src,
                "new_lib": new_lib, "rc": r.returncode, "stderr": r.stderr[-800:], "client_before": before,
                "client_after": after, "lost_top": [], "lost_members": []}
    return None


def load_corpus():
    return [json.loads(p.read_text()) for p in sorted(CORPUS.glob("*.json"))] if CORPUS.exists() else []


def replay(path: str) -> int:
    data = json.loads(Path(path).read_text())
    mods = common.import_impl()
    wd = common.workdir(PID + "-replay")
    print(json.dumps({k: data[k] for k in data if k in ("kind", "explanation", "lost_top", "lost_members", "passes",
                                                        "client_before", "client_after", "detail")}, indent=1,
                     default=str))
    if data.get("kind") == "property-oracle" and "client" in data:
        tree = wd / "tree"
        tree.mkdir()
        print("client:\n" + data["client"])
        now = cross_oracle(mods, tree, data["lib"], data["client"], data.get("passes", 5))
        print("now:", json.dumps(now, indent=1) if now else "client unchanged, referenced definitions kept")
    elif data.get("kind") == "property-oracle":
        now = preserve_oracle(mods, data["source"], set(data["preserve"]))
        print("source:\n" + data["source"])
        print("now:", json.dumps(now, indent=1) if now else "preserved definitions kept")
    elif data.get("kind") == "correspondence" and data.get("detail") and data["detail"][0] == "rule":
        _, rule, P, src, out, exact = data["detail"]
        print("source:\n" + src)
        print(f"{rule} preserve={P} ->\n" + k10.run_rule(mods, rule, src, P))
    elif data.get("kind") == "proof":
        print(common.check_props(PID, wd))
    return 0
