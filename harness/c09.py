"""C09 -- Repeated formatting converges and never oscillates (kernel K7).

Theorems: coq/props/C09.v (cycle-cut idempotence of format_code's history loop, the {source}-only
history of fix()/chain(), the per-folder pass bookkeeping of format_files).  Correspondence: the
real format_code over scripted stages (ALL f : 4 -> 4 for the multi-run phase), the real
processing.fix/chain over scripted rules, the real format_files with format_file scripted.
What no theorem covers -- idempotence of the whole stage composition -- is only swept:
x, f(x), ..., f^7(x) of the real format_code on the deterministic corpus (NOT a proof)."""
from __future__ import annotations

import json
import random
import time
from collections import Counter
from pathlib import Path

from . import common, drv, drv_findings as dfind, drv_hunt as dh, drv_sweep as sw, tables

PID = "C09"
BUDGET = 5   # "within the tool's own module pass budget (five applications)"; checked against Tables below

SIGS: dict = {}          # no known finding for C09 on the pinned tree
WITNESS: dict = {}


def sequence_verdict(src: str, outs: list[str], iters: int) -> tuple[str, int]:
    """('fixed', k) when f^k(src) is a fixed point (k minimal), ('cycle', period), ('open', iters)"""
    xs = [src] + outs
    for k in range(len(xs) - 1):
        if xs[k + 1] == xs[k]:
            return "fixed", k
    seen = {}
    for i, x in enumerate(xs):
        if x in seen:
            return "cycle", i - seen[x]
        seen[x] = i
    return "open", len(outs)


def idempotence_instances(mods, env: drv.Env, n=4) -> list[dict]:
    """T09.1 observed on the implementation: with every non-multi stage the identity and a universe
    smaller than the pass budget, format_code(format_code(x)) == format_code(x) for ALL f : n -> n."""
    import itertools
    bad = []
    name = next(m for m in env.multi_names if m != "fixes.fix_too_many_blank_lines")
    env.install()
    try:
        for f in itertools.product(range(n), repeat=n):
            for start in range(n):
                s = drv.base_script(n)
                s["tables"][name] = list(f)
                s["input"] = start
                o1 = env.run(s)
                s2 = dict(s, input=o1["out"]) if 0 <= o1["out"] < n else None
                o2 = env.run(s2) if s2 else {"out": -1}
                if o1["out"] != o2["out"]:
                    bad.append({"f": list(f), "start": start, "first": o1["out"], "second": o2["out"]})
    finally:
        env.uninstall()
    return bad


def check(run: common.Run):
    wd = common.workdir(PID)
    t_start = time.time()
    ps = common.proof_step(run, PID, wd)
    mods = common.import_impl()
    findings = common.load_findings(PID)
    tb = tables.get()
    rnd = random.Random(run.seed)
    hist = Counter()
    disagreements: list[dict] = []
    failing_inputs: list[dict] = []

    if tb["MAX_MODULE_PASSES"] != BUDGET:
        disagreements.append({"kind": "correspondence", "kernel": "Tables.MAX_MODULE_PASSES",
                              "detail": f"the CLI budget is {tb['MAX_MODULE_PASSES']}, the property says five"})

    # (a) format_code's loops over scripted stages: all f : 4 -> 4
    fc = drv.format_code_correspondence(mods, wd, run.tier, run.seed, part="loops" if run.tier == "quick" else "all")
    env = fc.pop("env", None)
    if fc["shape_error"]:
        disagreements.append({"kind": "correspondence", "kernel": "K7 shape of _multi_run_fixes", "detail": fc["shape_error"]})
    for d in fc["disagreements"][:5]:
        if "script" in d and env is not None:
            d = dict(d, model=drv.model_view(wd, env, d["script"], d["impl"], tb["MAX_FILE_PASSES"]))
        disagreements.append(d)
    n_more = max(0, len(fc["disagreements"]) - 5)
    idem_bad = idempotence_instances(mods, env) if env is not None else []
    for b in idem_bad[:3]:
        disagreements.append({"kind": "theorem-instance", "kernel": "T09.1 cycle-cut idempotence observed on main.format_code",
                              "case": b})
    hist["T09.1 instances on the implementation"] = 4 ** 4 * 4

    # (b) processing.fix / chain history = {source}
    gitems = [it for it in drv.guard_cases(mods, run.tier, only_all_valid=True, n=4)
              if it["which"] not in ("_replace_nodes", "fix1")]
    bad, errs = drv.run_simple_cases(wd, "fixloop", "guard_case", "guard_case_ok",
                                     [drv.guard_case_to_coq(it) for it in gitems])
    disagreements += errs
    for i in bad:
        disagreements.append({"kind": "correspondence", "kernel": "K7 fix_model (history of processing.fix/chain)",
                              "case": gitems[i]})
    hist["fix/chain loop cases"] = len(gitems)

    # (b') the orientation heuristic vs DriverModel.orelse_preferred (T09.7)
    oitems = drv.orientation_cases(mods)
    bad, errs = drv.run_simple_cases(wd, "orient", "orient_case", "orient_case_ok",
                                     [drv.orient_case_to_coq(it) for it in oitems])
    disagreements += errs
    for i in bad:
        disagreements.append({"kind": "correspondence", "kernel": "K7 orelse_preferred (fixes._orelse_preferred_as_body)",
                              "case": oitems[i]})
    for it in oitems:
        if it["impl"] is None:
            disagreements.append({"kind": "correspondence", "kernel": "K7 _orelse_preferred_as_body raised", "case": it})
    hist["orientation pairs"] = len(oitems)

    # (c) format_files bookkeeping
    fcases = drv.files_cases(rnd, 150 if run.tier == "quick" else 3000, tb["MAX_MODULE_PASSES"],
                             thin=2 if run.tier == "quick" else 1)
    fobs = [drv.run_format_files(mods, wd, c) for c in fcases]
    bad, errs = drv.run_simple_cases(wd, "files", "files_case", "files_case_ok",
                                     [drv.files_case_to_coq(c, o) for c, o in zip(fcases, fobs)], shard=400)
    disagreements += errs
    for i in bad:
        disagreements.append({"kind": "correspondence", "kernel": "K7 format_files_model",
                              "case": {"max_passes": fcases[i][0], "folders": fcases[i][1], "tables": fcases[i][2]},
                              "impl": fobs[i]})
    for c, o in zip(fcases, fobs):
        if o["error"]:
            disagreements.append({"kind": "correspondence", "kernel": "K7 format_files raised", "case": c, "impl": o})
        hist[f"format_files passes={len(o['passes'])}"] += 1
    # the real multiprocessing pool instead of the serial stand-in: same files, same results
    for c in fcases[-3:] + fcases[:2]:
        o_serial = drv.run_format_files(mods, wd, c)
        o_pool = drv.run_format_files(mods, wd, c, real_pool=True)
        if (o_serial["final"], o_serial["result"], o_serial["calls"]) != (o_pool["final"], o_pool["result"], o_pool["calls"]):
            disagreements.append({"kind": "correspondence", "kernel": "K7 pool.starmap abstracted as map",
                                  "case": c, "serial": o_serial, "pool": o_pool})
    hist["format_files real-pool cases"] = 5

    # ---- sweep (not proof): x, f(x), ..., f^7(x)
    fam = sw.build_corpus(run.tier)
    iters = BUDGET + 2
    budget = 70 if run.tier == "quick" else 1200
    deadline = time.time() + budget
    jobs, meta = [], {}
    # round 4: first statements x undefined names (text inserted into a docstring grows on every application), alias
    # chains (bounded work per application), and call histories: the whole sequence is run a second time in the same
    # process (`repeat`), which must converge the same way (seed C09-c: a process-global content history)
    for i, s in enumerate(dh.first_statement_family()):
        if run.tier == "thorough" or i % 2 == 0:
            jid = len(jobs)
            jobs.append((jid, s, dict(sw.OPTION_COMBOS[i % 8]), iters))
            meta[jid] = "first_statement"
    # round 5: backslash continuations onto blank lines (a line break kept / re-inserted on every application would
    # grow the text), comparison pairs with heterogeneous constants, type confusion (a rule that rewrites `x == 1 or
    # x == True` back and forth)
    r5 = [("continuations", [s_ for _, s_ in dh.continuation_family()], 4),
          ("hetero_bounds", [s_ for _, s_ in dh.hetero_bound_family("quick") if s_ in dh.HETERO_CORE], 8),
          ("type_confusion", dh.type_confusion_family(), 6)]
    for name, srcs, stride in r5:
        srcs = [s_ for s_ in srcs if sw.valid(s_)]
        for i, s in enumerate(srcs[:: (stride if run.tier == "quick" else 1)]):
            jid = len(jobs)
            jobs.append((jid, s, dict(sw.OPTION_COMBOS[(i % 4) * 2]), iters))
            meta[jid] = name
    for tag, s in dh.budget_family(big=run.tier == "thorough"):
        jid = len(jobs)
        jobs.append((jid, s, dict(sw.OPTION_COMBOS[0]), iters))
        meta[jid] = "budget:" + tag
    for i, s in enumerate(dh.alias_chain_family()):
        jid = len(jobs)
        jobs.append((jid, s, dict(sw.OPTION_COMBOS[0], repeat=True), iters))
        meta[jid] = "alias_chains"
    for i, s in enumerate([x for x in fam["functions"] if sw.valid(x)][:: (12 if run.tier == "quick" else 3)]):
        jid = len(jobs)
        jobs.append((jid, s, dict(sw.OPTION_COMBOS[i % 8], repeat=True), iters))
        meta[jid] = "history:functions"
    # orientation x layout x line length, bracketed lines of 55..70 columns (seeds C09-a, C09-b) come first
    widths = (60, 79, 100)
    for i, (tag, s) in enumerate(sw.bracket_width_family()):
        for w in widths:
            jid = len(jobs)
            jobs.append((jid, s, dict(sw.OPTION_COMBOS[(i + w) % 8], max_line_length=w), iters))
            meta[jid] = "brackets:" + tag
    for i, (tag, s) in enumerate(sw.orientation_family()):
        if run.tier == "thorough":
            ws = widths
        elif "/L4/" in tag and i % 3:
            ws = ()
        elif tag.startswith("long"):
            ws = (60, 100) if "if-" in tag and i % 2 == 0 else (79,) if i % 2 else ()
        else:
            ws = (widths[i % 3],) if "if-" in tag or i % 4 == 0 else ()
        for w in ws:
            jid = len(jobs)
            jobs.append((jid, s, dict(sw.OPTION_COMBOS[i % 8], max_line_length=w), iters))
            meta[jid] = "orientation:" + tag
    step = {"quick": {"repo": 12, "functions": 8, "constructs": 5, "eof": 3}, "thorough": {}}[run.tier]
    for name in ("functions", "repo", "constructs", "eof"):
        srcs = [s for s in fam[name] if sw.valid(s)][::step.get(name, 1)]
        for i, s in enumerate(srcs):
            combos = sw.OPTION_COMBOS if run.tier == "thorough" else [sw.OPTION_COMBOS[i % 8]]
            for o in combos:
                jid = len(jobs)
                jobs.append((jid, s, o, iters))
                meta[jid] = name
    workers = sw.Workers(min(8, common.NCPU))
    try:
        results = workers.run(jobs, soft=40, hard=80, deadline=deadline)
    finally:
        workers.close()
    sweep = Counter()
    announced = set()
    for jid, r in sorted(results.items()):
        if r.get("skipped"):
            sweep["skipped (time budget)"] += 1
            continue
        if r.get("timeout") or r["error"]:
            sweep["raised or timed out (C04's business)"] += 1
            continue
        verdict, k = sequence_verdict(jobs[jid][1], r["outs"], iters)
        sweep[f"{verdict} after {k}"] += 1
        if "outs2" in r:
            v2, k2 = sequence_verdict(jobs[jid][1], r["outs2"], iters)
            sweep["call-history sequences"] += 1
            if (v2, k2) != (verdict, k) or r["outs2"][-1:] != r["outs"][-1:]:
                failing_inputs.append({"kind": "sweep", "what": "the same text formatted again later in the same process converges "
                                       f"differently ({verdict} after {k} the first time, {v2} after {k2} the second time)",
                                       "case": {"source": jobs[jid][1], "options": jobs[jid][2], "first": r["outs"][-2:],
                                                "second": r["outs2"][-2:]}})
                continue
        if verdict == "fixed" and k <= BUDGET:
            continue
        f = dfind.match(findings, {"main.format_code", "fixes.add_missing_imports", "fixes.simplify_assign_immediate_return",
                                   "fixes.undefine_unused_variables"}, jobs[jid][1])
        if f is not None:
            sweep[f"matched {f.id}"] += 1
            if f.id not in announced:
                announced.add(f.id)
                run.known_finding(f.id, f"site={f.fields.get('site')} :: {f.text[:150]}")
            continue
        case = {"source": jobs[jid][1], "options": jobs[jid][2], "verdict": verdict, "k": k,
                "sequence_lengths": [len(x) for x in r["outs"]], "sequence_tail": r["outs"][-3:]}
        failing_inputs.append({"kind": "sweep", "what": "repeated formatting " +
                               ("oscillates" if verdict == "cycle" else "does not reach a fixed point within five applications"),
                               "case": case})

    # ---- verdicts
    reported_groups = set()
    for fi in failing_inputs:
        gkey = (fi.get("kind"), str(fi.get("what"))[:60], fi.get("site"))
        if gkey in reported_groups or len(reported_groups) >= 24:
            continue
        reported_groups.add(gkey)
        run.violation(dict(fi, explanation="the real format_code violates C09 on this input"), True)
    have_input = bool(failing_inputs)
    for d in disagreements[:6]:
        run.violation(dict(d, explanation=d.get("explanation", "model and implementation disagree"),
                           more_disagreements=n_more), have_input)
    if ps.get("props") and not ps["props"]["ok"]:
        pr = ps["props"]
        run.violation({"kind": "proof", "file": pr["file"], "broken": pr.get("broken"), "log": pr["log"],
                       "explanation": "a property theorem no longer checks"}, have_input)

    run.coverage.update(
        evaluations=fc["evaluations"] + len(gitems) + len(fcases) + 4 ** 4 * 4 + len(oitems),
        distinct_nontrivial=fc["distinct"] + sum(1 for o in fobs if len(o["passes"]) >= 2),
        rule=("correspondence cases: (a) main.format_code with every stage replaced by a table lookup over a "
              "4-text universe: ALL f : 4 -> 4 on one stage of _multi_run_fixes x 4 start texts x keep_imports "
              "x {module, indented fragment}, `safe` alternating in the quick tier and crossed in the thorough tier "
              "(exhaustive, seed independent), successor chains around MAX_FILE_PASSES "
              "(budget exhaustion of either loop), seeded random scripts; result text, full stage trace and preserve "
              "set must equal DriverModel.format_code_run; (b) processing.fix / chain with a scripted rule: all "
              "f : 4 -> 4 x 4 starts x {max_iter 4, default fix, default chain}; (c) main.format_files with format_file "
              "scripted: all pairs of tables 3 -> 3 on two folders x max_passes in {1,MAX} (every 4th pair for {0,2}; quick tier: every 2nd of those), chains beyond the "
              "budget, seeded random folder layouts; per-pass file sets, final contents, return value; 5 cases "
              "through the real multiprocessing pool. Non-trivial = >= 2 multi-run passes with a distinct "
              "(trace, result) / >= 2 format_files passes."),
        samples=fc["samples"][:2] + [{"format_files": {"max_passes": fcases[40][0], "folders": fcases[40][1]},
                                      "impl": fobs[40]}],
        exhaustive=run.tier != "quick",
        exhaustive_parts={"format_code_f4x4": True, "fix_f4x4": True, "format_files_pairs_3x3": run.tier != "quick"},
        histogram=dict(hist) | {"format_code scripted: " + k: v for k, v in fc["histogram"].items()},
        correspondence_disagreements=len(disagreements) + n_more,
        sweep=dict(sweep) | {"jobs": len(jobs), "iterations": iters,
                             "note": "x, f(x), ..., f^7(x) on generated functions + repository examples + constructs; "
                                     "deterministic, seed independent; NOT a proof obligation -- idempotence of the "
                                     "composition single-run . loop . abstractions . loop . naming . imports . layout "
                                     "is not a theorem"},
        unmodelled=["idempotence of the whole stage composition (swept only)",
                    "T09.3 of the design (idempotence of the style renaming functions) belongs to C19's kernel and is not built here",
                    "orientation heuristics of swap_if_else/_orelse_preferred_as_body (covered only by the sweep)"],
        trusted_base=common.TRUSTED_BASE_COMMON + [
            "scripted stage fakes + TStr of harness/drv.py; serial stand-in for multiprocessing.Pool (checked against the real pool on 5 cases)"],
    )
    run.assumptions += [
        "the theorems are about DriverModel.v; the tie to main.py / processing.py is the correspondence above",
        "T09.1 is about the multi-run phase only; the single-run stages before/after it may break idempotence",
        "string equality of texts is decidable equality of the model (eqb_spec)"]
    run.notes.append(f"wall before finish: {round(time.time() - t_start, 1)} s; format_code correspondence {fc.get('wall_s')} s")


def replay(path: str) -> int:
    data = json.loads(Path(path).read_text())
    mods = common.import_impl()
    wd = common.workdir(PID + "-replay")
    print(json.dumps({k: data[k] for k in data if k in ("kind", "explanation", "kernel", "what")}, indent=1))
    kind = data.get("kind")
    if kind == "sweep":
        c = data["case"]
        o = c["options"]
        cur, seq = c["source"], []
        for _ in range(BUDGET + 2):
            mods["core"].parse.cache_clear()
            with common.quiet():
                kw = {"max_line_length": o["max_line_length"]} if o.get("max_line_length") else {}
                cur = mods["main"].format_code(cur, safe=o["safe"], keep_imports=o["keep_imports"],
                                               preserve=frozenset(o["preserve"]), **kw)
            seq.append(cur)
        print("verdict:", sequence_verdict(c["source"], seq, BUDGET + 2))
        for i, x in enumerate(seq):
            print(f"--- f^{i + 1}(x) ---\n{x}")
    elif kind == "correspondence" and "script" in data:
        env = drv.Env(mods)
        env.install()
        try:
            obs = env.run(data["script"])
        finally:
            env.uninstall()
        print("impl :", obs)
        print("model:", drv.model_view(wd, env, data["script"], obs, tables.get()["MAX_FILE_PASSES"]))
    elif kind == "correspondence" and "folders" in str(data.get("case")):
        c = data["case"]
        case = (c["max_passes"], [[tuple(x) for x in f] for f in c["folders"]], c["tables"])
        print("impl now:", drv.run_format_files(mods, wd, case))
    elif kind == "proof":
        print(common.check_props(PID, wd))
    else:
        print(json.dumps(data, indent=1)[:4000])
    return 0
