"""C05 -- Formatting is a pure function of its input (history independence); caches stay faithful.
Kernel K8: coq/theories/CacheModel.v, CacheProofs.v; property theorems coq/props/C05.v.

What runs against the real code ($VERIF_REPO):
  1. cache mechanics: CacheModel.get/update/exec vs the real lru_cache objects (core.parse itself at its
     real capacity, functools.lru_cache at small capacities) driven by synthetic rules that request and
     mutate shared trees -- exhaustive small scope + seeded long sequences that force eviction;
  2. the premise of T05.1 ("no rule changes an object the caches handed out"): core.parse,
     core.compile_template and tracing.trace_origin are replaced by recording caches; after EVERY call of
     generated histories every cached object is compared with a fresh computation, and every call's result
     is compared with the result of the same call in a fresh process (fork of a pristine zygote).
  3. (round 5) state audit: every module-level mutable object of every pyrefact module is digested in the fresh
     process, after every history and after clearing every lru cache; what changed must be allow-listed with its
     invariant (corpus/c05/module_state.json); containers keyed by id(...) are never accepted;
  4. (round 5) histories on the REAL caches without recorders (mode 'bare': evicted trees really are freed) that end
     with never-seen probe inputs; the registry core._REBOUND_NAMES vs AuxStateModel (WeakSet design).
A cache entry that differs from a fresh computation, or a result that differs from the fresh-process result,
is a violation of C05 with a concrete failing history."""
from __future__ import annotations

import ast
import functools
import itertools
import json
import os
import pickle
import random
import signal
import sys
import time
import traceback
from collections import Counter
from concurrent.futures import ThreadPoolExecutor
from pathlib import Path

from . import common, c05_corpus
from .common import glist, gbool

PID = "C05"
MODS = None          # set in the main process before the zygotes are forked; inherited by them
N_ZYGOTES = 6
JOB_TIMEOUT = 120

CFGS = {
    "default": {},
    "safe": {"safe": True},
    "keep_imports": {"keep_imports": True},
    "preserve": {"preserve": frozenset({"foo", "x", "Foo"})},
    "narrow": {"max_line_length": 60},
}
PATTERNS = [
    ("sub", "{{x}} == None", "{{x}} is None"),
    ("sub", "print({{...*}})", "log({{...*}})"),
    ("sub", "{{f}}({{a}})", "{{f}}({{a}}, 0)"),
    ("findall", "{{name}} = {{value}}", None),
    ("findall", "for {{x}} in {{y}}:\n    {{...*}}", None),
]

# repaired defects (KNOWN_FINDINGS.txt `fixed:` lines): their witnesses must pass from now on
FIXED_WITNESSES = [
    ("F05-1", "performance.remove_redundant_chained_calls", "print(list(reversed(sorted(x))))\n", (), {}),
    ("F05-1", "performance.remove_redundant_chained_calls", "y = reversed(sorted(k, reverse=foo() == 3))\n", (), {}),
    ("F05-1", "performance.remove_redundant_chained_calls", "y = list(iter(reversed(sorted(v1))))\n", (), {}),
    ("F05-2", "object_oriented.remove_unused_self_cls",
     "class A:\n    def f(self, a):\n        return a + 1\n\n    def g(self):\n        return self.f(2)\n", (), {}),
    ("F05-2", "object_oriented.remove_unused_self_cls",
     "class A:\n    def f(self, a):\n        return self.h(a)\n\n    @staticmethod\n    def h(a):\n        return a\n", (), {}),
    ("F05-3", "fixes.merge_nested_comprehensions", "z = [x for x in (y for y in range(10))]\n", (), {}),
    ("F05-4", "object_oriented.fix_unconventional_class_definitions",
     "class Foo:\n    pass\n\nFoo.x = 1\n", (), {}),
    ("F05-5", "abstractions.overused_constant",
     "import os\n\n\ndef f():\n" + "".join(f"    a{i} = 'some/long/constant/string/value'\n" for i in range(6)) + "    return a0\n",
     (), {"root_is_static": True}),
]


# ------------------------------------------------------------------------------------------------
# canonical forms


def sdump(o, depth=0) -> str:
    """Structural dump of ast nodes / templates (Wildcard & co are ast.AST subclasses), containers, types."""
    if depth > 300:
        return "<deep>"
    if isinstance(o, ast.AST):
        # ALL instance attributes, not only _fields: core._match_template_vars matches on vars(template), so an
        # attribute a rule hangs on a cached template changes what that template matches
        names = list(getattr(o, "_fields", ())) + list(getattr(o, "_attributes", ()))
        names += sorted(k for k in vars(o) if k not in names)
        parts = [f"{n}={sdump(getattr(o, n), depth + 1)}" for n in names if hasattr(o, n)]
        return f"{type(o).__name__}({', '.join(parts)})"
    if isinstance(o, tuple) and hasattr(o, "_fields"):
        return f"{type(o).__name__}({', '.join(sdump(x, depth + 1) for x in o)})"
    if isinstance(o, (list, tuple)):
        return ("[%s]" if isinstance(o, list) else "(%s)") % ", ".join(sdump(x, depth + 1) for x in o)
    if isinstance(o, (set, frozenset)):
        return "{%s}" % ", ".join(sorted(sdump(x, depth + 1) for x in o))
    if isinstance(o, dict):
        return "{%s}" % ", ".join(sorted(f"{sdump(k, depth + 1)}: {sdump(v, depth + 1)}" for k, v in o.items()))
    if isinstance(o, type):
        return f"<type {o.__module__}.{o.__qualname__}>"
    return repr(o)


def tree_dump(tree) -> str:
    """ast.dump with positions + the instance attributes a rule may have hung on the nodes (a fresh parse has none)."""
    extra = []
    for i, n in enumerate(ast.walk(tree)):
        ks = sorted(k for k in vars(n) if k not in n._fields and k not in n._attributes)
        if ks:
            extra.append(f"{i}:{type(n).__name__}:{','.join(ks)}")
    return ast.dump(tree, include_attributes=True) + ("" if not extra else " EXTRA-ATTRIBUTES " + " ".join(extra))


def canon(x):
    """Canonical, picklable form of a call result."""
    if isinstance(x, (str, int, bool)) or x is None:
        return x
    return sdump(x)


def enc(o):
    """JSON encoding of op arguments (sets/frozensets/tuples kept apart)."""
    if isinstance(o, (str, int, bool, float)) or o is None:
        return o
    if isinstance(o, frozenset):
        return {"__frozenset__": sorted((enc(x) for x in o), key=repr)}
    if isinstance(o, set):
        return {"__set__": sorted((enc(x) for x in o), key=repr)}
    if isinstance(o, tuple):
        return {"__tuple__": [enc(x) for x in o]}
    if isinstance(o, list):
        return [enc(x) for x in o]
    if isinstance(o, dict):
        return {"__dict__": [[enc(k), enc(v)] for k, v in sorted(o.items(), key=repr)]}
    raise TypeError(f"unencodable op argument {o!r}")


def dec(o):
    if isinstance(o, list):
        return [dec(x) for x in o]
    if isinstance(o, dict):
        if "__frozenset__" in o:
            return frozenset(dec(x) for x in o["__frozenset__"])
        if "__set__" in o:
            return set(dec(x) for x in o["__set__"])
        if "__tuple__" in o:
            return tuple(dec(x) for x in o["__tuple__"])
        if "__dict__" in o:
            return {dec(k): dec(v) for k, v in o["__dict__"]}
    return o


def op_key(op) -> str:
    return json.dumps(enc(op), sort_keys=True)


# ------------------------------------------------------------------------------------------------
# recording caches (installed inside the forked job processes only)


class Recorder:
    """Stands in for an lru_cache-wrapped function.
    mode 'record': an own dict that never evicts (so a corrupted entry cannot silently be re-computed);
    mode 'through': the real lru_cache keeps working (real eviction); every object handed out is remembered."""

    def __init__(self, kind, module, name, mode):
        self.kind, self.module, self.name, self.mode = kind, module, name, mode
        self.orig = getattr(module, name)
        self.entries = {}      # key -> (object, args, kwargs): latest object handed out for that key
        self.window = {}       # keys handed out since the last check
        self.calls = self.misses = 0
        setattr(module, name, self)

    def uninstall(self):
        setattr(self.module, self.name, self.orig)

    def __call__(self, *a, **k):
        self.calls += 1
        key = functools._make_key(a, k, False)
        if self.mode == "record":
            if key in self.entries:
                obj = self.entries[key][0]
            else:
                self.misses += 1
                obj = getattr(self.orig, "__wrapped__", self.orig)(*a, **k)   # an exception is not cached (as lru_cache)
                self.entries[key] = (obj, a, k)
        else:
            obj = self.orig(*a, **k)
            self.entries[key] = (obj, a, k)
        self.window[key] = True
        return obj

    def cache_clear(self):
        self.entries.clear()
        self.window.clear()
        if hasattr(self.orig, "cache_clear"):
            self.orig.cache_clear()

    def cache_info(self):
        return self.orig.cache_info()

    def cache_parameters(self):
        return self.orig.cache_parameters()

    @property
    def __wrapped__(self):
        return self.orig.__wrapped__


class Caches:
    def __init__(self, mods, mode):
        self.mods, self.mode = mods, mode
        self.parse = Recorder("parse", mods["core"], "parse", mode)
        self.template = Recorder("template", mods["core"], "compile_template", mode)
        self.trace = Recorder("trace", mods["tracing"], "trace_origin", mode)
        self.fresh_memo = {}
        self.checked = 0

    def uninstall(self):
        for r in (self.parse, self.template, self.trace):
            r.uninstall()

    def _fresh(self, rec, key, a, k) -> str:
        mk = (rec.kind, key)
        if mk in self.fresh_memo:
            return self.fresh_memo[mk]
        if rec.kind == "parse":
            d = tree_dump(ast.parse(*a, **k))
        elif rec.kind == "template":
            d = sdump(getattr(rec.orig, "__wrapped__", rec.orig)(*a, **k))
        else:
            # recompute without any cache underneath
            core, tracing = self.mods["core"], self.mods["tracing"]
            saved = (core.parse, tracing.trace_origin)
            core.parse, tracing.trace_origin = (lambda s: ast.parse(s)), rec.orig.__wrapped__
            try:
                d = sdump(rec.orig.__wrapped__(*a, **k))
            finally:
                core.parse, tracing.trace_origin = saved
        self.fresh_memo[mk] = d
        return d

    def check(self, everything: bool) -> list[dict]:
        """Compare cached objects with a fresh computation.  `everything`: all entries ever recorded,
        otherwise only the objects handed out since the last check."""
        bad = []
        for rec in (self.parse, self.template, self.trace):
            keys = list(rec.entries) if everything else [k for k in rec.window if k in rec.entries]
            rec.window = {}
            for key in keys:
                obj, a, k = rec.entries[key]
                self.checked += 1
                try:
                    got = tree_dump(obj) if rec.kind == "parse" else sdump(obj)
                    want = self._fresh(rec, key, a, k)
                except Exception as e:  # noqa
                    got, want = f"<dump failed: {type(e).__name__}: {e}>", ""
                if got != want:
                    i = next((j for j, (x, y) in enumerate(zip(got, want)) if x != y), min(len(got), len(want)))
                    bad.append({"cache": rec.kind, "function": f"{rec.module.__name__}.{rec.name}",
                                "key": (a[0] if a and isinstance(a[0], str) else repr(a))[:2000],
                                "key_rest": repr((a[1:], k))[:300],
                                "cached": got[max(0, i - 80):i + 160], "fresh": want[max(0, i - 80):i + 160]})
                    # re-baseline so that one mutation is reported once, at the call that made it
                    self.fresh_memo[(rec.kind, key)] = got
        return bad


def clear_all_caches(include_logs=False):
    for name, mod in list(sys.modules.items()):
        if name.startswith("pyrefact") and mod is not None and (include_logs or name != "pyrefact.logs"):
            for v in list(vars(mod).values()):
                if hasattr(v, "cache_clear") and callable(v.cache_clear):
                    try:
                        v.cache_clear()
                    except Exception:  # noqa
                        pass



# ------------------------------------------------------------------------------------------------
# state audit: every module-level mutable object of every pyrefact module (round 5, seed C05-d)

STATE_OBJS = None      # set in the main process before the zygotes fork (the forks see the same objects)
STATE_ALLOW_FILE = common.VERIF / "corpus" / "c05" / "module_state.json"
_PRINTABLE = (str, bytes, int, float, bool, complex, type(None))
ID_KEY_MIN = 2 ** 20           # ints above this that fill a whole container are taken for id(...) values


def _container_kind(v):
    import collections
    import weakref
    if isinstance(v, (weakref.WeakSet, weakref.WeakKeyDictionary, weakref.WeakValueDictionary)):
        return type(v).__name__
    if isinstance(v, (dict, list, set, bytearray, collections.deque)):      # incl. defaultdict, OrderedDict, Counter
        return type(v).__name__
    if hasattr(v, "cache_info") and hasattr(v, "cache_clear") and callable(v.cache_clear):
        return "lru_cache"
    return None


def _functions_of(v, depth=0):
    """v and the functions it wraps (functools.wraps chains, lru_cache wrappers, staticmethod/classmethod/property)."""
    import types
    out = []
    while v is not None and depth < 6:
        if isinstance(v, (staticmethod, classmethod)):
            v = v.__func__
            continue
        if isinstance(v, property):
            v = v.fget
            continue
        if isinstance(v, types.FunctionType):
            out.append(v)
        v = getattr(v, "__wrapped__", None)
        depth += 1
    return out


def import_all_pyrefact():
    """Every module of the package, so that the audit sees all of them (main process, before the zygotes fork)."""
    import importlib
    import pkgutil
    import pyrefact
    failed = []
    for m in pkgutil.walk_packages(pyrefact.__path__, "pyrefact."):
        if m.name.endswith("__main__"):
            continue
        try:
            importlib.import_module(m.name)
        except Exception as e:  # noqa
            failed.append(f"{m.name}: {type(e).__name__}")
    return failed


def state_objects() -> list[tuple[str, str, object]]:
    """[(qualified name, kind, object)] for every module-level mutable object of the imported pyrefact modules:
    containers and lru_cache wrappers among the module globals, class attributes, mutable default arguments and
    closure cells of module-level functions / methods; plus rebindable scalars and module-level ast objects (kind
    'value': their digest is the value itself).  One entry per object (aliases are listed once, first name wins)."""
    import types
    out, seen = [], set()

    def add(name, v, allow_value=False):
        kind = _container_kind(v)
        if kind is None and allow_value and (isinstance(v, _PRINTABLE + (tuple, frozenset, ast.AST))):
            kind = "value"
        if kind is None or id(v) in seen:
            return
        if kind != "value":
            seen.add(id(v))
        if kind == "lru_cache" and getattr(v, "__qualname__", None):     # aliases (pyrefact.compile): the defining name
            name = f"{v.__module__}.{v.__qualname__}"
        out.append((name, kind, v))

    def add_function(name, fn):
        for f in _functions_of(fn):
            if not (getattr(f, "__module__", "") or "").startswith("pyrefact"):
                continue
            for i, d in enumerate(f.__defaults__ or ()):
                add(f"{name}.__defaults__[{i}]", d)
            for k, d in sorted((f.__kwdefaults__ or {}).items()):
                add(f"{name}.__kwdefaults__[{k}]", d)
            for cname, cell in zip(f.__code__.co_freevars, f.__closure__ or ()):
                try:
                    add(f"{name}.<closure {cname}>", cell.cell_contents)
                except ValueError:
                    pass

    for mname, mod in sorted(sys.modules.items()):
        if not (mname == "pyrefact" or mname.startswith("pyrefact.")) or mod is None:
            continue
        for k, v in sorted(vars(mod).items()):
            if k.startswith("__") or isinstance(v, types.ModuleType):
                continue
            q = f"{mname}.{k}"
            if isinstance(v, type):
                if v.__module__ != mname:
                    continue
                for ck, cv in sorted(vars(v).items()):
                    if ck.startswith("__") or ck == "_field_defaults":
                        continue
                    add(f"{q}.{ck}", cv)
                    add_function(f"{q}.{ck}", cv)
                continue
            add(q, v, allow_value=True)
            add_function(q, v)
    return out


def _printable(x, depth=0) -> bool:
    if isinstance(x, _PRINTABLE):
        return True
    if isinstance(x, (tuple, frozenset)) and depth < 4:
        return all(_printable(y, depth + 1) for y in x)
    return False


def _h(text: str) -> str:
    import hashlib
    return hashlib.sha1(text.encode("utf-8", "backslashreplace")).hexdigest()[:12]


def state_digest(kind, v):
    """Canonical digest: length + hash of the sorted repr of the keys / elements where they are plain data (and of the
    values where those are plain data too); for containers of other objects (nodes) the length alone; a non-empty
    container all of whose keys are ints > 2**20 is marked id-keyed (length alone: addresses differ per process)."""
    if kind == "lru_cache":
        return {"len": v.cache_info().currsize}
    if kind == "value":
        return {"value": _h(sdump(v))}
    try:
        keys = list(v.keys()) if hasattr(v, "keys") else list(v)
    except Exception as e:  # noqa
        return {"error": type(e).__name__}
    d = {"len": len(keys)}
    if keys and all(type(k) is int and k > ID_KEY_MIN for k in keys):
        d["id_keyed"] = True
        return d
    ordered = isinstance(v, (list, bytearray)) or type(v).__name__ == "deque"
    if all(_printable(k) for k in keys):
        reprs = [repr(k) for k in keys]
        d["keys"] = _h("\x00".join(reprs if ordered else sorted(reprs)))
        if isinstance(v, dict):
            vals = [v[k] for k in keys]
            if all(_printable(x) or isinstance(x, (list, set, dict)) and _printable(tuple(x)) for x in vals):
                d["values"] = _h("\x00".join(sorted(f"{k!r}:{sdump(x)}" for k, x in zip(keys, vals))))
    return d


class StateAudit:
    """Taken in the job process: digests at the start (= the pristine zygote: pyrefact imported, nothing run), after the
    history, and after the history + cache_clear() of every lru_cache + gc (what is left then outlives every cache)."""

    def __init__(self):
        self.objs = STATE_OBJS if STATE_OBJS is not None else state_objects()
        self.fresh = [state_digest(k, v) for _, k, v in self.objs]

    def finish(self) -> list[dict]:
        import gc
        after = [state_digest(k, v) for _, k, v in self.objs]
        changed = [i for i, (a, b) in enumerate(zip(self.fresh, after)) if a != b]
        if not changed:
            return []
        clear_all_caches(include_logs=False)
        for i in changed:
            if self.objs[i][1] == "lru_cache":
                try:
                    self.objs[i][2].cache_clear()
                except Exception:  # noqa
                    pass
        cleared = {i: state_digest(self.objs[i][1], self.objs[i][2]) for i in changed}
        if any(cleared[i] != self.fresh[i] for i in changed):
            gc.collect()           # reference cycles only; parse trees have none, so this is the rare path
            cleared = {i: state_digest(self.objs[i][1], self.objs[i][2]) for i in changed}
        return [{"object": self.objs[i][0], "object_kind": self.objs[i][1], "fresh": self.fresh[i],
                 "after_history": after[i], "after_cache_clear": cleared[i]} for i in changed]


def load_state_allow() -> dict:
    data = json.loads(STATE_ALLOW_FILE.read_text())
    return {e["object"]: e for e in data["allow"]}


def judge_state_change(ch: dict, allow: dict):
    """None if harmless, else the reason why this changed module-level object breaks the audit."""
    if ch["after_history"].get("id_keyed") or ch["after_cache_clear"].get("id_keyed"):
        return ("container keyed by id(...) values (all keys are ints > 2**20): an address names an object only while that "
                "object lives; never allow-listable")
    e = allow.get(ch["object"])
    if e is None:
        return "module-level object changed by a call history and not on the allow-list corpus/c05/module_state.json"
    if e["kind"] != ch["object_kind"]:
        return f"allow-listed as {e['kind']} (invariant: {e['invariant']}) but is now a {ch['object_kind']}"
    if not e.get("survives_cache_clear") and ch["after_cache_clear"] != ch["fresh"]:
        return (f"allow-listed with the invariant '{e['invariant']}', but after cache_clear() of every lru_cache + gc it "
                "does not return to its fresh-process digest: entries outlive the cached objects")
    return None


# ------------------------------------------------------------------------------------------------
# operations of a history


def run_op(mods, op):
    """op = ("rule", qname, source, args, kwargs) | ("rejected", qname, source, args, kwargs)
          | ("format", source, cfg name) | ("sub"/"findall", pattern, repl, source) | ("parse", source)"""
    kind = op[0]
    try:
        if kind == "rule":
            return ("ok", canon(c05_corpus.call_rule(mods, op[1], op[2], op[3], op[4])))
        if kind == "rejected":
            core = mods["core"]
            real, source = core.is_valid_python, op[2]
            core.is_valid_python = lambda s: s == source and real(s)
            try:
                return ("ok", canon(c05_corpus.call_rule(mods, op[1], op[2], op[3], op[4])))
            finally:
                core.is_valid_python = real
        if kind == "format":
            return ("ok", canon(mods["main"].format_code(op[1], **CFGS[op[2]])))
        if kind == "parse":       # the request every rule starts with; result = the tree it is handed
            return ("ok", tree_dump(mods["core"].parse(op[1])))
        if kind == "sub":
            return ("ok", canon(mods["pattern_matching"].sub(op[1], op[2], op[3])))
        if kind == "findall":
            return ("ok", canon(list(mods["pattern_matching"].findall(op[1], op[3]))))
        raise ValueError(kind)
    except Exception as e:  # noqa
        return ("exc", type(e).__name__)


def job_history(job) -> dict:
    """Runs in a fresh fork of the pristine zygote."""
    mods = MODS
    audit = StateAudit() if job.get("audit", True) else None     # before the recorders replace the cache objects
    if job.get("mode") == "bare":
        # no recorders at all: the real caches and nothing else holds the objects they hand out, so that an evicted
        # tree really is freed and its addresses are reused (the recorders of the other modes keep every tree alive)
        results = [run_op(mods, op) for op in job["ops"]]
        stats = {"lru_currsize": mods["core"].parse.cache_info().currsize, "lru_misses": mods["core"].parse.cache_info().misses}
        state = audit.finish() if audit is not None else []
        return {"results": results, "problems": [], "stats": stats, "state": state}
    caches = Caches(mods, job.get("mode", "record"))
    results, problems = [], []
    every = job.get("check", "all")           # all: every entry after every call; window: handed-out only
    for i, op in enumerate(job["ops"]):
        results.append(run_op(mods, op))
        for b in caches.check(everything=(every == "all")):
            problems.append(dict(b, after_call=i))
    for b in caches.check(everything=True):
        problems.append(dict(b, after_call=len(job["ops"]) - 1))
    stats = {"parse_calls": caches.parse.calls, "parse_entries": len(caches.parse.entries),
             "template_entries": len(caches.template.entries), "trace_entries": len(caches.trace.entries),
             "objects_checked": caches.checked}
    if job.get("mode") == "through":
        stats["lru_currsize"] = caches.parse.orig.cache_info().currsize
    state = []
    if audit is not None:
        caches.uninstall()
        for r in (caches.parse, caches.template, caches.trace):     # the recorders' own references to handed-out objects
            r.entries.clear()
            r.window.clear()
        caches.fresh_memo.clear()        # its keys are the argument tuples (compile_template takes nodes as wildcards)
        state = audit.finish()
        stats["state_objects"] = len(audit.objs)
    return {"results": results, "problems": problems, "stats": stats, "state": state}


# ---- synthetic rules against the real lru_cache objects (cache mechanics correspondence)


def synth_source(tag: bool, ident: int, bad: int) -> str:
    if ident >= bad:
        return f"({'t' if tag else 's'}{ident}"            # SyntaxError
    return "".join(f"{'t' if tag else 's'}{ident}_{j} = {j}\n" for j in range(ident % 3 + 1))


def job_mechanics(job) -> list:
    """cases: (cap0, cap1, bad, calls) with calls = list of list of ("G"|"M", tag, id).
    Returns for each case (seen per call, miss flags)."""
    mods = MODS
    core = mods["core"]
    out = []
    real_cap = core.parse.cache_parameters()["maxsize"]
    for (cap0, cap1, bad, calls) in job["cases"]:
        if cap0 == real_cap:
            core.parse.cache_clear()
            f0 = core.parse                                    # the real cache object of pyrefact
        else:
            f0 = functools.lru_cache(maxsize=cap0)(core.parse.__wrapped__)
        f1 = functools.lru_cache(maxsize=cap1)(core.parse.__wrapped__)
        held, seen_all, misses = {}, [], []
        for ops in calls:
            seen = []
            for (o, tag, ident) in ops:
                f = f1 if tag else f0
                if o == "G":
                    before = f.cache_info().misses
                    try:
                        t = f(synth_source(tag, ident, bad))
                        held[(tag, ident)] = t
                        seen.append(len(t.body))
                    except SyntaxError:
                        seen.append(None)
                    misses.append(f.cache_info().misses > before)
                else:
                    held[(tag, ident)].body.append(ast.Pass())
            seen_all.append(seen)
        out.append((seen_all, misses))
    core.parse.cache_clear()
    return out



# ---- the registry next to the parse cache (core._REBOUND_NAMES) vs AuxStateModel (weak design)


def reg_source(ident: int, binder: bool) -> str:
    return (f"def f{ident}(len):\n    return len('abc')\n" if binder else f"x{ident} = len('abc')\n")


def job_registry(job) -> list:
    """cases: (cap, binder ids, history of source ids).  Observation per call: does the evaluator take the builtin
    call of the parsed tree for a call of the builtin (core.is_made_of_literals on the Call node)."""
    core = MODS["core"]
    real_cap = core.parse.cache_parameters()["maxsize"]
    out = []
    for (cap, binders, h) in job["cases"]:
        if cap == real_cap:
            core.parse.cache_clear()
            f = core.parse
        else:
            f = functools.lru_cache(maxsize=cap)(core.parse.__wrapped__)
        seen = []
        for ident in h:
            tree = f(reg_source(ident, ident in binders))
            call = next(n for n in ast.walk(tree) if isinstance(n, ast.Call))
            seen.append(bool(core.is_made_of_literals(call)))
        del tree, call
        if f is not core.parse:
            f.cache_clear()
        out.append(seen)
    core.parse.cache_clear()
    return out


def registry_cases(real_cap):
    cases = []
    for cap in (1, 2):
        for binders in ((0,), (0, 1), ()):
            for n in range(1, 5):
                for h in itertools.product(range(4), repeat=n):
                    cases.append((cap, binders, list(h)))
    for binders in ((0,), (0, 50, 99), tuple(range(0, 120, 2))):
        n = real_cap + 20
        cases.append((real_cap, binders, list(range(n)) + list(range(n))))
        cases.append((real_cap, binders, list(range(n)) + [0, 1, 0] + list(range(n, n + 30))))
    return cases


def write_reg_file(path: Path, items):
    body = ";\n ".join(f"(mkRCase {c[0]} {glist(list(c[1]), str)} {glist(c[2], str)} {glist(r, gbool)})" for c, r in items)
    path.write_text("From Coq Require Import List Arith Bool.\nImport ListNotations.\n"
                    "Require Import Pyrefact.Base Pyrefact.CacheModel Pyrefact.AuxStateModel.\n"
                    f"Definition cases : list reg_case := [\n {body}\n].\n"
                    "Eval vm_compute in (bad_idx reg_case_ok cases).\n")


def job_harvest(job):
    """The harvest runs the repo's example scripts; in a fork with a time limit, so that a rule that hangs on its own
    example cannot hang the check."""
    return c05_corpus.harvest(MODS)


def harvest_isolated(farm, timeout=150):
    st, *rest = farm._one({"kind": "harvest", "timeout": timeout})
    if st != "ok":
        raise RuntimeError(f"harvest of the repository's examples failed (a rule hangs or crashes the interpreter on "
                           f"its own example?): {rest[0]}")
    return rest[0]


JOBS = {"history": job_history, "mechanics": job_mechanics, "harvest": job_harvest, "registry": job_registry}      # other harness modules may register job kinds


def run_job(job):
    return JOBS[job["kind"]](job)


# ------------------------------------------------------------------------------------------------
# zygote: a pristine copy of the interpreter (pyrefact imported, nothing run) that forks one child per job


class Zygote:
    def __init__(self):
        import multiprocessing as mp
        self.conn, child = mp.Pipe()
        pid = os.fork()
        if pid == 0:
            try:
                self.conn.close()
                self._serve(child)
            finally:
                os._exit(0)
        child.close()
        self.pid = pid

    @staticmethod
    def _serve(conn):
        devnull = os.open(os.devnull, os.O_WRONLY)
        os.dup2(devnull, 1)
        os.dup2(devnull, 2)
        while True:
            try:
                job = conn.recv()
            except EOFError:
                return
            if job is None:
                return
            r, w = os.pipe()
            pid = os.fork()
            if pid == 0:
                os.close(r)
                signal.alarm(job.get("timeout", JOB_TIMEOUT))
                try:
                    res = ("ok", run_job(job))
                except BaseException as e:  # noqa
                    res = ("err", f"{type(e).__name__}: {e}", traceback.format_exc()[-1500:])
                try:
                    with os.fdopen(w, "wb") as fh:
                        fh.write(pickle.dumps(res))
                finally:
                    os._exit(0)
            os.close(w)
            with os.fdopen(r, "rb") as fh:
                data = fh.read()
            os.waitpid(pid, 0)
            conn.send_bytes(data if data else pickle.dumps(("err", "job process died (timeout or crash)", "")))

    def call(self, job):
        self.conn.send(job)
        return pickle.loads(self.conn.recv_bytes())

    def close(self):
        try:
            self.conn.send(None)
            self.conn.close()
            os.waitpid(self.pid, 0)
        except Exception:  # noqa
            pass


class Farm:
    def __init__(self, n=N_ZYGOTES):
        import queue
        self.zs = [Zygote() for _ in range(n)]
        self.q = queue.Queue()
        for z in self.zs:
            self.q.put(z)
        self.ex = ThreadPoolExecutor(max_workers=n)
        self.state_changes = {}     # (object, kind, digest class) -> {"change", "ops", "mode", "count"}: from every history job
        self.audited_jobs = 0

    def _one(self, job):
        z = self.q.get()
        try:
            res = z.call(job)
        finally:
            self.q.put(z)
        if job.get("kind") == "history" and res[0] == "ok" and isinstance(res[1], dict):
            self.audited_jobs += 1
            for ch in res[1].get("state", ()):
                key = (ch["object"], ch["object_kind"], bool(ch["after_history"].get("id_keyed")),
                       ch["after_cache_clear"] == ch["fresh"])
                slot = self.state_changes.get(key)
                if slot is None:
                    self.state_changes[key] = {"change": ch, "ops": job["ops"], "mode": job.get("mode", "record"), "count": 1}
                else:
                    slot["count"] += 1
                    if len(job["ops"]) < len(slot["ops"]):
                        slot.update(change=ch, ops=job["ops"], mode=job.get("mode", "record"))
        return res

    def map(self, jobs):
        return list(self.ex.map(self._one, jobs))

    def close(self):
        self.ex.shutdown(wait=True)
        for z in self.zs:
            z.close()


def run_case_files_retry(files, attempts=3):
    """common.run_case_files, re-running files whose coqc died without output (fork/oom trouble on an
    overloaded machine is not a verdict)."""
    res = common.run_case_files(files)
    for _ in range(attempts - 1):
        again = [p for p in files if res[p][0] != 0 and not res[p][1].strip()]
        if not again:
            break
        time.sleep(2)
        res.update(common.run_case_files(again))
    return res


def fail_closed(run, fn, *args):
    """An internal error of the harness must not look like a quiet run, nor die without a verdict line."""
    try:
        fn(*args)
    except Exception as e:  # noqa
        run.violation({"kind": "harness-error", "error": f"{type(e).__name__}: {e}",
                       "traceback": traceback.format_exc()[-3000:],
                       "explanation": "the check itself failed; no statement about the property"}, False)


# ------------------------------------------------------------------------------------------------
# cache mechanics: case generation + Coq side


def mech_exhaustive(tier):
    keys = [(False, 0), (False, 1), (False, 2), (False, 9), (True, 0)]       # id 9 >= bad: does not parse
    muts = [(False, 0), (False, 1), (True, 0)]
    alphabet = [("G",) + k for k in keys] + [("M",) + k for k in muts]
    maxlen = 4 if tier == "quick" else 5
    cases = []
    for n in range(1, maxlen + 1):
        for seq in itertools.product(alphabet, repeat=n):
            got, ok = set(), True
            for (o, tag, ident) in seq:
                if o == "G" and ident < 5:
                    got.add((tag, ident))
                elif o == "M" and (tag, ident) not in got:
                    ok = False
                    break
            if not ok:
                continue
            for cap0 in (1, 2):
                if cap0 == 1 and n > 3 and tier == "quick":
                    continue
                cases.append((cap0, 1, 5, [list(seq)]))
                if n >= 2:
                    cases.append((cap0, 1, 5, [list(seq[:n // 2]), list(seq[n // 2:])]))
    return cases


def mech_random(rnd, n, real_cap):
    cases = []
    for _ in range(n):
        cap0 = rnd.choice([real_cap, real_cap, 3, 5])
        cap1 = rnd.choice([1, 2, 4])
        nkeys = cap0 + rnd.randint(1, max(3, cap0 // 2))
        bad = nkeys - 1
        calls, got = [], set()
        for _c in range(rnd.randint(1, 6)):
            ops = []
            for _o in range(rnd.randint(1, 60 if cap0 > 10 else 10)):
                if got and rnd.random() < 0.35:
                    k = rnd.choice(sorted(got))
                    ops.append(("M",) + k)
                else:
                    tag = rnd.random() < 0.15
                    # locality: mostly recent ids, sometimes a sweep that evicts
                    ident = rnd.randrange(nkeys) if rnd.random() < 0.6 else rnd.randrange(min(nkeys, 4))
                    ops.append(("G", tag, ident))
                    if ident < bad:
                        got.add((tag, ident))
            calls.append(ops)
        # one sweep over all keys in the middle forces eviction at the real capacity
        calls.insert(len(calls) // 2, [("G", False, i) for i in range(nkeys)])
        cases.append((cap0, cap1, bad, calls))
    return cases


def g_cop(o):
    return f"({'OGet' if o[0] == 'G' else 'OMut'} ({gbool(o[1])}, {o[2]}))"


def g_optnat(x):
    return "None" if x is None else f"(Some {x})"


def g_mech_case(case, res) -> str:
    cap0, cap1, bad, calls = case
    seen, misses = res
    return (f"(mkCCase {cap0} {cap1} {bad} {glist([glist(c, g_cop) for c in calls])} "
            f"{glist([glist(s, g_optnat) for s in seen])} {glist(misses, gbool)})")


def write_mech_file(path: Path, items):
    body = ";\n ".join(g_mech_case(c, r) for c, r in items)
    path.write_text("From Coq Require Import List Arith Bool.\nImport ListNotations.\n"
                    "Require Import Pyrefact.Base Pyrefact.CacheModel.\n"
                    f"Definition cases : list cache_case := [\n {body}\n].\n"
                    "Eval vm_compute in (bad_idx cache_case_ok cases).\n")


def model_mech_output(wd: Path, case) -> str:
    cap0, cap1, bad, calls = case
    p = wd / "replay_mech.v"
    p.write_text("From Coq Require Import List Arith Bool.\nImport ListNotations.\n"
                 "Require Import Pyrefact.Base Pyrefact.CacheModel.\n"
                 f"Definition calls : list (list cop) := {glist([glist(c, g_cop) for c in calls])}.\n"
                 f"Eval vm_compute in (cexec {cap0} {cap1} {bad} calls).\n"
                 f"Eval vm_compute in (cmisses {cap0} {cap1} {bad} (concat calls) []).\n")
    rc, out = common.coqc(p)
    return out[-3000:]


# ------------------------------------------------------------------------------------------------
# histories


def rec_op(r, kind="rule"):
    return (kind, r[0], r[1], tuple(r[2]), dict(r[3]))


def gen_history(rnd, pool, fpool, focus):
    n = rnd.randint(1, 6)
    ops = []
    for _ in range(n):
        x = rnd.random()
        if x < 0.30:
            ops.append(rec_op(rnd.choice(pool)))
        elif x < 0.45:
            ops.append(rec_op(focus))
        elif x < 0.60:
            a, b = rnd.choice(pool), rnd.choice([focus, rnd.choice(pool)])
            ops.append(("rule", a[0], b[1], tuple(a[2]), dict(a[3])))       # a rule on another rule's input
        elif x < 0.70 and ops:
            ops.append(rnd.choice(ops))                                     # the same call again
        elif x < 0.80:
            ops.append(("format", rnd.choice(fpool + [focus[1]]), rnd.choice(sorted(CFGS))))
        elif x < 0.90:
            ops.append(rec_op(rnd.choice([focus, rnd.choice(pool)]), "rejected"))
        else:
            k, pat, repl = rnd.choice(PATTERNS)
            ops.append((k, pat, repl, rnd.choice([focus[1], rnd.choice(pool)[1]])))
    # the call under test: mostly something the history already touched
    ops.append(rnd.choice(ops) if rnd.random() < 0.6 else rec_op(focus))
    return ops


def eviction_history(pool, offset, n_sources=130):
    """> maxsize distinct sources through the REAL lru_cache, then the first ones again."""
    seen, ops = set(), []
    for r in pool[offset:] + pool[:offset]:
        if r[1] not in seen:
            seen.add(r[1])
            ops.append(rec_op(r))
        if len(ops) >= n_sources:
            break
    return ops + ops[:25] + ops[:5]


def twin_histories():
    """Inputs that share their operand TEXTS but arrange them differently, formatted one after the other: any state
    that is keyed by fragments of earlier inputs (symbol tables, name counters, memo dicts) shows as a result that
    differs from the fresh-process result (seed C05-c: a mutable default shared by every call of the sympy bridge).
    Deterministic; operands are not plain names, the expression is one the boolean rules do simplify."""
    triples = [("x.a", "x.b", "x.c"), ("p[0]", "q[1]", "p[2]"), ("f(y)", "g(y)", "h(y)"), ("u > 3", "v.w", "t[0] == 1")]
    templates = ["if ({A} and {B}) or ({A} and {B} and {C}):\n    print(1)\n",
                 "def k(x, p, q, y, u, v, t):\n    return bool(({A} or {B}) and ({A} or {B} or {C}))\n"]
    rules = ["symbolic_math.simplify_boolean_expressions_symmath", "symbolic_math.simplify_boolean_expressions"]
    fillers = [("format", f"if (r.a{i} and r.b{i}) or (r.a{i} and r.b{i} and r.c{i}):\n    print({i})\n", "default")
               for i in range(12)]
    out = []
    for (a, b, c) in triples:
        for t in templates:
            one = t.replace("{A}", a).replace("{B}", b).replace("{C}", c)
            two = t.replace("{A}", b).replace("{B}", a).replace("{C}", c)
            for mk in ([lambda s: ("format", s, "default")] + [lambda s, q=q: ("rule", q, s, (), {}) for q in rules]):
                out.append([mk(one), mk(two)])
                out.append([mk(two), mk(one), mk(two)])
            out.append(fillers + [("format", one, "default")])        # > 10 earlier operand texts (var_10 sorts before var_2)
    return out


def sentinel_eviction_histories(pool, real_cap=100):
    """The same text formatted twice in one interpreter with more than `maxsize` other parses in between (real
    lru_cache on core.parse, so the first tree is evicted while other caches still hold objects derived from it), vs a
    fresh interpreter.  Sentinels: every harvested example that contains a star import or goes through import tracing,
    plus whole-pipeline calls on star-import modules."""
    sentinels = []
    for r in pool:
        if ("import *" in r[1] or r[0].startswith("tracing.")) and _op_ok(r):
            sentinels.append(rec_op(r))
    sentinels = sentinels[:40]
    star = ["from os.path import *\n\nprint(join(\"a\", \"b\"), dirname(\"c\"))\n",
            "from math import *\nfrom os import *\n\nprint(sqrt(2), getcwd(), pi)\n"]
    sentinels += [("format", s, "default") for s in star]
    sentinels += [("rule", "tracing.fix_starred_imports", s, (), {}) for s in star]
    seen, fillers = {op[2] if op[0] != "format" else op[1] for op in sentinels}, []
    for r in pool:
        if r[1] not in seen and _op_ok(r) and "import *" not in r[1]:
            seen.add(r[1])
            fillers.append(rec_op(r))
        if len(fillers) >= real_cap + 25:
            break
    return [sentinels + fillers + sentinels]



# ---- histories that end with FRESH probe inputs (round 5, seed C05-d)

PURE_BUILTINS_FALLBACK = ("abs all any ascii bin bool bytes chr complex dict divmod enumerate float format frozenset hex int len "
                          "list max min oct ord pow range repr reversed round set slice sorted str sum tuple zip").split()
# one foldable call of the builtin on literals, as a comparison that is True
FOLDABLE = {
    "abs": "abs(-3) == 3", "all": "all([1, 1]) == True", "any": "any([0, 1]) == True", "ascii": "ascii('a') == \"'a'\"",
    "bin": "bin(5) == '0b101'", "bool": "bool(1) == True", "bytes": "bytes(2) == b'\\x00\\x00'", "chr": "chr(97) == 'a'",
    "complex": "complex(1, 2) == 1 + 2j", "dict": "dict(a=1) == {'a': 1}", "divmod": "divmod(7, 2) == (3, 1)",
    "enumerate": "enumerate('ab') != 0", "float": "float(2) == 2.0", "format": "format(5, 'd') == '5'",
    "frozenset": "frozenset('a') == {'a'}", "hex": "hex(255) == '0xff'", "int": "int('7') == 7", "len": "len('abc') == 3",
    "list": "list('ab') == ['a', 'b']", "max": "max(1, 2) == 2", "min": "min(1, 2) == 1", "oct": "oct(8) == '0o10'",
    "ord": "ord('a') == 97", "pow": "pow(2, 3) == 8", "range": "range(3) == range(0, 3)", "repr": "repr(1) == '1'",
    "reversed": "reversed('ab') != 0", "round": "round(2.6) == 3", "set": "set('a') == {'a'}", "slice": "slice(1) == slice(None, 1)",
    "sorted": "sorted([2, 1]) == [1, 2]", "str": "str(1) == '1'", "sum": "sum([1, 2]) == 3", "tuple": "tuple('ab') == ('a', 'b')",
    "zip": "zip('a', 'b') != 0",
}
N_PROBES = 60
N_READS = 120


def evaluator_builtins(mods) -> list[str]:
    names = getattr(mods["constants"], "PURE_BUILTIN_FUNCTIONS", None)
    return sorted(names) if names else list(PURE_BUILTINS_FALLBACK)


def binder_sources(builtins_, n_reads=N_READS) -> list[str]:
    """Sources that bind a name spelled like a builtin (parameter / assignment / loop target / def / import as; one star
    import) and read it many times: what a real module with a parameter called max does, Name-node dense."""
    out = []
    for b in builtins_:
        reads = ", ".join([b] * n_reads)
        out.append(f"def use_{b}(values, {b}):\n    return [{reads}]\n")
        out.append(f"{b} = 1\nprint({reads})\n")
        out.append(f"for {b} in range(3):\n    print({reads})\n")
    out.append(f"def {builtins_[0]}(x):\n    return x\n\n\nprint({', '.join([builtins_[0]] * n_reads)})\n")
    out.append(f"from m import x as {builtins_[-1]}\n\nprint({', '.join([builtins_[-1]] * n_reads)})\n")
    out.append("from os.path import *\n\nprint(" + ", ".join(builtins_ * 3) + ")\n")
    return out


def filler_sources(k, tag) -> list[str]:
    return [f"filler_{tag}_{i} = [{', '.join(f'v{i}_{j}' for j in range(12))}]\n" for i in range(k)]


def probe_sources(builtins_, tag, n=N_PROBES) -> list[str]:
    """n small inputs, each with ONE foldable call of a builtin on literals; texts never seen before in the history."""
    out = []
    for i in range(n):
        b = builtins_[i % len(builtins_)]
        e = FOLDABLE.get(b, f"{b}(1) == {b}(1)")
        if i < len(builtins_):
            out.append(f"import sys\n\nif sys.argv[{i}:] and {e}:\n    print('{tag}', {i})\nelse:\n    print(-{i})\n")
        else:
            out.append(f"if {e}:\n    print('{tag}', {i})\nelse:\n    print(-{i})\n")
    return out


def probe_histories(mods, quick=True):
    """[binder sources for every builtin the evaluator knows] + [K > maxsize filler parses] + [60 fresh probes].
    Returns [(label, ops, index of the first probe op)].  Deterministic (no seed)."""
    bs = evaluator_builtins(mods)
    binders = binder_sources(bs)
    out = []
    # corpus witness first: one binder form of `len`, 101 fillers, 60 probes with len('abc') == 3
    wit = json.loads((common.VERIF / "corpus" / "c05" / "witness_C05-d.json").read_text())
    w_ops = [("parse", s.replace("{READS}", ", ".join([wit["name"]] * wit["reads"]))) for s in wit["binders"]]
    w_ops += [("parse", s) for s in filler_sources(wit["fillers"], "w")]
    n0 = len(w_ops)
    w_ops += [("format", wit["probe"].replace("{I}", str(i)), "default") for i in range(wit["probes"])]
    out.append(("witness", w_ops, n0))
    for k in (101, 150, 300):
        ops = [("parse", s) for s in binders] + [("parse", s) for s in filler_sources(k, k)]
        n0 = len(ops)
        ops += [("format", s, "default") for s in probe_sources(bs, f"k{k}")]
        out.append((f"parse-K{k}", ops, n0))
    # the same through rule calls only (the public entry points), probes through the two rules that fold
    q1, q2 = "fixes.remove_dead_ifs", "symbolic_math.simplify_boolean_expressions"
    ops = [("rule", q1, s, (), {}) for s in binders] + [("rule", q1, s, (), {}) for s in filler_sources(150, "r")]
    n0 = len(ops)
    for s in probe_sources(bs, "rule"):
        ops += [("rule", q2, s, (), {}), ("rule", q1, s, (), {})]
    out.append(("rules-K150", ops, n0))
    return out


def _op_ok(r) -> bool:
    try:
        op_key(rec_op(r))
        return True
    except TypeError:
        return False


def run_histories_vs_fresh(farm, histories, mode="record", check="window", baseline=None, timeout=400):
    """Every call of every history must return what the same call returns in a fresh fork, and leave the caches
    faithful.  Returns (failures as (kind, ops, detail), number of calls)."""
    baseline = {} if baseline is None else baseline
    need = {}
    for h in histories:
        for op in h:
            k = op_key(op)
            if k not in baseline and k not in need:
                need[k] = op
    failures = []
    bres = farm.map([{"kind": "history", "ops": [op]} for op in need.values()])
    for (k, op), (st, *rest) in zip(need.items(), bres):
        baseline[k] = rest[0]["results"][0] if st == "ok" else ("job-error", rest[0])
    hres = farm.map([{"kind": "history", "ops": h, "mode": mode, "check": check, "timeout": timeout} for h in histories])
    n_calls = 0
    for h, (st, *rest) in zip(histories, hres):
        if st != "ok":
            failures.append(("job-error", h[:3], {"error": rest[0]}))
            continue
        res = rest[0]
        n_calls += len(h)
        if res["problems"]:
            failures.append(("cache-unfaithful", h, {"problems": res["problems"][:4], "mode": mode}))
            continue
        for i, (op, got) in enumerate(zip(h, res["results"])):
            want = baseline[op_key(op)]
            if got != want:
                failures.append(("result-depends-on-history", h,
                                 {"call": i, "after_history": got, "fresh_process": want, "mode": mode}))
                break
    return failures, n_calls


def failure_site(kind, ops, detail) -> str:
    """kind + the call that broke the property (the call after which a cache entry first differs / whose
    result differs) + the cache function concerned."""
    if detail.get("problems"):
        i = min(p["after_call"] for p in detail["problems"])
        fn = sorted({p["function"] for p in detail["problems"] if p["after_call"] == i})
    else:
        i, fn = detail.get("call", len(ops) - 1), []
    op = ops[min(i, len(ops) - 1)]
    name = op[1] if op[0] in ("rule", "rejected") else op[0]
    return f"{kind}:{name}:{','.join(fn)}"


def shrink_history(farm, ops, mode, still_fails):
    """Drop calls while the failure persists (each candidate runs in a fresh fork)."""
    cur = list(ops)
    changed = True
    while changed and len(cur) > 1:
        changed = False
        for i in range(len(cur) - 1, -1, -1):
            cand = cur[:i] + cur[i + 1:]
            if not cand:
                continue
            st, res = farm._one({"kind": "history", "ops": cand, "mode": mode})
            if st == "ok" and still_fails(cand, res):
                cur, changed = cand, True
                break
    return cur


# ------------------------------------------------------------------------------------------------


def check(run: common.Run):
    global MODS, STATE_OBJS
    t_start = time.time()
    wd = common.workdir(PID)
    MODS = common.import_impl()
    mods = MODS
    core = mods["core"]
    import_all_pyrefact()         # every module of the package, so that the state audit sees all of them
    STATE_OBJS = state_objects()
    farm = Farm()                 # forked NOW: pyrefact imported, nothing run yet
    try:
        fail_closed(run, _check, run, wd, mods, core, farm, t_start)
    finally:
        farm.close()


def _check(run, wd, mods, core, farm, t_start):
    ps = common.proof_step(run, PID, wd)
    rnd = random.Random(run.seed)
    quick = run.tier == "quick"
    hist = Counter()
    timing = {}

    # ---- capacities of the real caches (the model's constants; fail closed)
    caps = {"parse": core.parse.cache_parameters()["maxsize"] if hasattr(core.parse, "cache_parameters") else None,
            "compile_template": core.compile_template.cache_parameters()["maxsize"]
            if hasattr(core.compile_template, "cache_parameters") else None}
    caps_ok = caps == {"parse": 100, "compile_template": 10000}
    real_cap = caps["parse"] or 100

    # ---- 1. cache mechanics vs the model
    t0 = time.time()
    mcases = mech_exhaustive(run.tier)
    n_mexh = len(mcases)
    mcases += mech_random(rnd, 24 if quick else 200, real_cap)
    CH = 400
    chunks = [mcases[i:i + CH] for i in range(0, len(mcases), CH)]
    mres = farm.map([{"kind": "mechanics", "cases": ch} for ch in chunks])
    mech_items, mech_err = [], []
    for ch, (st, *rest) in zip(chunks, mres):
        if st != "ok":
            mech_err.append(rest[0])
            continue
        mech_items += list(zip(ch, rest[0]))
    files, shards = [], []
    for k in range(0, len(mech_items), CH):
        p = wd / f"mech_{k // CH}.v"
        write_mech_file(p, mech_items[k:k + CH])
        files.append(p)
        shards.append(mech_items[k:k + CH])
    cres = run_case_files_retry(files)
    mech_dis = []
    for p, shard in zip(files, shards):
        rc, out = cres[p]
        idx = common.parse_nat_list(out) if rc == 0 else None
        if idx is None:
            mech_err.append(f"{p.name}: {out[-800:]}")
            continue
        mech_dis += [shard[i] for i in idx]
    mech_nontrivial = {json.dumps(c) for c, (seen, misses) in mech_items
                       if any(not m for m in misses) and any(o[0] == "M" for call in c[3] for o in call)}
    timing["mechanics_s"] = round(time.time() - t0, 1)

    # ---- 1b. the registry keyed by node identity (core._REBOUND_NAMES) vs AuxStateModel, WeakSet design
    t0 = time.time()
    rcases = registry_cases(real_cap)
    rchunks = [rcases[i:i + CH] for i in range(0, len(rcases), CH)]
    rres = farm.map([{"kind": "registry", "cases": ch} for ch in rchunks])
    reg_items, reg_err, reg_dis = [], [], []
    for ch, (st, *rest) in zip(rchunks, rres):
        if st != "ok":
            reg_err.append(rest[0])
            continue
        reg_items += list(zip(ch, rest[0]))
    rfiles, rshards = [], []
    for k in range(0, len(reg_items), CH):
        p = wd / f"reg_{k // CH}.v"
        write_reg_file(p, reg_items[k:k + CH])
        rfiles.append(p)
        rshards.append(reg_items[k:k + CH])
    rcres = run_case_files_retry(rfiles)
    for p, shard in zip(rfiles, rshards):
        rc, out = rcres[p]
        idx = common.parse_nat_list(out) if rc == 0 else None
        if idx is None:
            reg_err.append(f"{p.name}: {out[-800:]}")
            continue
        reg_dis += [shard[i] for i in idx]
    timing["registry_s"] = round(time.time() - t0, 1)

    # ---- 2. the premise of T05.1 on the real rules
    t0 = time.time()
    pool, hstats = harvest_isolated(farm)
    usable = []
    for r in pool:
        try:
            op_key(rec_op(r))
            usable.append(r)
        except TypeError:
            hist["pool:unencodable-args"] += 1
    pool = usable
    timing["harvest_s"] = round(time.time() - t0, 1)

    baseline: dict[str, tuple] = {}
    failures = []      # (kind, ops, detail)

    # 2a. deterministic sweep: every example twice in a fresh process (also the fresh-process baselines)
    t0 = time.time()
    sweep_ops = [rec_op(r) for r in pool]
    sweep_ops += [("rule", q, s, tuple(a), dict(k)) for (_, q, s, a, k) in FIXED_WITNESSES]
    fsrc = sorted({r[1] for r in pool}, key=lambda s: (len(s), s))
    step = max(1, len(fsrc) // (60 if quick else 250))
    fpool = fsrc[::step]
    sweep_ops += [("format", s, c) for s in fpool for c in (("default", "safe") if quick else sorted(CFGS))]
    sres = farm.map([{"kind": "history", "ops": [op, op]} for op in sweep_ops])
    objects_checked = 0
    for op, (st, *rest) in zip(sweep_ops, sres):
        if st != "ok":
            failures.append(("job-error", [op], {"error": rest[0]}))
            continue
        res = rest[0]
        objects_checked += res["stats"]["objects_checked"]
        baseline[op_key(op)] = res["results"][0]
        hist[f"sweep:{op[0]}:{res['results'][0][0]}"] += 1
        if res["problems"]:
            failures.append(("cache-unfaithful", [op, op], {"problems": res["problems"][:4]}))
        elif res["results"][0] != res["results"][1]:
            failures.append(("second-call-differs", [op, op], {"first": res["results"][0], "second": res["results"][1]}))
    timing["sweep_s"] = round(time.time() - t0, 1)

    # 2b. seeded histories
    t0 = time.time()
    n_hist = 1000 if quick else 12000
    histories = []
    for i in range(n_hist):
        focus = pool[(run.seed * 7919 + i * 13) % len(pool)]
        histories.append(gen_history(rnd, pool, fpool, focus))
    need = {}
    for h in histories:
        for op in h:
            k = op_key(op)
            if k not in baseline and k not in need:
                need[k] = op
    bres = farm.map([{"kind": "history", "ops": [op]} for op in need.values()])
    for (k, op), (st, *rest) in zip(need.items(), bres):
        if st == "ok":
            baseline[k] = rest[0]["results"][0]
            if rest[0]["problems"]:
                failures.append(("cache-unfaithful", [op], {"problems": rest[0]["problems"][:4]}))
        else:
            baseline[k] = ("job-error", rest[0])
    # after each call the objects handed out during that call are compared, after the last call all of them
    hres = farm.map([{"kind": "history", "ops": h, "check": "window"} for h in histories])
    n_calls = 0
    distinct_hist = set()
    for h, (st, *rest) in zip(histories, hres):
        if st != "ok":
            failures.append(("job-error", h, {"error": rest[0]}))
            continue
        res = rest[0]
        objects_checked += res["stats"]["objects_checked"]
        n_calls += len(h)
        hist[f"history:len={len(h)}"] += 1
        if len({op_key(o) for o in h}) < len(h) or len({o[2] if o[0] in ("rule", "rejected") else o[-1] for o in h}) < len(h):
            distinct_hist.add(json.dumps([op_key(o) for o in h]))
        if res["problems"]:
            failures.append(("cache-unfaithful", h, {"problems": res["problems"][:4]}))
            continue
        for i, (op, got) in enumerate(zip(h, res["results"])):
            want = baseline[op_key(op)]
            if got != want:
                failures.append(("result-depends-on-history", h,
                                 {"call": i, "after_history": got, "fresh_process": want}))
                break
    timing["histories_s"] = round(time.time() - t0, 1)

    # 2c. real lru_cache with > maxsize distinct sources (real eviction), handed-out objects checked at once
    t0 = time.time()
    evs = [eviction_history(pool, (run.seed * 131 + j * 311) % len(pool), real_cap + 30)
           for j in range(2 if quick else 8)]
    eres = farm.map([{"kind": "history", "ops": h, "mode": "through", "check": "window", "timeout": 300} for h in evs])
    ev_stats = []
    for h, (st, *rest) in zip(evs, eres):
        if st != "ok":
            failures.append(("job-error", h[:3], {"error": rest[0], "stage": "eviction"}))
            continue
        res = rest[0]
        ev_stats.append(res["stats"])
        n_calls += len(h)
        if res["problems"]:
            failures.append(("cache-unfaithful", h, {"problems": res["problems"][:4], "mode": "through"}))
            continue
        for i, (op, got) in enumerate(zip(h, res["results"])):
            want = baseline.get(op_key(op))
            if want is not None and got != want:
                failures.append(("result-depends-on-history", h,
                                 {"call": i, "after_history": got, "fresh_process": want, "mode": "through"}))
                break
    timing["eviction_s"] = round(time.time() - t0, 1)

    # 2d. twins (same operand texts, other arrangement) and sentinel / >maxsize other parses / sentinel again
    t0 = time.time()
    tw = twin_histories()
    f1, n1 = run_histories_vs_fresh(farm, tw, "record", "window", baseline)
    sv = sentinel_eviction_histories(pool, real_cap)
    f2, n2 = run_histories_vs_fresh(farm, sv, "through", "window", baseline)
    failures += f1 + f2
    n_calls += n1 + n2
    hist["twin-histories"], hist["sentinel-eviction-histories"] = len(tw), len(sv)
    timing["twins_sentinels_s"] = round(time.time() - t0, 1)

    # 2e. histories that end with FRESH probes: binders of every builtin the evaluator knows, > maxsize other parses,
    #     then 60 never-seen inputs with one foldable builtin call each; every call vs the same call in a fresh fork
    t0 = time.time()
    phs = probe_histories(mods, quick)
    f3, n3 = run_histories_vs_fresh(farm, [ops for _, ops, _ in phs], "bare", "window", baseline, timeout=600)
    for kind, ops, detail in f3:
        if kind == "result-depends-on-history":
            lab, _, n0 = next((x for x in phs if x[1] is ops), ("?", ops, 0))
            detail.update(family=f"probe:{lab}", first_probe=n0)
    failures += f3
    n_calls += n3
    hist["probe-histories"] = len(phs)
    hist["probe-calls"] = sum(len(ops) - n0 for _, ops, n0 in phs)
    probes_folded = sum(1 for _, ops, n0 in phs for op in ops[n0:]
                        if baseline.get(op_key(op), ("", ""))[1] != (op[1] if op[0] == "format" else op[2]))
    timing["probes_s"] = round(time.time() - t0, 1)

    # ---- state audit: every module-level mutable object, digest fresh vs after every history job above
    allow = load_state_allow()
    inventory = [(n, k) for n, k, _ in (STATE_OBJS or state_objects())]
    state_bad = []
    for key, slot in sorted(farm.state_changes.items()):
        reason = judge_state_change(slot["change"], allow)
        hist[f"state:{'BAD' if reason else 'allowed'}:{slot['change']['object']}"] += slot["count"]
        if reason:
            state_bad.append((slot, reason))
    static_bad = [(n, k, allow[n]) for n, k in inventory if n in allow and allow[n]["kind"] != k
                  and not any(sl["change"]["object"] == n for sl, _ in state_bad)]

    # ---- verdicts
    site_hist = Counter(failure_site(k, o, d) for k, o, d in failures)
    seen_sites = set()
    n_reported = 0
    for kind, ops, detail in failures:
        if n_reported >= 6:
            break
        site = failure_site(kind, ops, detail)
        if site in seen_sites:
            continue
        seen_sites.add(site)
        n_reported += 1
        if kind == "job-error":
            run.violation({"kind": "history-job-failed", "ops": enc(ops), **detail,
                           "explanation": "a history could not be run (crash/timeout in the job process)"}, False)
            continue
        mode = detail.get("mode", "record")
        if kind == "cache-unfaithful":
            small = shrink_history(farm, ops, mode, lambda c, r: bool(r["problems"])) if len(ops) > 2 else ops
            expl = ("after this call history an object held by a process-wide cache differs from a fresh "
                    "computation of the same key (a rule mutated a shared object)")
        else:
            small = ops
            expl = "the same call returns a different result after this history than in a fresh process"
        if kind == "result-depends-on-history" and detail.get("family", "").startswith("probe:"):
            # keep the history up to and including the differing call; the calls after it are not needed
            small = list(ops[:detail["call"] + 1])
        run.violation({"kind": kind, "history": enc(small), "full_history_len": len(ops), "mode": mode,
                       **detail, "explanation": expl}, True)
    has_input = any(k in ("result-depends-on-history", "second-call-differs", "cache-unfaithful") for k, _, _ in failures)
    for slot, reason in state_bad[:4]:
        ops = slot["ops"]
        run.violation({"kind": "module-state", **slot["change"], "reason": reason, "jobs_showing_it": slot["count"],
                       "history": enc(list(ops[:400])), "full_history_len": len(ops), "mode": slot["mode"],
                       "explanation": "state audit: a module-level mutable object of pyrefact differs from the fresh process "
                                      "after this call history and no committed invariant makes that harmless (T05.1 assumes "
                                      "the lru caches are the only state a call can read)"}, has_input)
    for n, k, e in static_bad[:4]:
        run.violation({"kind": "module-state", "object": n, "live_kind": k, "allow_listed_kind": e["kind"],
                       "reason": f"allow-listed as {e['kind']} (invariant: {e['invariant']}) but is a {k} in $VERIF_REPO",
                       "explanation": "state audit (static): the invariant recorded for this module-level object no "
                                      "longer describes it"}, has_input)
    if not failures:
        for c, r in mech_dis[:4]:
            run.violation({"kind": "correspondence", "kernel": "K8 CacheModel.exec/get/update vs lru_cache",
                           "case": {"cap0": c[0], "cap1": c[1], "bad": c[2], "calls": c[3]},
                           "impl_seen": r[0], "impl_misses": r[1], "model": model_mech_output(wd, c),
                           "explanation": "the real cache objects behave differently from the model on this "
                                          "synthetic rule history; the history sweep found no failing input"}, False)
        for c, r in reg_dis[:3]:
            run.violation({"kind": "correspondence", "kernel": "K8b AuxStateModel.aobserve (WeakSet design) vs core.parse + "
                                                               "core._REBOUND_NAMES + core.is_made_of_literals",
                           "case": {"cap": c[0], "binder_ids": list(c[1]), "history": c[2]}, "impl_seen": r,
                           "sources": {"binder": reg_source(0, True), "other": reg_source(1, False)},
                           "explanation": "along this history of parses the evaluator's verdict on the builtin call (folded "
                                          "or not) differs from the model, where it is `not binds(source)` whatever was "
                                          "parsed before (T05.4)"}, False)
        for e in reg_err[:2]:
            run.violation({"kind": "correspondence", "kernel": "K8b", "error": e,
                           "explanation": "the registry correspondence could not be evaluated"}, False)
        for e in mech_err[:2]:
            run.violation({"kind": "correspondence", "kernel": "K8", "error": e,
                           "explanation": "the cache mechanics correspondence could not be evaluated"}, False)
        if not caps_ok:
            run.violation({"kind": "tables", "caps": caps,
                           "explanation": "capacity of core.parse / core.compile_template differs from the model's "
                                          "PARSE_MAXSIZE / TEMPLATE_MAXSIZE (or they are no longer lru_caches)"}, False)
    if ps.get("props") and not ps["props"]["ok"]:
        pr = ps["props"]
        run.violation({"kind": "proof", "file": pr["file"], "broken": pr.get("broken"), "log": pr["log"],
                       "explanation": "a property theorem no longer checks"}, bool(failures))
    for f in common.load_findings(PID):
        if f.kind == "finding":
            common.log(f"note: C05 has no suppression predicates; finding {f.id} is informational only")

    timing["total_s"] = round(time.time() - t_start, 1)
    n_rules = len({r[0] for r in pool})
    run.coverage.update(
        evaluations=len(mech_items) + len(reg_items) + 2 * len(sweep_ops) + n_calls,
        distinct_nontrivial=len(mech_nontrivial) + len(distinct_hist),
        rule=("mechanics: synthetic rule histories (Get/Mut on tagged keys, unparsable keys) against the real "
              "core.parse object (capacity 100) and functools.lru_cache at capacities 1,2,3,5 -- exhaustive over all "
              f"op sequences up to length {4 if quick else 5} on 5 keys (1 or 2 calls), plus seeded sequences with "
              "eviction sweeps; non-trivial = at least one cache hit and one mutation. histories: every harvested "
              "example twice in a fresh process (deterministic), then seeded histories of 2-7 calls over "
              "{rule on own example, rule on another rule's example, same call again, format_code under 5 option "
              "sets, rule with every rewrite rejected, pattern sub/findall}; non-trivial = a history that repeats a "
              "call or an input; distinct by the list of calls."),
        samples=[{"mechanics": mech_items[n_mexh // 2][0] if mech_items else None},
                 {"history": enc(histories[0])[:3]},
                 {"sweep": enc(sweep_ops[len(sweep_ops) // 3])}],
        exhaustive=False, mechanics_exhaustive=n_mexh, mechanics_cases=len(mech_items),
        corpus_size=len(pool), corpus_rules=n_rules, corpus_harvest=hstats,
        sweep_calls=2 * len(sweep_ops), histories=len(histories), history_calls=n_calls,
        eviction_histories=len(evs), eviction_stats=ev_stats, cached_objects_compared=objects_checked,
        histogram=dict(hist), capacities=caps, timing=timing, failure_sites=dict(site_hist),
        state_audit={"objects": len(inventory), "kinds": dict(Counter(k for _, k in inventory)),
                     "containers": sorted(n for n, k in inventory if k != "value"),
                     "jobs_audited": farm.audited_jobs, "allow_listed": len(allow),
                     "changed_objects": sorted({k[0] for k in farm.state_changes}),
                     "violations": len(state_bad) + len(static_bad)},
        probe_histories={lab: {"calls": len(ops), "probes": len(ops) - n0} for lab, ops, n0 in phs},
        probes_whose_fresh_result_is_a_rewrite=probes_folded,
        registry_cases=len(reg_items),
        correspondence_disagreements=len(mech_dis) + len(mech_err) + len(reg_dis) + len(reg_err), property_oracle_failures=len(failures),
        unmodelled=["core._group_nodes_in_scope (keyed by node identity; stale exactly when the parse tree was "
                    "mutated)", "core.is_valid_python / _get_line_start_charnos / _make_match_type (immutable results)",
                    "module-level state of pyrefact outside the lru caches: enumerated and digested by the state audit "
                    "(allow-list corpus/c05/module_state.json); state of imported libraries (sympy, ...) is covered only "
                    "by the fresh-process comparison"],
        trusted_base=common.TRUSTED_BASE_COMMON + [
            "a call is modelled as a program over Get/Mut/Ret: its result depends on its argument and on the objects "
            "the caches hand out only (validated by the fresh-process comparison, not proved)",
            "ast.dump(include_attributes=True) / structural dump of templates as the equality of cached objects",
            "the recording caches of harness/c05.py stand in for functools.lru_cache (never evicting); the real "
            "lru_cache is exercised in the mechanics correspondence and the eviction histories",
            "os.fork of a pristine zygote as 'fresh process'"],
    )
    run.assumptions += [
        "T05.1 is conditional on its premise (no call mutates a handed-out object); the premise is checked on the "
        "harvested examples and generated histories, not proved for the ~90 rule functions",
        "results that depend on the file system (tracing of imported modules) are compared within one unchanged tree"]


# ------------------------------------------------------------------------------------------------


def replay(path: str) -> int:
    global MODS
    data = json.loads(Path(path).read_text())
    print(json.dumps({k: data[k] for k in data if k in ("kind", "explanation", "mode", "call")}, indent=1))
    MODS = common.import_impl()
    farm = Farm(2)
    try:
        if data.get("kind") == "module-state" and "history" in data:
            ops = [tuple(dec(x) for x in o) for o in dec(data["history"])]
            st, *rest = farm._one({"kind": "history", "ops": ops, "mode": data.get("mode", "record"), "timeout": 600})
            if st != "ok":
                print("job failed:", rest)
                return 0
            allow = load_state_allow()
            for ch in rest[0]["state"]:
                print(json.dumps(ch), "\n    ->", judge_state_change(ch, allow) or "allowed")
        elif data.get("kind") in ("cache-unfaithful", "result-depends-on-history", "second-call-differs"):
            ops = [tuple(o) for o in dec(data["history"])]
            ops = [tuple(dec(x) for x in o) for o in ops]
            st, *rest = farm._one({"kind": "history", "ops": ops, "mode": data.get("mode", "record"), "timeout": 600})
            if st != "ok":
                print("job failed:", rest)
                return 0
            res = rest[0]
            shown = list(enumerate(zip(ops, res["results"])))
            if len(shown) > 12:      # long probe histories: the last calls only (binders / fillers are parse requests)
                print(f"({len(shown) - 6} earlier calls not shown)")
                shown = shown[-6:]
            for i, (op, r) in shown:
                st2, *rest2 = farm._one({"kind": "history", "ops": [op]})
                fresh = rest2[0]["results"][0] if st2 == "ok" else rest2
                print(f"call {i}: {op[0]} {op[1] if op[0] in ('rule', 'rejected') else ''}")
                print("   after history:", repr(r)[:300])
                print("   fresh process:", repr(fresh)[:300], "" if r == fresh else "   <-- DIFFERS")
            print("cache problems:", json.dumps(res["problems"], indent=1)[:3000] if res["problems"] else "none")
        elif data.get("kind") == "correspondence" and "case" in data:
            c = data["case"]
            case = (c["cap0"], c["cap1"], c["bad"], [[tuple(o) for o in call] for call in c["calls"]])
            st, *rest = farm._one({"kind": "mechanics", "cases": [case]})
            print("impl :", rest[0][0] if st == "ok" else rest)
            print("model:", model_mech_output(common.workdir(PID + "-replay"), case))
        elif data.get("kind") == "proof":
            print(common.check_props(PID, common.workdir(PID + "-replay")))
    finally:
        farm.close()
    return 0
