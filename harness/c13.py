"""C13 -- Match objects and the re-like API are geometrically coherent (kernel K3)."""
from __future__ import annotations

import ast
import io
import itertools
import json
import os
import random
import re
import subprocess
import sys
import tokenize
from collections import Counter
from pathlib import Path

from . import common
from .common import gz, glist, gbool, gopt

PID = "C13"
HEADER = ("From Coq Require Import List ZArith NArith.\nImport ListNotations.\nOpen Scope Z_scope.\n"
          "Require Import Pyrefact.Base Pyrefact.SpanModel.\n")

# ---------------------------------------------------------------------------------------------
# Gallina printers


def gn(s: str) -> str:
    """text = list N"""
    return "[" + ";".join(f"{ord(c)}%N" for c in s) + "]"


def gpair(p, f=gz) -> str:
    return "(" + ", ".join(f(x) for x in p) + ")"


def gorange(r) -> str:
    return gopt(r, gpair)


def gattrs(a) -> str:
    return "(" + ", ".join(gopt(x, gz) for x in a) + ")"


# ---------------------------------------------------------------------------------------------
# implementation observers


IMPL_EXC: list = []        # (what, exception) for every non-IndexError exception an observed function raised
BAD = -777777              # stands for "raised something else than IndexError" (no model value equals it)


def safe_tb(e: BaseException) -> str:
    """traceback text WITHOUT traceback.format_exception: for a NameError/AttributeError raised inside a
    property getter, Python 3.12 computes a 'did you mean' suggestion with hasattr(obj, name), which calls the
    broken getter again and raises out of the formatter"""
    import traceback
    try:
        return "".join(traceback.format_tb(e.__traceback__))[-3500:] + f"{type(e).__name__}: {e}"
    except Exception:  # noqa
        return f"{type(e).__name__}"


def _ie(f, bad=None, what=""):
    """value; None for IndexError (the only exception the modelled code may raise); `bad` for anything else"""
    try:
        return f()
    except IndexError:
        return None
    except Exception as e:  # noqa -- an implementation function changed shape: recorded and reported
        if len(IMPL_EXC) < 50:
            IMPL_EXC.append((what, f"{type(e).__name__}: {e}"[:200]))
        return bad


def obs_string(core, s: str):
    table = list(core._get_line_start_charnos(s))
    slines = s.splitlines(keepends=True)
    ps = range(-1, len(s) + 2)
    lcs = [_ie(lambda p=p: tuple(core.Match(core.Range(p, p), s, ())._lineno_col_offset()), (BAD, BAD),
               f"Match._lineno_col_offset {s!r} {p}") for p in ps]
    charnos = [[_ie(lambda l=l, c=c: core._get_charno(s, l, c), BAD, f"_get_charno {s!r} {l} {c}") for c in ps]
               for l in range(0, len(table) + 2)]
    return table, slines, lcs, charnos


def str_case_coq(s, o) -> str:
    table, slines, lcs, charnos = o
    return ("(" + gn(s) + ", " + glist(table, gz) + ", " + glist(slines, gn) + ", "
            + glist(lcs, lambda x: gopt(x, gpair)) + ", "
            + glist(charnos, lambda row: glist(row, lambda x: gopt(x, gz))) + ")")


DEF_TYPES = (ast.ClassDef, ast.FunctionDef, ast.AsyncFunctionDef)


def node_inputs(node):
    """(decorator positions, attrs, is_def) -- the part of a node that get_charnos reads"""
    decs = []
    dl = getattr(node, "decorator_list", None)
    if isinstance(dl, list):
        for d in dl:
            decs.append((d.lineno, d.col_offset, d.end_lineno, d.end_col_offset))
    a = tuple(getattr(node, k, None) for k in ("lineno", "col_offset", "end_lineno", "end_col_offset"))
    return decs, a, isinstance(node, DEF_TYPES)


def obs_node(core, s, node, oracle=None):
    decs, a, is_def = node_inputs(node)
    r0 = _ie(lambda: tuple(core.get_charnos(node, s)), (BAD, BAD), f"get_charnos {s!r}")
    r1 = _ie(lambda: tuple(core.get_charnos(node, s, keep_first_indent=True)), (BAD, BAD), f"get_charnos keep {s!r}")
    lc = None
    if r0 is not None:
        m = core.Match(core.Range(*r0), s, (node,))
        lc = _ie(lambda: (m.lineno, m.col_offset), (BAD, BAD), f"Match.lineno/col_offset {s!r} {r0}")
        if lc is not None and _ie(lambda: m.string, None, "Match.string") != s[r0[0]:r0[1]]:
            lc = (BAD, BAD)     # Match.string is modelled as py_slice: a different text shows up as a disagreement
        if m.start != r0[0] or m.end != r0[1] or m.root is not node:
            lc = (BAD, BAD)     # Match.start / end / root are the span ends and the first group
    return decs, a, is_def, r0, r1, lc, oracle


def node_coq(o) -> str:
    decs, a, is_def, r0, r1, lc, orc = o
    sorc = "None" if orc is None else f"(Some ({orc[0]}, {orc[1]}, {gpair(orc[2])}))"
    return (f"({glist(decs, gpair)}, {gattrs(a)}, {gbool(is_def)}, {gorange(r0)}, {gorange(r1)}, "
            f"{gopt(lc, gpair)}, {sorc})")


def src_case_coq(s, obs) -> str:
    return "(" + gn(s) + ",\n  " + glist(obs, node_coq) + ")"


# ---------------------------------------------------------------------------------------------
# the property's own oracle (independent of pyrefact): UTF-8 bytes + tokenizer lines


def tok_line_offsets(s: str):
    """byte offsets of the line starts, lines ending at \\n, \\r\\n, \\r only (what CPython counts)"""
    b = s.encode("utf-8")
    offs, i = [0], 0
    while i < len(b):
        if b[i] == 13:
            i += 2 if b[i + 1:i + 2] == b"\n" else 1
            offs.append(i)
        elif b[i] == 10:
            i += 1
            offs.append(i)
        else:
            i += 1
    return b, offs


def true_offset(b: bytes, offs, lineno: int, col: int) -> int:
    """character offset of (lineno, utf-8 column), by decoding the bytes before it"""
    return len(b[:offs[lineno - 1] + col].decode("utf-8"))


def char_line_starts(s: str):
    b, offs = tok_line_offsets(s)
    return [len(b[:o].decode("utf-8")) for o in offs]


def node_text_span(s: str, b, offs, node):
    """(start, end) character offsets of the complete text of a node: ast positions on bytes; for a
    decorated definition the text starts at the '@' of its first decorator (found with tokenize)."""
    start = true_offset(b, offs, node.lineno, node.col_offset)
    end = true_offset(b, offs, node.end_lineno, node.end_col_offset)
    if isinstance(node, DEF_TYPES) and node.decorator_list:
        first = min(node.decorator_list, key=lambda d: (d.lineno, d.col_offset))
        dstart = true_offset(b, offs, first.lineno, first.col_offset)
        cs = char_line_starts(s)
        start = None
        for tok in _tokens(s):      # the last OP '@' token before the first decorator expression
            if tok.type == tokenize.OP and tok.string == "@":
                p = cs[tok.start[0] - 1] + tok.start[1]
                if p < dstart:
                    start = p
        assert start is not None and s[start] == "@", (s, start)
    return start, end


_TOK_CACHE: dict = {}


def _tokens(s: str):
    if s not in _TOK_CACHE:
        _TOK_CACHE.clear()
        _TOK_CACHE[s] = list(tokenize.generate_tokens(io.StringIO(s, newline="").readline))
    return _TOK_CACHE[s]


def has_position(node) -> bool:
    return all(isinstance(getattr(node, k, None), int) for k in ("lineno", "col_offset", "end_lineno", "end_col_offset"))


# ---------------------------------------------------------------------------------------------
# source generator

SEPS = ["\x0c", "\x0b", "\x1c", "\x1d", "\x1e", "\x85", "\u2028", "\u2029"]
NAMES_ASCII = ["a", "b", "x", "y", "foo", "bar", "f", "g", "val", "self"]
NAMES_UNI = ["é", "ñame", "名前", "ß", "über", "π", "𝐱", "x２"]
STR_ASCII = ["", "s", "a b", " ", "@", "#", "k=1"]
STR_UNI = ["é", "日本", "😀", "naïve ", "→", "\xa0"]
DECORATORS = ["@{e}", "@ {e}", "@  {e}", "@{e}()", "@{e}.attr", "@({e})", "@\\\n{e}", "@ \\\n    {e}", "@\t{e}", "@{e}(1, 'é')"]


class Gen:
    """random, but valid-by-construction, module text exercising the geometry: multi-byte characters
    before nodes on their line, all line-end kinds, splitlines-only separators in literals/comments and
    on lines of their own, decorated/async/parenthesised/indented/multi-line nodes"""

    def __init__(self, rnd: random.Random, uni=None, seps=None, nl=None, trailing=None, maxdepth=3, nstmts=None):
        self.r = rnd
        self.maxdepth = maxdepth
        self.nstmts = nstmts
        self.uni = rnd.random() < 0.6 if uni is None else uni
        self.seps = rnd.random() < 0.5 if seps is None else seps
        self.nl = rnd.choice(["\n", "\n", "\r\n", "\r", "mixed"]) if nl is None else nl
        self.trailing = rnd.random() < 0.7 if trailing is None else trailing
        self.indent_unit = rnd.choice(["    ", "    ", "  ", "\t"])

    # -- atoms
    def name(self):
        if self.uni and self.r.random() < 0.4:
            return self.r.choice(NAMES_UNI)
        return self.r.choice(NAMES_ASCII)

    def strbody(self, multiline=False):
        bits = []
        for _ in range(self.r.randint(0, 3)):
            k = self.r.random()
            if self.seps and k < 0.35:
                bits.append(self.r.choice(SEPS))
            elif self.uni and k < 0.7:
                bits.append(self.r.choice(STR_UNI))
            else:
                bits.append(self.r.choice(STR_ASCII))
            if multiline and self.r.random() < 0.5:
                bits.append("\n")
        return "".join(bits)

    def string(self):
        k = self.r.random()
        if k < 0.12:
            q = self.r.choice(['"""', "'''"])
            return q + self.strbody(multiline=True) + q
        q = self.r.choice(["'", '"'])
        pre = self.r.choice(["", "", "", "r", "f", "u"])
        body = self.strbody()
        if pre == "f":
            body = body.replace("{", "").replace("}", "") + "{" + self.name() + "}" + self.r.choice(["", "!r", ":>4"]).join(["", ""])
        return pre + q + body + q

    def expr(self, d=0):
        r = self.r
        k = r.random()
        if d >= 3 or k < 0.22:
            return self.name()
        if k < 0.32:
            return str(r.choice([0, 1, 2, 10, 3.5]))
        if k < 0.47:
            return self.string()
        if k < 0.60:
            args = [self.expr(d + 1) for _ in range(r.randint(0, 3))]
            if args and r.random() < 0.3:
                args[-1] = f"{r.choice(NAMES_ASCII)}={args[-1]}"
            return f"{self.name()}({', '.join(args)})"
        if k < 0.72:
            return f"{self.expr(d + 1)} {r.choice(['+', '-', '*', '<', '==', 'and', 'or', 'in', '@'])} {self.expr(d + 1)}"
        if k < 0.78:
            return f"({self.expr(d + 1)})"
        if k < 0.83:
            sp = r.choice(["", " "])
            return f"[{sp}{', '.join(self.expr(d + 1) for _ in range(r.randint(0, 3)))}{sp}]"
        if k < 0.86:
            return "{" + ", ".join(f"{self.expr(d + 1)}: {self.expr(d + 1)}" for _ in range(r.randint(0, 2))) + "}"
        if k < 0.90:
            return f"{self.name()}.{self.name()}"
        if k < 0.93:
            return f"{self.name()}[{self.expr(d + 1)}]"
        if k < 0.95:
            return f"(lambda {self.name()}: {self.expr(d + 1)})"
        if k < 0.97:
            return f"[{self.expr(d + 1)} for {self.name()} in {self.expr(d + 1)}]"
        # parenthesised multi-line expression (free layout inside the parentheses)
        ind = " " * r.randint(0, 8)
        return f"(\n{ind}{self.expr(d + 1)} +\n{ind}{self.expr(d + 1)}\n{' ' * r.randint(0, 4)})"

    # -- statements: lists of physical lines (text without indentation is added by block())
    def simple(self, in_func, in_loop):
        r = self.r
        k = r.random()
        if k < 0.30:
            return f"{self.name()} = {self.expr()}"
        if k < 0.40:
            return self.expr(1) if r.random() < 0.5 else f"{self.name()}({self.expr(1)})"
        if k < 0.47:
            return f"{self.name()} {r.choice(['+=', '-=', '*='])} {self.expr(1)}"
        if k < 0.55 and in_func:
            return r.choice([f"return {self.expr(1)}", "return", f"yield {self.expr(1)}"])
        if k < 0.60:
            return "pass"
        if k < 0.65:
            return r.choice(["import os", "import os.path as p, sys", "from a.b import c as d, e", "from . import x"])
        if k < 0.69:
            return f"assert {self.expr(1)}, {self.string()}"
        if k < 0.72:
            return f"{self.name()}: int = {self.expr(1)}"
        if k < 0.76:
            return f"{self.name()}, {self.name()} = {self.expr(1)}, {self.expr(1)}"
        if k < 0.80:
            return f"{self.name()} = {self.expr(1)} \\\n        + {self.expr(1)}"
        if k < 0.84 and in_loop:
            return r.choice(["break", "continue"])
        if k < 0.88:
            return f"raise {self.name()}({self.string()})"
        if k < 0.94:
            return f"{self.name()} = {self.expr(1)}; {self.name()}({self.expr(1)})" + r.choice(["", ";"])
        return f"del {self.name()}"

    def comment(self):
        bits = ["#"]
        for _ in range(self.r.randint(0, 3)):
            k = self.r.random()
            if self.seps and k < 0.3:
                bits.append(self.r.choice(SEPS))
            elif self.uni and k < 0.6:
                bits.append(self.r.choice(STR_UNI))
            else:
                bits.append(self.r.choice([" note", " @", " pyrefact: ignore", "#", " x = 1"]))
        return "".join(bits)

    def block(self, depth, in_func, in_loop, n=None):
        r = self.r
        out = []
        for _ in range(n or r.randint(1, 3)):
            out += self.stmt(depth, in_func, in_loop)
        return out

    def body(self, depth, in_func, in_loop):
        return [self.indent_unit + ln.replace("\n", "\n" + self.indent_unit) if not ln.startswith(("'''", '"""')) or True
                else ln for ln in self.block(depth + 1, in_func, in_loop)]

    def stmt(self, depth, in_func, in_loop):
        r = self.r
        k = r.random()
        out = []
        if r.random() < 0.12:
            out.append(self.comment())
        if depth >= self.maxdepth or k < 0.55:
            s = self.simple(in_func, in_loop)
            if r.random() < 0.15:
                s += "  " + self.comment()
            return out + [s]
        if k < 0.65:
            out.append(f"if {self.expr(1)}:")
            out += self.body(depth, in_func, in_loop)
            if r.random() < 0.4:
                out.append(f"elif {self.expr(1)}:")
                out += self.body(depth, in_func, in_loop)
            if r.random() < 0.5:
                out.append("else:")
                out += self.body(depth, in_func, in_loop)
            return out
        if k < 0.71:
            out.append(f"for {self.name()} in {self.expr(1)}:")
            return out + self.body(depth, in_func, True)
        if k < 0.75:
            out.append(f"while {self.expr(1)}:")
            return out + self.body(depth, in_func, True)
        if k < 0.79:
            out.append(f"with {self.expr(1)} as {self.name()}:")
            return out + self.body(depth, in_func, in_loop)
        if k < 0.83:
            out.append("try:")
            out += self.body(depth, in_func, in_loop)
            out.append(f"except {self.name()} as {self.name()}:")
            out += self.body(depth, in_func, in_loop)
            if r.random() < 0.3:
                out.append("finally:")
                out += self.body(depth, in_func, in_loop)
            return out
        # definitions
        for _ in range(r.choice([0, 0, 1, 1, 2])):
            out.append(r.choice(DECORATORS).format(e=self.name()))
        if k < 0.94:
            args = ", ".join(r.sample(["a", "b=1", "*args", "**kw"], r.randint(0, 3)) if r.random() < 0.8 else ["é", "ß='日'"][: int(self.uni) * 2])
            out.append(f"{r.choice(['', '', 'async '])}def {self.name()}({args}){r.choice(['', ' -> int'])}:")
            if r.random() < 0.3:
                out.append(self.indent_unit + '"""' + self.strbody(True) + '"""')
            return out + self.body(depth, True, False)
        out.append(f"class {self.name()}{r.choice(['', '()', '(Base)', '(A, metaclass=M)'])}:")
        return out + self.body(depth, False, False)

    def module(self, nstmts=None):
        r = self.r
        lines = []
        if r.random() < 0.15:
            lines.append('"""' + self.strbody(True) + '"""')
        for _ in range(nstmts or self.nstmts or r.randint(1, 5)):
            lines += self.stmt(0, False, False)
            k = r.random()
            if k < 0.25:
                lines.append("")
            elif k < 0.35 and self.seps:
                lines.append(r.choice(["\x0c", "\x0c", "  \x0c", "# " + r.choice(SEPS) + " sep"]))
            elif k < 0.42:
                lines.append(self.comment())
        text = "\n".join(lines)
        if self.trailing:
            text += "\n"
        elif r.random() < 0.3:
            text += "\n" + r.choice(["# @", "#@", "# end é", "  "])
        if self.nl == "mixed":
            text = "".join(r.choice(["\n", "\r\n", "\r"]) if c == "\n" else c for c in text)
        elif self.nl != "\n":
            text = text.replace("\n", self.nl)
        return text


def gen_source(rnd, **kw):
    """a generated module that CPython parses (unparsable drafts are discarded)"""
    for _ in range(200):
        s = Gen(rnd, **kw).module()
        try:
            ast.parse(s)
        except (SyntaxError, ValueError):
            continue
        return s
    raise RuntimeError("generator produced no valid module")


# ---------------------------------------------------------------------------------------------
# digests of exhaustive enumerations (mirrors dg / str_obs / grid_obs of SpanModel.v)

MASK = (1 << 40) - 1


def dg_list(h: int, xs) -> int:
    for x in xs:
        h = (h * 33 + x + 64) & MASK
    return h


def enc_o(o):
    if o is None:
        return [0]
    return [1, o] if isinstance(o, int) else [1, *o]


def str_obs_flat(core, s):
    table, slines, lcs, charnos = obs_string(core, s)
    out = [len(table), *table, len(slines), *map(len, slines)]
    for x in lcs:
        out += enc_o(x)
    for row in charnos:
        for x in row:
            out += enc_o(x)
    return out


def fake_node(decs, a, is_def):
    if is_def:
        node = ast.FunctionDef(name="f", args=ast.arguments(posonlyargs=[], args=[], kwonlyargs=[], kw_defaults=[], defaults=[]),
                               body=[], decorator_list=[fake_node([], (d[0], d[1], d[2], d[3]), False) for d in decs])
    else:
        node = ast.Name(id="n", ctx=ast.Load())
    for k, v in zip(("lineno", "col_offset", "end_lineno", "end_col_offset"), a):
        if v is not None:
            setattr(node, k, v)
    return node


def grid_obs_flat(core, variants, agrid, s):
    out = []
    for decs, is_def in variants:
        for a in agrid:
            node = fake_node(decs, a, is_def)
            r0 = _ie(lambda: tuple(core.get_charnos(node, s)), (BAD, BAD), f"get_charnos grid {s!r} {a}")
            r1 = _ie(lambda: tuple(core.get_charnos(node, s, keep_first_indent=True)), (BAD, BAD), f"get_charnos grid {s!r} {a}")
            out += enc_o(r0) + enc_o(r1)
            if r0 is not None:
                m = core.Match(core.Range(*r0), s, ())
                out += enc_o(_ie(lambda: (m.lineno, m.col_offset), (BAD, BAD), "Match.lineno")) + [len(m.string)]
    return out


STR_ALPHABET = ["a", " ", "\n", "\r", "\x0c", "\x85", "é", "日", "😀"]
GRID_ALPHABET = ["a", " ", "@", "\n", "é", "("]
GRID_VARIANTS = [([], False), ([], True), ([(1, 1, 1, 2)], True), ([(1, 2, 1, 3), (1, 0, 1, 1)], True),
                 ([(2, 1, 2, 2), (1, 3, 1, 3)], True)]
GRID_ATTRS = ([(l, c, el, ec) for l in (1, 2) for c in (0, 1, 2, 3) for el in (1, 2) for ec in (0, 1, 2, 3, 4)]
              + [(l, c, None, None) for l in (1, 2, 3) for c in (0, 2)]
              + [(None, None, None, None), (None, 1, 1, 3), (0, 0, 1, 2), (1, None, 2, 1), (1, -1, 1, 2)])


def digest_file(path: Path, kind: str, alphabet, pfxs, k, expected, extra=""):
    """a case file that enumerates, inside Coq, all strings pfx ++ t (t of length k) per prefix"""
    f = "str_digest" if kind == "str" else "(grid_digest variants agrid)"
    path.write_text(
        HEADER + extra
        + f"Definition alphabet : list N := {gn(''.join(alphabet))}.\n"
        + f"Definition pfxs : list text := {glist(pfxs, gn)}.\n"
        + f"Definition expected : list Z := {glist(expected, gz)}.\n"
        + f"Eval vm_compute in (digests_bad (block_digests {f} alphabet pfxs {k}) expected).\n")


def grid_extra() -> str:
    return (f"Definition variants : list (list pos4 * bool) := "
            f"{glist(GRID_VARIANTS, lambda v: '(' + glist(v[0], gpair) + ', ' + gbool(v[1]) + ')')}.\n"
            f"Definition agrid : list attrs := {glist(GRID_ATTRS, gattrs)}.\n")


# ---------------------------------------------------------------------------------------------
# API level

PATTERNS = ["{{a}} + {{b}}", "{{x}} = {{y}}", "{{f}}({{x}})", "return {{x}}", "pass",
            ast.FunctionDef, ast.ClassDef, ast.Call, (ast.Name, ast.Constant), ast.stmt, ast.Module]
STATEMENTS = ["x + y < 3", "u + v", "f(g(1))", "a = b + c", "print(len(q))[0]", "foo(1)", "x = 1", "pass",
              "def f():\n    return 1 + 2", "@dec\ndef g(a):\n    return h(a)", "class A:\n    y = f(2)",
              "é = 'é' + f(ß)", "s = '\x0c'; t = f(s) + 1"]


def pattern_name(p) -> str:
    if isinstance(p, str):
        return p
    if isinstance(p, tuple):
        return "(" + ",".join(x.__name__ for x in p) + ")"
    return p.__name__


def api_family():
    """deterministic (pattern, source) family: all single statements and ordered pairs of statements,
    some line-end / trailing-newline variants"""
    srcs = ["", "\n", "# only a comment\n", "# c"]      # modules without statements: match/fullmatch give None
    for a in STATEMENTS:
        srcs.append(a + "\n")
    for a, b in itertools.permutations(STATEMENTS, 2):
        srcs.append(a + "\n" + b + "\n")
    for i, (a, b) in enumerate(itertools.permutations(STATEMENTS[:8], 2)):
        nl = ["\r\n", "\r"][i % 2]
        srcs.append((a + "\n\n# c\n" + b).replace("\n", nl))
    return srcs


KERNEL_FUNCS = {"get_charnos", "_get_charno", "_get_line_start_charnos", "_get_position", "_lineno_col_offset",
                "lineno", "col_offset", "string", "root", "start", "end"}


def obs_api(mods, pattern, s):
    """what the wrappers return for (pattern, source); None if the search itself raises.
    If finditer works but a wrapper or a Match property raises, the result carries a "crash" entry
    (a property violation: the wrappers are defined in terms of finditer)."""
    core, pm = mods["core"], mods["pattern_matching"]
    try:
        with common.quiet():
            ms = list(pm.finditer(pattern, s))
            spans = [tuple(m.span) for m in ms]
    except Exception as e:  # noqa -- matcher/compile problems are C12's business ...
        tb, inner = e.__traceback__, []
        while tb is not None:
            inner.append(tb.tb_frame.f_code.co_name)
            tb = tb.tb_next
        if inner and inner[-1] in KERNEL_FUNCS:      # ... unless the offset arithmetic itself raised
            return {"pattern": pattern_name(pattern), "source": s, "spans": [],
                    "crash": f"finditer raised {type(e).__name__}: {e} in core.{inner[-1]}"[:300]}
        return None
    o = {"pattern": pattern_name(pattern), "source": s, "spans": spans,
         "pattern_kind": "sequence" if isinstance(pattern, list) else "node"}
    what = "?"
    try:
        with common.quiet():
            what = "findall"
            fa = pm.findall(pattern, s)
            what = "search"
            se = pm.search(pattern, s)
            what = "match"
            ma = pm.match(pattern, s)
            what = "fullmatch"
            fu = pm.fullmatch(pattern, s)
        what = "get_charnos(body)"
        body = [tuple(core.get_charnos(n, s)) for n in ast.parse(s).body]
        cli = []
        for m in ms:
            what = f"Match{tuple(m.span)}.lineno/col_offset/string"
            cli.append(_ie(lambda: (m.lineno, m.col_offset, m.string.splitlines()[0]), (BAD, BAD, "?"), what))
        what = "Match.string/lineno/col_offset/start/end/root"
        strings = [m.string for m in ms]
        linecol = [(m.lineno, m.col_offset) for m in ms]
        ends_ok = all((m.start, m.end) == tuple(m.span) for m in ms)
        # the matched node: Match.root; its complete text by the independent oracle
        b, offs = tok_line_offsets(s)
        root_spans = []
        for m in ms:
            r = m.root
            root_spans.append(node_text_span(s, b, offs, r) if isinstance(r, ast.AST) and has_position(r) else None)
        roots_first = all(m.root is m.groups[0] for m in ms)
    except Exception as e:  # noqa
        o["crash"] = f"{what} raised {type(e).__name__}: {e}"[:300]
        return o
    sp = lambda m: None if m is None else tuple(m.span)  # noqa
    o.update(body=body, findall=fa, search=sp(se), match=sp(ma), fullmatch=sp(fu), cli=cli, strings=strings,
             linecol=linecol, root_spans=root_spans, ends_ok=ends_ok and roots_first)
    return o


def api_case_coq(o) -> str:
    cli = glist(o["cli"], lambda x: "None" if x is None else f"(Some ({gz(x[0])}, {gz(x[1])}, {gn(x[2])}))")
    return (f"({gn(o['source'])}, {glist(o['spans'], gpair)}, {glist(o['body'], gpair)}, {glist(o['findall'], gn)}, "
            f"{gorange(o['search'])}, {gorange(o['match'])}, {gorange(o['fullmatch'])}, {cli})")


def api_oracle(o, known_spans=()) -> str | None:
    """the property on one (pattern, source), independently of core.get_charnos / Match.
    known_spans: spans that a listed finding of core.get_charnos already explains (not re-reported here)"""
    s = o["source"]
    b, offs = tok_line_offsets(s)
    cs = char_line_starts(s)
    body = ast.parse(s).body
    bs = [node_text_span(s, b, offs, n) for n in body]
    if o.get("crash"):
        return o["crash"]
    for (st, en), text, (ln, col), rs in zip(o["spans"], o["strings"], o["linecol"], o["root_spans"]):
        if (st, en) in known_spans:
            continue
        if rs is not None and o["pattern_kind"] != "sequence" and rs != (st, en):
            return (f"span {(st, en)} = {s[st:en]!r} is not the complete text of the matched node Match.root "
                    f"({rs} = {s[rs[0]:rs[1]]!r})")
        if not (0 <= st <= en <= len(s)):
            return f"span {(st, en)} is not inside the source (length {len(s)})"
        if text != s[st:en]:
            return f"Match.string {text!r} is not the slice {s[st:en]!r}"
        if ln < 1 or ln > len(cs) or col < 0 or cs[ln - 1] + col != st or (ln < len(cs) and st >= cs[ln]):
            return f"lineno/col_offset {ln}:{col} is not the position of offset {st}"
    if not o["ends_ok"]:
        return "Match.start/end are not the ends of Match.span, or Match.root is not the first group"
    if o["findall"] != o["strings"]:
        return "findall differs from the texts of finditer"
    if o["search"] != (o["spans"][0] if o["spans"] else None):
        return "search is not the first finditer result"
    if known_spans:      # the body range itself may be one of the spans a listed finding explains
        return None
    if bs:
        b0, b1 = min(x[0] for x in bs), max(x[1] for x in bs)
        at_start = [sp for sp in o["spans"] if sp[0] == b0]
        whole = [sp for sp in o["spans"] if sp == (b0, b1)]
    else:
        at_start = whole = []
    if (o["match"] is None) != (not at_start) or (o["match"] is not None and o["match"][0] != b0):
        return f"match() = {o['match']} but matches starting at the first statement: {at_start}"
    if (o["fullmatch"] is None) != (not whole) or (o["fullmatch"] is not None and o["fullmatch"] != (b0, b1)):
        return f"fullmatch() = {o['fullmatch']} but matches spanning the body: {whole}"
    return None


def run_cli(wd: Path, pattern: str, sources: list[str], mods_pm=None):
    """`python -m pyrefact.pattern_matching find <pattern> <dir>`: {file index: [(lineno, col, text)]}"""
    d = wd / ("cli_" + str(abs(hash(pattern)) % 10**8))
    d.mkdir(parents=True, exist_ok=True)
    for i, s in enumerate(sources):
        (d / f"m{i:04d}.py").write_bytes(s.encode("utf-8"))
    env = dict(os.environ, PYTHONPATH=str(common.REPO), PYTHONIOENCODING="utf-8", PYTHONUTF8="1", PYTHONHASHSEED="0")
    r = subprocess.run([sys.executable, "-m", "pyrefact.pattern_matching", "find", pattern, str(d)],
                       capture_output=True, env=env, timeout=300)
    out = r.stdout.decode("utf-8")
    # the same through main() without arguments (argv taken from sys.argv), in process
    import contextlib as _cl
    import locale as _lc
    if _lc.getpreferredencoding(False).lower().replace("-", "") != "utf8":
        mods_pm = None      # read_text() of the in-process run would not decode the files the way the subprocess does
    buf = io.StringIO()
    old_argv = sys.argv
    try:
        sys.argv = ["pyrefind", "find", pattern, str(d)]
        with _cl.redirect_stdout(buf):
            rc_inproc = mods_pm.main() if mods_pm is not None else r.returncode
    except BaseException as e:  # noqa (argparse exits with SystemExit)
        rc_inproc = f"{type(e).__name__}: {e}"
    finally:
        sys.argv = old_argv
    inproc_differs = mods_pm is not None and (rc_inproc != r.returncode or buf.getvalue() != out)
    res = {i: [] for i in range(len(sources))}
    import re as _re
    bad = []
    for line in out.split("\n"):
        if not line:
            continue
        m = _re.match(r"^.*?m(\d{4})\.py:(-?\d+):(-?\d+): (.*)$", line, flags=_re.S)
        if not m:
            bad.append(line)
            continue
        res[int(m.group(1))].append((int(m.group(2)), int(m.group(3)), m.group(4)))
    # main() reads the files with newline="" (fix 170ab4f): the text is the file content, line ends untouched
    texts = [(d / f"m{i:04d}.py").read_bytes().decode("utf-8") for i in range(len(sources))]
    if inproc_differs:
        bad.append(f"main() with sys.argv (in process) returned {rc_inproc!r} / printed {len(buf.getvalue())} characters; "
                   f"the subprocess returned {r.returncode} / printed {len(out)} characters")
    return res, texts, bad, r.returncode, r.stderr.decode("utf-8", "replace")[-800:]


def run_cli_replace(wd: Path, mods, pattern: str, repl: str, sources: list[str]):
    """`python -m pyrefact.pattern_matching replace <pattern> <repl> <dir>`: every file must end up as
    sub(pattern, repl, text) says (unchanged files are not rewritten); one 'Parsing' line per file"""
    d = wd / "cli_replace"
    d.mkdir(parents=True, exist_ok=True)
    for i, s in enumerate(sources):
        (d / f"m{i:04d}.py").write_bytes(s.encode("utf-8"))
    expected = {}
    for i, s in enumerate(sources):
        f = d / f"m{i:04d}.py"
        text = f.read_bytes().decode("utf-8")       # newline="" on both sides since fix 170ab4f
        try:
            with common.quiet():
                new = mods["pattern_matching"].sub(pattern, repl, text)
        except Exception:  # noqa
            new = None
        expected[i] = None if new is None else new.encode("utf-8")
    env = dict(os.environ, PYTHONPATH=str(common.REPO), PYTHONIOENCODING="utf-8", PYTHONUTF8="1", PYTHONHASHSEED="0")
    r = subprocess.run([sys.executable, "-m", "pyrefact.pattern_matching", "replace", pattern, repl, str(d)],
                       capture_output=True, env=env, timeout=300)
    if r.returncode != 0 and all(v is not None for v in expected.values()):
        return {"command": "replace", "returncode": r.returncode, "stderr": r.stderr.decode("utf-8", "replace")[-500:]}
    changed = sum(1 for i, s in enumerate(sources) if expected[i] not in (None, s.encode("utf-8")))
    for i in range(len(sources)):
        got = (d / f"m{i:04d}.py").read_bytes()
        if expected[i] is not None and got != expected[i]:
            return {"command": "replace", "pattern": pattern, "replacement": repl, "source": sources[i],
                    "file_after": got.decode("utf-8", "replace"), "expected": expected[i].decode("utf-8", "replace"),
                    "files_sub_changes": changed}
    n_parsing = sum(1 for l in r.stdout.decode("utf-8", "replace").split("\n") if l.startswith("Parsing "))
    if r.returncode == 0 and n_parsing != len(sources):
        return {"command": "replace", "problem": f"{n_parsing} 'Parsing' lines for {len(sources)} files"}
    if changed == 0:
        return {"command": "replace", "problem": "the replace family exercises no change (harness too weak)"}
    return None


# ---------------------------------------------------------------------------------------------
# has_ignore_comment

IGN_LINES = ["x = 1", "x = 1  # pyrefact: ignore", "# pyrefact:ignore", "#pyrefact :  skip_file", "# pyrefact: ignor",
             "y = 2 #\tpyrefact\t:\tignore", "# pyrefact\xa0:\u2003ignore", "s = '# pyrefact: ignore'", "##  pyrefact: skip_file x",
             "# pyrefact ignore", "#pyrefact:skip_fil", "# Pyrefact: ignore", "pyrefact: ignore", "#", ""]
IGN_SEPS = ["\n", "\r\n", "\r", "\x0c", "\u2028", "\x85", "\x1c"]
IGN_ODD = ["\x0c", "\u2028", "\x85", "\x1c", "\x0b", "\u2029"]       # str.splitlines breaks here, the tokenizer does not
IGN_DOC_RE = re.compile(r"#\s*pyrefact\s*:\s*(skip_file|ignore)")    # the documented marker (the harness's own copy)

# the inputs that separate the recogniser before / after the repairs a37c022, 8992e08, 776bcb9
IGN_FIXED = [
    # the marker inside a string literal is no comment (776bcb9)
    "s = '# pyrefact: ignore'\nx = 1\n",
    's = "# pyrefact: skip_file"  # note\n',
    's = "# pyrefact: ignore"  # pyrefact: ignore\n',
    's = """\n# pyrefact: ignore\n"""\nx = 1  # pyrefact: ignore\n',
    "s = '''a\n  # pyrefact: ignore\nb'''\n",
    'f"{x}  # pyrefact: ignore"\n',
    "x = 1  # s = '# pyrefact: ignore'\n",
    "x = (1,  # pyrefact: ignore\n     2)\ny = 3\n",
    "x = 1 \\\n  + 2  # pyrefact: ignore\n",
    # sources the tokenizer rejects: every line whose text matches counts
    "s = '# pyrefact: ignore\nx = 1\n",
    "x = (1,  # pyrefact: ignore\ny = 2\n",
    's = """\n# pyrefact: ignore\nx = 1\n',
    "if x:\n        y = 1  # pyrefact: ignore\n    z = 2\n",
    "x = 1 \\",
    "x = $  # pyrefact: ignore\ns = '# pyrefact: ignore'\n",
    "x = 1  # pyrefact: ignore\n)\n",
    "\x00 # pyrefact: ignore\n",
    # CR-only and mixed files (a37c022: physical lines, not str.splitlines)
    "x = 1  # pyrefact: ignore\ry = 2\rz = 3  # pyrefact: ignore",
    "# pyrefact: ignore\r\rx = 1\r",
    "x = 1\r# pyrefact: ignore\r\ny = 2\n# pyrefact: skip_file\r",
    "s = '# pyrefact: ignore'\rx = 1  # pyrefact: ignore\r",
    # an unterminated last line; empty text; blank lines
    "x = 1\ny = 2  # pyrefact: ignore",
    "# pyrefact: ignore",
    "# pyrefact: ignore\n",
    "# pyrefact: ignore\n\n",
    "\n\n# pyrefact: ignore\n\nx = 1",
    "", "\n", "\r", "\r\n", "x",
]
for _c in IGN_ODD:
    IGN_FIXED += [
        f"s = 'a{_c}b'  # pyrefact: ignore\nx = 1\n",                 # inside a string, the comment after it
        f"s = 'a{_c}# pyrefact: ignore'\nx = 1\n",                    # the marker after the odd character, in a string
        f"x = 1  # note{_c}pyrefact: ignore\ny = 2\n",                # inside the comment, before the marker text
        f"x = 1  #{_c}pyrefact{_c}:{_c}ignore\ny = 2\n",              # as the \s of the regex
        f"x = 1  # pyrefact: ignore{_c}tail\ny = 2  # b{_c}\n",       # after the marker
        f"x = 1{_c}# pyrefact: ignore\n",                             # outside strings and comments
        f"x = 1  # a{_c}b\ry = 2  # pyrefact: ignore{_c}",             # CR file, unterminated last line
    ]


def ign_coms(s):
    """the model's `coms` input: zero-based physical lines with a COMMENT token that matches the marker, by CPython's
    tokenizer (computed here, not taken from pyrefact); None if it raises"""
    try:
        toks = tokenize.generate_tokens(io.StringIO(s, newline="").readline)
        return sorted({t.start[0] - 1 for t in toks if t.type == tokenize.COMMENT and IGN_DOC_RE.search(t.string)})
    except (tokenize.TokenError, SyntaxError, ValueError):
        return None


def ign_cases(rnd, n_random):
    strings = list(IGN_FIXED)
    for a in IGN_LINES:
        strings.append(a)
        for sep in IGN_SEPS:
            strings.append(a + sep + "z = 3")
            strings.append("z = 3" + sep + a + sep)
    for a, b in itertools.permutations(IGN_LINES[:8], 2):
        strings.append(a + "\n" + b + "\n")
        strings.append(a + "\r" + b)
    base = "# pyrefact: ignore"
    alphabet = [" ", "\t", "\x0c", "\xa0", "#", ":", "p", "e", "_", "\n", "\r", "\u2028", "\x85", "x", "'", '"', "(", "\\"]
    seeds = [base, "#pyrefact:skip_file", "a  #  pyrefact :  ignore b", "s = '# pyrefact: ignore'  # pyrefact: ignore",
             "x = 1\n# pyrefact: ignore\ny = '''\n# pyrefact:ignore\n'''"]
    for _ in range(n_random):
        t = list(rnd.choice(seeds))
        for _ in range(rnd.randint(1, 3)):
            k = rnd.random()
            i = rnd.randrange(len(t) + 1)
            if k < 0.4:
                t.insert(i, rnd.choice(alphabet))
            elif k < 0.7 and t:
                del t[min(i, len(t) - 1)]
            elif t:
                t[min(i, len(t) - 1)] = rnd.choice(alphabet)
        strings.append("".join(t))
    return list(dict.fromkeys(strings))


def ign_ranges(s):
    """every insertion point -1..n+1, and the ranges over the interesting points: text ends, line starts / ends (both
    sides of every terminator and of every str.splitlines-only break), the `#`s; a few inverted ranges"""
    n = len(s)
    odd = "\n\r\x0c\x0b\u2028\u2029\x85\x1c"
    pts = sorted({0, 1, n // 3, n // 2, max(n - 1, 0), n, n + 1} | {i for i, c in enumerate(s) if c in odd + "#"}
                 | {i + 1 for i, c in enumerate(s) if c in odd})
    if len(pts) > 16:
        pts = pts[:8] + pts[-8:]
    rs = ([(p, p) for p in range(-1, n + 2)] + [(a, b) for a in pts for b in pts if a < b]
          + [(b, a) for a in pts[:4] for b in pts[-3:] if a < b])
    return list(dict.fromkeys(rs))


# ---------------------------------------------------------------------------------------------
# property oracle on whole sources, known-finding signatures, corpus

def _in_fstring(root, node) -> bool:
    for js in ast.walk(root):
        if isinstance(js, ast.JoinedStr):
            for sub in ast.walk(js):
                if sub is node and sub is not js:
                    return True
    return False


def node_failures(core, s, limit=3):
    """nodes of ast.parse(s) whose get_charnos span is not exactly their text (the property's oracle)"""
    root = ast.parse(s)
    b, offs = tok_line_offsets(s)
    out = []
    for node in ast.walk(root):
        if not has_position(node):
            continue
        exp = node_text_span(s, b, offs, node)
        try:
            got = tuple(core.get_charnos(node, s))
        except Exception as e:  # noqa
            got = ("exception", type(e).__name__)
        if got != exp:
            gap = None
            if isinstance(node, DEF_TYPES) and node.decorator_list:
                first = min(node.decorator_list, key=lambda d: (d.lineno, d.col_offset))
                gap = s[exp[0] + 1:true_offset(b, offs, first.lineno, first.col_offset)]
            out.append({"source": s, "node": type(node).__name__, "node_text": s[exp[0]:exp[1]], "expected_span": exp,
                        "got_span": got, "in_fstring": _in_fstring(root, node), "decorator_gap": gap,
                        "site": "core.get_charnos"})
            if len(out) >= limit:
                break
    return out


def _sig_fstring_literal_blank(c) -> bool:
    t = c["node_text"]
    return c["node"] == "Constant" and c["in_fstring"] and t != "" and (t[0] == " " or t[-1] == " ")


def _sig_decorator_comment_in_parens(c) -> bool:
    # between the '@' and the first decorator expression there is a comment (only possible inside parentheses)
    g = c.get("decorator_gap")
    return c["node"] in ("FunctionDef", "AsyncFunctionDef", "ClassDef") and g is not None and "(" in g and "#" in g


SIGS = {"fstring_literal_blank": _sig_fstring_literal_blank,
        "decorator_comment_in_parens": _sig_decorator_comment_in_parens}


def match_finding(findings, case):
    for f in findings:
        if f.kind != "finding" or f.fields.get("site") != case.get("site"):
            continue
        pred = SIGS.get(f.fields.get("sig", ""))
        try:
            if pred and pred(case):
                return f
        except Exception:  # noqa
            continue
    return None


SWEEP_SEED = 130013


def sweep_sources(n):
    """the deterministic corpus of the falsification sweep (independent of VERIF_SEED)"""
    rnd = random.Random(SWEEP_SEED)
    return [gen_source(rnd) for _ in range(n)]


CORPUS = common.VERIF / "corpus" / "span"


def load_corpus():
    out = []
    if CORPUS.is_dir():
        for p in sorted(CORPUS.glob("*.json")):
            d = json.loads(p.read_text())
            d["file"] = p.name
            out.append(d)
    return out


# ---------------------------------------------------------------------------------------------

def run_case_files(files, timeout=900):
    """common.run_case_files with -noglob (the .glob dumps of large case files cost more than the evaluation)"""
    from concurrent.futures import ThreadPoolExecutor

    def one(path):
        r = subprocess.run(["timeout", str(timeout), "coqc", "-noglob", *common.COQ_FLAGS, str(path)], cwd=path.parent,
                           capture_output=True, text=True)
        return r.returncode, r.stdout + r.stderr

    with ThreadPoolExecutor(max_workers=common.NCPU) as ex:
        return dict(zip(files, ex.map(one, files)))


def _block_expected(core, alphabet, pfxs, k, flat):
    exp = []
    tails = ["".join(t) for t in itertools.product(alphabet, repeat=k)]
    for pfx in pfxs:
        exp.append(dg_list(1, [dg_list(7, flat(pfx + t)) for t in tails]))
    return exp


def source_nodes_case(core, s, with_oracle=True):
    root = ast.parse(s)
    b, offs = tok_line_offsets(s)
    obs, seen = [], set()
    for node in ast.walk(root):
        orc = None
        if with_oracle and has_position(node):
            p1 = true_offset(b, offs, node.lineno, node.col_offset)
            p2 = true_offset(b, offs, node.end_lineno, node.end_col_offset)
            orc = (p1, p2, (node.lineno, node.col_offset, node.end_lineno, node.end_col_offset))
        o = obs_node(core, s, node, orc)
        key = repr(o)
        if key not in seen:         # position-less nodes (Load, operators, ...) all look the same to get_charnos
            seen.add(key)
            obs.append(o)
    return obs


def check(run: common.Run):
    """never lets an exception escape: a crash of the check is a VIOLATION (formatted without
    traceback.format_exception, see safe_tb)"""
    try:
        _check(run)
    except Exception as e:  # noqa
        run.violation({"kind": "check-crashed", "detail": safe_tb(e), "impl_exceptions": IMPL_EXC[:5],
                       "explanation": "harness/c13.py raised on this tree (an implementation function it drives changed "
                                      "shape or crashed); nothing is shown to hold"}, False)
        if not run.coverage.get("obligations"):
            run.coverage.update(obligations=1, discharged=0, checker_cmd="(check crashed)", trusted_base=[])


def _check(run: common.Run):
    import time as _t
    del IMPL_EXC[:]
    t0 = _t.time()
    wd = common.workdir(PID)
    ps = common.proof_step(run, PID, wd)
    common.log(f"[c13] proof step {round(_t.time() - t0, 1)}s")
    mods = common.import_impl()
    core = mods["core"]
    rnd = random.Random(run.seed)
    quick = run.tier == "quick"
    hist = Counter()
    files, decode = [], {}       # decode[path] = (kind, payload) to turn a bad index into a readable case
    distinct = set()
    evaluations = 0

    def add_file(name, text, kind, payload):
        p = wd / name
        p.write_text(text)
        files.append(p)
        decode[p] = (kind, payload)

    # ---- 0. character tables: \s, str.splitlines separators, UTF-8 lengths
    import re as _re
    spaces = [c for c in range(0x110000) if not 0xD800 <= c <= 0xDFFF and _re.fullmatch(r"\s", chr(c))]
    seps = [c for c in range(0x110000) if not 0xD800 <= c <= 0xDFFF and len(("a" + chr(c) + "b").splitlines()) == 2]
    u8 = [(c, len(chr(c).encode("utf-8"))) for c in (0, 65, 127, 128, 255, 2047, 2048, 8232, 65535, 65536, 0x10FFFF)]
    LIM = 70000
    assert max(spaces) < LIM and max(seps) < LIM
    add_file("tables.v", HEADER
             + f"Definition cps : list N := nrange 0%N {LIM}%nat.\n"
             + "Eval vm_compute in (let a := zeqb_list (map Z.of_N (filter is_space cps)) " + glist(spaces, gz) + " in\n"
             + " let b := zeqb_list (map Z.of_N (filter is_str_sep cps)) " + glist(seps, gz) + " in\n"
             + " let c := forallb (fun x => utf8_len (fst x) =? snd x) " + glist(u8, lambda x: f"({x[0]}%N, {x[1]})") + " in\n"
             + " (if a then [] else [0%nat]) ++ (if b then [] else [1%nat]) ++ (if c then [] else [2%nat])).\n",
             "tables", ["is_space vs re \\s", "is_str_sep vs str.splitlines", "utf8_len vs str.encode"])

    # ---- 1. explicit small-scope string cases (length <= 3, all of them)
    A = STR_ALPHABET
    small = ["".join(t) for n in range(0, 4) for t in itertools.product(A, repeat=n)]
    sc = [(s, obs_string(core, s)) for s in small]
    for k in range(0, len(sc), 420):
        shard = sc[k:k + 420]
        add_file(f"str_{k // 420}.v", HEADER + "Definition cases : list str_case := [\n "
                 + ";\n ".join(str_case_coq(s, o) for s, o in shard) + "\n].\nEval vm_compute in (bad_idx str_case_ok cases).\n",
                 "str", [s for s, _ in shard])
    evaluations += len(sc)
    hist["str_explicit_len<=3"] = len(sc)
    n_str_exh = len(sc)

    # ---- 2. digest enumeration of all strings of length 4, 5 (and 6 in the thorough tier)
    flat_str = lambda s: str_obs_flat(core, s)  # noqa
    for L in ((4, 5) if quick else (4, 5, 6)):
        heads = [""] if L == 4 else ["".join(t) for t in itertools.product(A, repeat=L - 4)]
        for hi, h in enumerate(heads):
            pfxs = [h + "".join(t) for t in itertools.product(A, repeat=2)]
            exp = _block_expected(core, A, pfxs, 2, flat_str)
            p = wd / f"strdig_{L}_{hi}.v"
            digest_file(p, "str", A, pfxs, 2, exp)
            files.append(p)
            decode[p] = ("strdig", pfxs)
            n_str_exh += len(pfxs) * len(A) ** 2
            evaluations += len(pfxs) * len(A) ** 2
        hist[f"str_digest_len{L}"] = len(A) ** L

    # ---- 3. get_charnos on a grid of synthetic nodes over all strings of length <= 3 (4: thorough)
    B = GRID_ALPHABET
    flat_grid = lambda s: grid_obs_flat(core, GRID_VARIANTS, GRID_ATTRS, s)  # noqa
    n_grid = 0
    for L in ((0, 1, 2, 3) if quick else (0, 1, 2, 3, 4)):
        k = min(L, 2)
        pfxs_all = ["".join(t) for t in itertools.product(B, repeat=L - k)]
        for gi in range(0, len(pfxs_all), 6):
            pfxs = pfxs_all[gi:gi + 6]
            exp = _block_expected(core, B, pfxs, k, flat_grid)
            p = wd / f"grid_{L}_{gi // 6}.v"
            digest_file(p, "grid", B, pfxs, k, exp, grid_extra())
            files.append(p)
            decode[p] = ("griddig", pfxs)
            n_grid += len(pfxs) * len(B) ** k
    per_string = len(GRID_VARIANTS) * len(GRID_ATTRS) * 2
    evaluations += n_grid * per_string
    hist["grid_strings"] = n_grid
    hist["grid_get_charnos_calls"] = n_grid * per_string
    common.log(f"[c13] small scope generated {round(_t.time() - t0, 1)}s")

    # ---- 4. corpus (witnesses of repaired defects / past disagreements) + 5. generated sources
    corpus = load_corpus()
    src_list = [("corpus:" + c["file"], c["source"]) for c in corpus if "source" in c and not c.get("api_only")]
    n_gen = 500 if quick else 6000
    feature_cycle = [dict(uni=False, seps=False, nl="\n"), dict(uni=True, seps=False), dict(uni=True, seps=True),
                     dict(uni=False, seps=True, nl="\r\n"), dict(), dict(uni=True, seps=True, trailing=False)]
    for i in range(n_gen):
        src_list.append((f"gen:{i}", gen_source(rnd, maxdepth=2, nstmts=1 + i % 3, **feature_cycle[i % len(feature_cycle)])))
    cases = []
    n_nodes = 0
    for tag, s in src_list:
        obs = source_nodes_case(core, s)
        cases.append((tag, s, obs))
        n_nodes += len(obs)
        for o in obs:
            if o[3] is not None and o[3][0] != o[3][1]:
                distinct.add((s[o[3][0]:o[3][1]], o[3][0]) if len(s) < 60 else hash((s, o[3])))
        hist["src_nonascii"] += (not s.isascii())
        hist["src_crlf_or_cr"] += ("\r" in s)
        hist["src_splitlines_only_sep"] += any(c in s for c in SEPS)
        hist["src_no_trailing_newline"] += (not s.endswith(("\n", "\r")))
        hist["src_decorated"] += ("@" in s)
    evaluations += 2 * n_nodes
    SH = 25
    for k in range(0, len(cases), SH):
        shard = cases[k:k + SH]
        add_file(f"src_{k // SH}.v", HEADER + "Definition cases : list src_case := [\n "
                 + ";\n ".join(src_case_coq(s, obs) for _, s, obs in shard)
                 + "\n].\nEval vm_compute in (bad_idx src_case_ok cases).\n", "src", [(t, s) for t, s, _ in shard])
    hist["sources"] = len(cases)
    hist["source_nodes"] = n_nodes
    common.log(f"[c13] sources generated {round(_t.time() - t0, 1)}s ({n_nodes} nodes)")

    # ---- 6. API level: deterministic family + generated sources, every pattern
    api_srcs = api_family() + [c["source"] for c in corpus if "source" in c]
    n_api_rand = 40 if quick else 400
    for i in range(n_api_rand):
        api_srcs.append(gen_source(rnd, maxdepth=2, nstmts=1 + i % 3, **feature_cycle[i % len(feature_cycle)]))
    api_obs, api_skipped, api_crash = [], 0, []
    for s in api_srcs:
        for pat in PATTERNS:
            o = obs_api(mods, pat, s)
            if o is None:
                api_skipped += 1
                continue
            if o.get("crash"):
                if len(api_crash) < 5:
                    api_crash.append({"pattern": o["pattern"], "source": s, "problem": o["crash"], "site": "pattern_matching"})
                continue
            api_obs.append(o)
            hist["api_matches"] += len(o["spans"])
            hist["api_match_hit"] += o["match"] is not None
            hist["api_fullmatch_hit"] += o["fullmatch"] is not None
            hist["api_match_not_first"] += (o["match"] is not None and o["match"] != o["spans"][0])
            if o["spans"]:
                distinct.add(("api", o["pattern"], s))
    evaluations += 4 * len(api_obs)
    for k in range(0, len(api_obs), 250):
        shard = api_obs[k:k + 250]
        add_file(f"api_{k // 250}.v", HEADER + "Definition cases : list api_case := [\n "
                 + ";\n ".join(api_case_coq(o) for o in shard)
                 + "\n].\nEval vm_compute in (bad_idx api_case_ok cases).\n", "api", shard)
    hist["api_cases"] = len(api_obs)
    common.log(f"[c13] api generated {round(_t.time() - t0, 1)}s ({len(api_obs)} cases)")

    # ---- 7. the command-line finder: real subprocess, its printed lines vs the model's rendering
    cli_problems, cli_fail = [], []
    cli_srcs = api_srcs[:60] + api_srcs[-(20 if quick else 200):]
    cli_cases = []
    for pat in ["{{f}}({{x}})", "{{x}} = {{y}}", "{{a}} + {{b}}"]:
        res, texts, badlines, rc, err = run_cli(wd, pat, cli_srcs, mods["pattern_matching"])
        if badlines:
            cli_problems.append({"pattern": pat, "returncode": rc, "unparsed_lines": badlines[:3], "stderr": err})
        if rc != 0:
            cli_fail.append({"pattern": pat, "source": cli_srcs[0], "site": "pattern_matching.main",
                             "problem": f"`python -m pyrefact.pattern_matching find {pat!r} <dir>` exits {rc}: {err[-300:]}"})
            continue
        for i, text in enumerate(texts):
            o = obs_api(mods, pat, text)
            if o is None or o.get("crash"):
                continue
            # the in-process wrappers give the spans; the printed fields come from the subprocess
            printed = res[i]
            if len(printed) != len(o["spans"]):
                cli_fail.append({"pattern": pat, "source": text, "site": "pattern_matching.main",
                                 "problem": f"`find` printed {len(printed)} lines {printed[:3]} for {len(o['spans'])} matches "
                                            f"{o['spans'][:3]}"})
                continue
            # property oracle for "the command-line finder prints these same locations"
            for (pl, pc, ptxt), (ml, mc), mstr in zip(printed, o["linecol"], o["strings"]):
                if (pl, pc) != (ml, mc) or not mstr.startswith(ptxt):
                    cli_fail.append({"pattern": pat, "source": text, "site": "pattern_matching.main",
                                     "problem": f"`find` printed {pl}:{pc}: {ptxt!r} for the match at {ml}:{mc} ({mstr!r})"})
            o = dict(o, cli=printed)
            cli_cases.append(o)
    # the `replace` sub-command (thin glue around sub(), C14's subject): files end up as sub() says
    rep_problem = run_cli_replace(wd, mods, "{{f}}({{x}})", "{{f}}({{x}}, 1)", api_srcs[:40] + api_family()[-6:])
    if rep_problem:
        cli_problems.append(rep_problem)
    hist["cli_replace_files"] = 46
    for k in range(0, len(cli_cases), 250):
        shard = cli_cases[k:k + 250]
        add_file(f"cli_{k // 250}.v", HEADER + "Definition cases : list api_case := [\n "
                 + ";\n ".join(api_case_coq(o) for o in shard)
                 + "\n].\nEval vm_compute in (bad_idx api_case_ok cases).\n", "cli", shard)
    hist["cli_files"] = len(cli_cases)
    hist["cli_printed_lines"] = sum(len(o["cli"]) for o in cli_cases)
    evaluations += hist["cli_printed_lines"]
    common.log(f"[c13] cli done {round(_t.time() - t0, 1)}s")

    # ---- 8. has_ignore_comment (the tokenizer's verdict `coms` is an input of the model, computed here from CPython)
    ign = []
    for s in ign_cases(rnd, 150 if quick else 3000):
        rs = ign_ranges(s)
        coms = ign_coms(s)
        plines = core.split_lines(s)
        ign.append((s, coms, [len(l) for l in plines], [(r, bool(core.has_ignore_comment(s, core.Range(*r)))) for r in rs]))
        hist["ignore_true"] += sum(v for _, v in ign[-1][3])
        hist["ignore_untokenizable"] += coms is None
        hist["ignore_marker_not_comment"] += coms is not None and sum(bool(IGN_DOC_RE.search(l)) for l in plines) > len(coms)
        hist["ignore_splitlines_differs"] += plines != s.splitlines(keepends=True)
        evaluations += len(rs)
    for k in range(0, len(ign), 200):
        shard = ign[k:k + 200]
        add_file(f"ign_{k // 200}.v", HEADER + "Definition n (x : N) : nat := N.to_nat x.\nDefinition cases : list ign_case := [\n "
                 + ";\n ".join("(" + gn(s) + ", " + gopt(coms, lambda cs: glist(cs, lambda c: f"n {c}")) + ", " + glist(lens, gz) + ", "
                                + glist(rs, lambda x: f"({gpair(x[0])}, {gbool(x[1])})") + ")" for s, coms, lens, rs in shard)
                 + "\n].\nEval vm_compute in (bad_idx ign_case_ok cases).\n", "ign",
                 [{"source": s, "tokenizer_comment_lines": coms} for s, coms, _, _ in shard])
    hist["ignore_strings"] = len(ign)

    # ---- run the model
    results = run_case_files(files)
    common.log(f"[c13] coq cases done {round(_t.time() - t0, 1)}s ({len(files)} files)")
    disagreements = []
    for p in files:
        rc, out = results[p]
        idx = common.parse_nat_list(out) if rc == 0 else None
        kind, payload = decode[p]
        if idx is None:
            disagreements.append({"kind": "eval-failed", "file": p.name, "log": out[-1500:]})
            continue
        for i in idx:
            item = payload[i] if i < len(payload) else "?"
            if kind == "api" or kind == "cli":
                item = {k: item[k] for k in ("pattern", "source", "spans", "body", "findall", "search", "match", "fullmatch", "cli")}
            disagreements.append({"kind": kind, "file": p.name, "index": i, "case": item})

    # ---- a digest block that differs is re-run with explicit cases to name the disagreeing input
    refine_files, refine_decode = [], {}
    for d in [x for x in disagreements if x["kind"] in ("strdig", "griddig")][:3]:
        pfx = d["case"]
        if d["kind"] == "strdig":
            strings = [pfx + "".join(t) for t in itertools.product(STR_ALPHABET, repeat=2)]
            pth = wd / f"refine_{len(refine_files)}.v"
            pth.write_text(HEADER + "Definition cases : list str_case := [\n "
                           + ";\n ".join(str_case_coq(x, obs_string(core, x)) for x in strings)
                           + "\n].\nEval vm_compute in (bad_idx str_case_ok cases).\n")
            refine_decode[pth] = ("str", strings)
        else:
            k = min(int(d["file"].split("_")[1]), 2)      # grid_<L>_<i>.v enumerates tails of length min(L, 2)
            strings = [pfx + "".join(t) for t in itertools.product(GRID_ALPHABET, repeat=k)]
            body = []
            for x in strings:
                obs = [obs_node(core, x, fake_node(decs, a, isd)) for decs, isd in GRID_VARIANTS for a in GRID_ATTRS]
                body.append(src_case_coq(x, obs))
            pth = wd / f"refine_{len(refine_files)}.v"
            pth.write_text(HEADER + "Definition cases : list src_case := [\n " + ";\n ".join(body)
                           + "\n].\nEval vm_compute in (bad_idx src_case_ok cases).\n")
            refine_decode[pth] = ("grid", strings)
        refine_files.append(pth)
    if refine_files:
        for pth, (rc, out) in run_case_files(refine_files).items():
            idx = common.parse_nat_list(out) if rc == 0 else None
            kind, strings = refine_decode[pth]
            for i in (idx or [])[:3]:
                disagreements.insert(0, {"kind": kind + "-refined", "file": pth.name, "index": i, "case": strings[i],
                                         "impl": repr(obs_string(core, strings[i])) if kind == "str" else "get_charnos grid"})

    # ---- deterministic falsification sweep with the property's own oracle
    kf = common.load_findings(PID)
    sweep = sweep_sources(250 if quick else 2500)
    sweep_fail, sweep_known = [], Counter()
    known_examples = {}
    n_sweep_nodes = 0
    for s in [c["source"] for c in corpus if "source" in c and not c.get("api_only")] + sweep:
        for f in node_failures(core, s, limit=50):
            m = match_finding(kf, f)
            if m is None:
                sweep_fail.append(f)
            else:
                sweep_known[m.id] += 1
                known_examples.setdefault(m.id, f)
    api_fail = list(api_crash)
    det_srcs = set(api_srcs[:len(api_family()) + len(corpus)])
    known_cache = {}
    for o in api_obs:
        if o["source"] in det_srcs:
            if o["source"] not in known_cache:
                known_cache[o["source"]] = {tuple(f["got_span"]) for f in node_failures(core, o["source"], limit=50)
                                            if match_finding(kf, f)}
            pr = api_oracle(o, known_cache[o["source"]])
            if pr:
                api_fail.append({"pattern": o["pattern"], "source": o["source"], "problem": pr, "site": "pattern_matching"})
    for c in corpus:   # witnesses of `fixed:` entries must pass from now on
        if c.get("expect_findall") is not None:
            try:
                with common.quiet():
                    got = mods["pattern_matching"].findall(c["pattern"], c["source"])
            except Exception as e:  # noqa
                got = f"raised {type(e).__name__}: {e}"
            if got != c["expect_findall"]:
                api_fail.append({"pattern": c["pattern"], "source": c["source"], "site": "pattern_matching",
                                 "problem": f"fixed witness {c['file']} fails again: findall = {got!r}, expected {c['expect_findall']!r}"})
        if c.get("expect_format_code_ok"):
            try:
                with common.quiet():
                    mods["main"].format_code(c["source"])
            except Exception as e:  # noqa
                api_fail.append({"source": c["source"], "site": "main.format_code",
                                 "problem": f"fixed witness {c['file']} fails again: {type(e).__name__}: {e}"})

    # ---- known findings: re-run the stored witnesses
    for f in kf:
        if f.kind != "finding":
            continue
        wit = [c for c in corpus if c.get("finding") == f.id]
        still = []
        for c in wit:
            still += [x for x in node_failures(core, c["source"], limit=50) if match_finding([f], x)]
        n = sweep_known.get(f.id, 0)
        if still or n:
            ex = (still or [known_examples[f.id]])[0]
            run.known_finding(f.id, f"{f.text} [witness {ex['source']!r}: node text {ex['node_text']!r} expected span "
                                    f"{ex['expected_span']} got {ex['got_span']}; {n} instances in the sweep]")
        else:
            common.log(f"note: known finding {f.id} no longer reproduces")

    # ---- verdicts
    failing = sweep_fail + api_fail + cli_fail[:2]
    if (disagreements or cli_problems or IMPL_EXC or (ps.get("props") and not ps["props"]["ok"])) and not failing:
        # failing-input search: seeded random sources through the property oracle
        srnd = random.Random(run.seed + 7919)
        for _ in range(600):
            s = gen_source(srnd)
            fs = [f for f in node_failures(core, s) if match_finding(kf, f) is None]
            if fs:
                failing += fs[:1]
                break
        if not failing:
            for s in [gen_source(srnd) for _ in range(60)] + api_family():
                known = {tuple(f["got_span"]) for f in node_failures(core, s, limit=50) if match_finding(kf, f)}
                for pat in PATTERNS:
                    o = obs_api(mods, pat, s)
                    pr = api_oracle(o, known) if o else None
                    if pr:
                        failing.append({"pattern": pattern_name(pat), "source": s, "problem": pr, "site": "pattern_matching"})
                        break
                if failing:
                    break
    for f in failing[:5]:
        run.violation({"kind": "property-oracle", **f,
                       "explanation": "a reported span / Match / wrapper result is not what the property requires "
                                      "(oracle: UTF-8 bytes + tokenizer lines, independent of pyrefact)"}, True)
    if IMPL_EXC and not failing:
        run.violation({"kind": "correspondence", "kernel": "K3", "detail": {"implementation_raised": IMPL_EXC[:8]},
                       "explanation": "an observed implementation function raised something else than IndexError"}, False)
    if not failing:
        for d in disagreements[:5]:
            run.violation({"kind": "correspondence", "kernel": "K3", "detail": d,
                           "explanation": "SpanModel.v and the implementation disagree; the property oracle found no "
                                          "failing input on the sweep, the API family and 600 seeded sources"}, False)
        for c in cli_problems[:3]:
            run.violation({"kind": "correspondence", "kernel": "K3-cli", "detail": c,
                           "explanation": "the command-line finder's output does not line up with finditer"}, False)
    if ps.get("props") and not ps["props"]["ok"]:
        pr = ps["props"]
        run.violation({"kind": "proof", "file": pr["file"], "broken": pr.get("broken"), "log": pr["log"],
                       "explanation": "a property theorem no longer checks"}, bool(failing))

    samples = [repr(small[5]), repr(small[-1])] + [repr(cases[i][1])[:300] for i in (0, len(cases) // 2, len(cases) - 1)]
    samples += [f"{o['pattern']!r} on {o['source']!r}" for o in api_obs[3:4] + api_obs[-1:]]
    run.coverage.update(
        evaluations=evaluations, distinct_nontrivial=len(distinct),
        rule=("line/offset functions: ALL strings of length <= " + ("5" if quick else "6") + " over the 9 symbols "
              "a,space,LF,CR,FF,NEL,e-acute,CJK,emoji (explicit cases up to length 3, 40-bit block digests of an in-Coq "
              "enumeration above): line table, str.splitlines, Match line/col for every offset -1..len+1, _get_charno for "
              "every line 0..n+1 and byte column -1..len+1.  get_charnos: ALL strings of length <= "
              + ("3" if quick else "4") + " over a,space,@,LF,e-acute,( x 5 decorator variants x 91 attribute tuples x "
              "keep_first_indent.  Generated modules: every node of ast.walk, both keep_first_indent values, "
              "Match.lineno/col_offset/string, reference location of the true offsets.  API: deterministic "
              "statement-pair family + generated modules x 10 patterns.  Non-trivial = a node span with start < end "
              "(distinct by source and span) or a (pattern, source) pair with at least one match."),
        samples=samples, exhaustive=False, exhaustive_strings=n_str_exh, exhaustive_grid_strings=n_grid,
        histogram=dict(hist), correspondence_disagreements=len(disagreements), cli_problems=len(cli_problems),
        api_cases_skipped_matcher_exception=api_skipped,
        sweep={"sources": len(sweep), "seed": SWEEP_SEED, "failures_unmatched": len(sweep_fail),
               "failures_matching_known_findings": dict(sweep_known), "api_family_failures": len(api_fail)},
        unmodelled=["processing.find_replace / the matcher (C12): the wrappers are modelled over the list of spans it yields",
                    "ast.parse positions (CPython): tok_loc is their reference definition, validated on every node",
                    "pattern_matching.sub/subn (C14)", "the file walk and argument parsing of the command-line tool",
                    "the CPython tokenizer inside core.has_ignore_comment (_ignore_comment_linenos): its verdict (lines with a "
                    "matching COMMENT token, or 'tokenize raised') is an input of the model, recomputed by harness/c13.py::ign_coms"],
        trusted_base=common.TRUSTED_BASE_COMMON + [
            "harness/c13.py: node -> (decorator positions, attributes, is_def) reader, fake-node builder, digest mirror "
            "(dg/str_obs/grid_obs are re-implemented in Python; a mismatch in either direction is reported)",
            "tok_loc/tok_pos (CPython's line/utf-8 column of an offset) is a definition, validated on every generated node",
            "oracle: UTF-8 byte slicing with tokenizer lines + tokenize for the '@' of a decorated definition"],
    )
    run.assumptions += [
        "source text contains no lone surrogates and no NUL (CPython cannot parse such sources)",
        "matched nodes carry positions (stmt/expr/... as produced by compile_template); position-less nodes get (0, 0)",
        "the list of matches itself (which nodes match) is C12's subject; C13 takes it as given",
        "block digests are 40-bit: a wrong model/implementation pair escapes a block with probability ~2^-40"]


def replay(path: str) -> int:
    data = json.loads(Path(path).read_text())
    mods = common.import_impl()
    print(json.dumps({k: data[k] for k in data if k in ("kind", "explanation", "site", "source", "pattern", "problem",
                                                         "node", "node_text", "expected_span", "got_span", "detail")},
                     indent=1, default=str)[:4000])
    if data.get("kind") == "property-oracle" and "source" in data:
        if data.get("site") == "core.get_charnos":
            print("now:", node_failures(mods["core"], data["source"]))
        elif "pattern" in data:
            pats = {pattern_name(p): p for p in PATTERNS}
            o = obs_api(mods, pats.get(data["pattern"], data["pattern"]), data["source"])
            print("now:", api_oracle(o) if o else "finditer raises")
    return 0
