"""C15 round 5 -- call HISTORIES (seed C15-d: literal_value memoised across files by ast.dump(expression)).

core.literal_value is a function of (expression, set of names the file rebinds): the per-file rebinding guard
(core._REBOUND_NAMES, repair 415ff77 / F15-16) is part of its input, whatever was evaluated earlier in the same
process is not.  The stateless oracles of harness/c15.py evaluate every expression on its own, so state that survives
from one source to the next is invisible to them.  Here every builtin the evaluator calls by name (the LIVE
constants.PURE_BUILTIN_FUNCTIONS of the tree under test) is put into a pair of sources with the same layout

    P  the name is NOT rebound (the binding construct binds an unrelated name)
    R  the name IS rebound (def / assignment / import-as / global / parameter / class body / for target)

and both orders  P then R  and  R then P  are run, each order in ONE freshly forked process (a *history*); every
history has its own process, the forking parent never evaluates anything.  A step is core.literal_value on the
expression node of the source as core.parse delivers it, one of the consumer rules, or format_code.  Oracles:
 * each step by itself: the value literal_value returns is the value CPython computes for that expression AT THAT
   PLACE OF THAT SOURCE (the source is executed with the expression wrapped in a recording probe); a rule's output
   behaves like its input (stdout + exception class);
 * history independence: a step gives the same result when its source is the second one of the process as when it
   is the first one (a fresh process);
 * model: every literal_value step is one case (rebound set, expression, result) for LitValRbModel.lv_rb.
Everything here is input generation + the process runner; verdict logic is in harness/c15.py."""
from __future__ import annotations

import ast
import os
import select
import signal
import sys
import time

from . import c15_worker

# name -> [(argument text, truth value of the builtin's result, source text of that result or None)]
CALLS = {
    "abs": [("-3", True, "3")], "all": [("(1, 0)", False, "False")], "any": [("(1, 0)", True, "True")],
    "ascii": [("'a'", True, '"\'a\'"')], "bin": [("5", True, "'0b101'")],
    "bool": [("0", False, "False"), ("1", True, "True")], "bytes": [("2", True, None)], "chr": [("97", True, "'a'")],
    "complex": [("0", False, None)], "dict": [("()", False, None)], "divmod": [("7, 2", True, "(3, 1)")],
    "enumerate": [("'ab'", True, None)], "float": [("'0'", False, None)], "format": [("5, 'x'", True, "'5'")],
    "frozenset": [("()", False, None)], "hex": [("255", True, "'0xff'")], "int": [("'5'", True, "5")],
    "len": [("'abc'", True, "3"), ("''", False, "0")], "list": [("()", False, "[]")],
    "max": [("(0, 0)", False, "0"), ("1, 2", True, "2")], "min": [("(1, 2)", True, "1")], "oct": [("8", True, "'0o10'")],
    "ord": [("'a'", True, "97")], "pow": [("2, 3", True, "8")], "range": [("0", False, None)],
    "repr": [("1", True, "'1'")], "reversed": [("()", True, None)], "round": [("1", True, "1")],
    "set": [("()", False, None), ("", False, None)], "slice": [("1", True, None)], "sorted": [("()", False, "[]")],
    "str": [("''", False, "''")], "sum": [("(1, 2)", True, "3")], "tuple": [("'a'", True, "('a',)")],
    "zip": [("()", True, None)],
}
OTHER = "_c15_unrelated"
KINDS = ["def", "assign", "import", "global", "for", "param", "class"]
TOP_SHAPES = ["if", "ifexp", "and", "while"]
RULES = ["remove_dead_ifs", "delete_unreachable_code", "remove_redundant_boolop_values", "simplify_boolean_expressions"]


def _prelude(kind: str, name: str, ret: str) -> str:
    if kind == "def":
        return f"def {name}(*a):\n    return {ret}\n"
    if kind == "assign":
        return f"{name} = lambda *a: {ret}\n"
    if kind == "import":
        return f"from operator import not_ as {name}\n"
    if kind == "global":
        return f"def _set():\n    global {name}\n    {name} = lambda *a: {ret}\n_set()\n"
    if kind == "for":
        return f"for {name} in (lambda *a: {ret},):\n    pass\n"
    raise ValueError(kind)


def source(kind: str, name: str, expr: str, shape: str, ret: str) -> str:
    """a program in which `name` is bound the `kind` way and `expr` is a condition (shape)"""
    if kind == "param":
        return (f"def g({name}):\n    if {expr}:\n        return 'T'\n    return 'F'\n"
                f"print(g(lambda *a: {ret}))\n")
    if kind == "class":
        return (f"class K:\n    def {name}(*a):\n        return {ret}\n    if {expr}:\n        v = 'T'\n"
                f"    else:\n        v = 'F'\nprint(K.v)\n")
    pre = _prelude(kind, name, ret)
    if shape == "if":
        return pre + f"if {expr}:\n    print('T')\nelse:\n    print('F')\n"
    if shape == "ifexp":
        return pre + f"print(1 if {expr} else 2)\n"
    if shape == "and":
        return pre + f"def f():\n    print('f')\n    return 7\nprint({expr} and f())\n"
    if shape == "while":
        return pre + f"while {expr}:\n    print('T')\n    break\nprint(3)\n"
    raise ValueError(shape)


def expression_forms(name: str, args: str, value: str | None) -> list:
    call = f"{name}({args})"
    forms = [call, f"not {call}"]
    if value is not None:
        forms.append(f"{call} == {value}")
    return forms


def bound_names(src: str) -> set:
    """the names a source binds anywhere (Python's binding constructs); '*' = a star import"""
    bound = set()
    for n in ast.walk(ast.parse(src)):
        if isinstance(n, ast.Name) and not isinstance(n.ctx, ast.Load):
            bound.add(n.id)
        elif isinstance(n, (ast.FunctionDef, ast.AsyncFunctionDef, ast.ClassDef)):
            bound.add(n.name)
        elif isinstance(n, ast.arg):
            bound.add(n.arg)
        elif isinstance(n, ast.alias):
            bound.add((n.asname or n.name).split(".")[0])
        elif isinstance(n, (ast.Global, ast.Nonlocal)):
            bound.update(n.names)
        elif isinstance(n, ast.ExceptHandler) and n.name:
            bound.add(n.name)
        elif isinstance(n, (ast.MatchAs, ast.MatchStar)) and n.name:
            bound.add(n.name)
        elif isinstance(n, ast.MatchMapping) and n.rest:
            bound.add(n.rest)
    return bound


def pairs(pure_names, quick: bool):
    """-> list of dict(name, kind, call, P=[steps], R=[steps]); steps on one source: literal_value on every form (in the
    `if` shape), every consumer rule on every shape, format_code on the `if` shape.
    quick: format_code and the non-`if` shapes only for a deterministic third of the (call, kind) pairs."""
    out, uncovered = [], []
    k = 0
    for name in sorted(pure_names):
        if name not in CALLS:
            uncovered.append(name)
            continue
        for args, truth, value in CALLS[name]:
            ret = "0" if truth else "1"
            forms = expression_forms(name, args, value)
            for kind in KINDS:
                k += 1
                full = (not quick) or k % 3 == 0
                item = {"name": name, "kind": kind, "call": forms[0]}
                for tag, bind in (("P", OTHER), ("R", name)):
                    steps = []
                    for e in forms:
                        steps.append({"a": "lv", "src": source(kind, bind, e, "if", ret), "expr": e, "on": tag})
                    shapes = ["if"] if kind in ("param", "class") else (TOP_SHAPES if full else ["if"])
                    for shape in shapes:
                        src = source(kind, bind, forms[0], shape, ret)
                        for rule in RULES:
                            steps.append({"a": "rule", "rule": rule, "src": src, "on": tag})
                    if full or kind in ("def", "import"):
                        steps.append({"a": "rule", "rule": "format_code", "src": source(kind, bind, forms[0], "if", ret),
                                      "on": tag})
                    item[tag] = steps
                out.append(item)
    return out, uncovered


# ---- the step function (runs inside the history's own process) -------------------------------------------------


def _python_value(src: str, want: str, C):
    """what CPython computes for the first expression of `src` whose dump is `want`, where it stands"""
    tree = ast.parse(src)
    target = next((n for n in ast.walk(tree) if isinstance(n, ast.expr) and ast.dump(n) == want), None)
    if target is None:
        return ["notfound"]

    class Wrap(ast.NodeTransformer):
        def visit(self, n):
            if n is target:
                return ast.Call(func=ast.Name(id="__c15_probe__", ctx=ast.Load()), args=[n], keywords=[])
            return self.generic_visit(n)
    code = compile(ast.fix_missing_locations(Wrap().visit(tree)), "<history>", "exec")
    seen = []

    def probe(v):
        if not seen:
            seen.append(v)
        return v
    signal.setitimer(signal.ITIMER_REAL, c15_worker.JOB_TIMEOUT)
    try:
        exec(code, {"__name__": "__main__", "__c15_probe__": probe})
        exc = None
    except c15_worker._Timeout:
        return ["hang"]
    except BaseException as e:  # noqa
        exc = type(e).__name__
    finally:
        signal.setitimer(signal.ITIMER_REAL, 0)
    if seen:
        return ["known", C.enc(seen[0]), C.canon(seen[0])]
    return ["crash", exc] if exc else ["notreached"]


def make_step_job(mods):
    from . import c15 as C
    prog = C.make_program_job(mods)
    core = mods["core"]

    def job(step, out):
        if step["a"] == "rule":
            return prog((step["rule"], step["src"]), out)
        want = ast.dump(ast.parse(step["expr"], mode="eval").body)
        root = core.parse(step["src"])          # the tree as the rules get it (per-file marks included)
        node = next((n for n in ast.walk(root) if isinstance(n, ast.expr) and ast.dump(n) == want), None)
        if node is None:
            return {"worker_error": "expression not found in its source"}
        res = {"lv": C._timed(lambda: core.literal_value(node)), "lv_out": out.getvalue()[:200]}
        out.seek(0)
        out.truncate()
        res["py"] = _python_value(step["src"], want, C)
        return res
    return job


# ---- one process per history -----------------------------------------------------------------------------------


def run_histories(hists: list, fn, nproc: int, scratch: str, timeout: float = 120.0) -> list:
    """hists: list of step lists.  Every history runs in its OWN child forked from this (never evaluating) process,
    steps in order.  -> list of result lists (None for a step that was not reached / whose process was killed)."""
    results = [[None] * len(h) for h in hists]
    todo = list(range(len(hists)))[::-1]
    active = {}
    while todo or active:
        while todo and len(active) < nproc:
            h = todo.pop()
            r, w = os.pipe()
            sys.stdout.flush()
            sys.stderr.flush()
            pid = os.fork()
            if pid == 0:
                os.close(r)
                try:
                    c15_worker._child(list(enumerate(hists[h])), fn, w, scratch)
                finally:
                    os._exit(1)
            os.close(w)
            active[r] = {"pid": pid, "h": h, "buf": b"", "start": time.time()}
        ready, _, _ = select.select(list(active), [], [], 1.0)
        now = time.time()
        for r in list(active):
            st = active[r]
            if r in ready:
                data = os.read(r, 1 << 16)
                if data:
                    st["buf"] += data
                    *lines, st["buf"] = st["buf"].split(b"\n")
                    for ln in lines:
                        if ln.startswith(b"R "):
                            import json
                            idx, res = json.loads(ln[2:])
                            results[st["h"]][idx] = res
                    continue
                os.close(r)
                os.waitpid(st["pid"], 0)
                del active[r]
            elif now - st["start"] > timeout:
                try:
                    os.kill(st["pid"], signal.SIGKILL)
                except ProcessLookupError:
                    pass
                os.close(r)
                os.waitpid(st["pid"], 0)
                del active[r]
    return results


def run_histories_retry(hists, fn, nproc, scratch, suspect) -> list:
    """run_histories; a history with a step that looks like a timeout / dead worker is run once more with 6x the time
    limits (a loaded machine must not turn into an alarm)"""
    results = run_histories(hists, fn, nproc, scratch)
    again = [i for i, rs in enumerate(results) if any(r is None or suspect(r) for r in rs)]
    if again and len(again) <= 30:
        old = c15_worker.JOB_TIMEOUT
        c15_worker.JOB_TIMEOUT = 6 * old
        try:
            redo = run_histories([hists[i] for i in again], fn, min(4, nproc), scratch, timeout=600.0)
        finally:
            c15_worker.JOB_TIMEOUT = old
        for i, rs in zip(again, redo):
            results[i] = rs
    return results
