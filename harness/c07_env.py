"""C07 round 5 -- the public surface as the FINAL ENVIRONMENT of the module body (seed C07-d).

* `rebind_family()`: seed-independent family "public name X bound by statement kind A, later re-declared /
  re-bound / unbound by statement kind B" (pairs, triples through del / bare annotation / `except .. as X`),
  at module scope and in a class body.
* `exec_env` / `exec_oracle`: the execution-based reading of the property: the original must import cleanly;
  the result must import cleanly and `getattr(module, X)` must give the same kind of object for every public X
  the original still has at the end of its body (same for `Class.member`).
* `stmt_events` / `t_body`: Python statements -> SurfaceEnvModel events (None = outside the modelled fragment).
All oracles here are harness code; nothing is taken from the seed's demo."""
from __future__ import annotations

import ast
import types

from . import common, k10
from .common import glist, gopt
from .k10 import gname, gnames

HEADER = k10.HEADER.replace("Pyrefact.SurfaceModel.", "Pyrefact.SurfaceModel Pyrefact.SurfaceEnvModel.")

# ---------------------------------------------------------------------------------------------
# statement kinds: text binding / re-declaring / unbinding the name X.  Every kind leaves an object of a
# different type so that "same kind of object" tells the last reaching binding from an earlier one.

KINDS = {
    "assign":    "X = 1\n",
    "annv":      "X: float = 2.5\n",
    "ann":       "X: int\n",
    "aug":       "X += 1\n",
    "del":       "del X\n",
    "def":       "def X():\n    return 'f'\n",
    "class":     "class X:\n    pass\n",
    "import":    "import os.path as X\n",
    "for":       "for X in ('a', 'b'):\n    pass\n",
    "with":      "with memoryview(b'w') as X:\n    pass\n",
    "walrus":    "(X := [3])\n",
    "global":    "def set_x():\n    global X\n    X = {5}\nset_x()\n",
    "tryassign": "try:\n    X = (7,)\nexcept Exception:\n    X = None\n",
    "exceptas":  "try:\n    raise KeyError('k')\nexcept KeyError as X:\n    pass\n",
}
BINDERS = [k for k in KINDS if k not in ("ann", "aug", "del", "exceptas")]
MIDDLES = ["del", "ann", "exceptas"]
NOT_IN_CLASS = {"global"}


def _indent(text: str) -> str:
    return "".join("    " + l + "\n" for l in text.splitlines())


def rebind_family(quick=True):
    """[(tag, source)]: deterministic.  Sources that do not import cleanly are generated on purpose (they
    validate the reference semantics: NameError <-> run = None) and do not count for the property."""
    out = []
    kinds = list(KINDS)
    for a in kinds:
        for b in kinds:
            src = KINDS[a] + KINDS[b]
            out.append((f"pair:{a}:{b}", src))
            out.append((f"pair+read:{a}:{b}", src + "print(X)\n"))
            out.append((f"pair+other:{a}:{b}", src + "OTHER = 'o'\n"))
            if a not in NOT_IN_CLASS and b not in NOT_IN_CLASS:
                out.append((f"class-pair:{a}:{b}", "class Holder:\n" + _indent(src)))
    for a in BINDERS:
        for m in MIDDLES:
            for b in kinds:
                src = KINDS[a] + KINDS[m] + KINDS[b]
                out.append((f"triple:{a}:{m}:{b}", src))
                if not quick and a not in NOT_IN_CLASS and b not in NOT_IN_CLASS:
                    out.append((f"class-triple:{a}:{m}:{b}", "class Holder:\n" + _indent(src)))
    # two names interleaved: the re-declaration of one must not cost the other
    for m in MIDDLES:
        for b in ("assign", "def", "annv"):
            out.append((f"two:{m}:{b}", "X = 1\nY = 'y'\n" + KINDS[m] + KINDS[m].replace("X", "Y") +
                        KINDS[b] + "Z = 3\n"))
    return out


WITNESSES = [       # minimal inputs of seed C07-d's shapes; they run first
    ("witness:late-annotation", "X = 1\nX: int\n"),
    ("witness:del-rebind", "X = 1\ndel X\nX = 2\n"),
]

# ---------------------------------------------------------------------------------------------
# execution-based oracle


def _kind(v) -> str:
    if isinstance(v, types.FunctionType):
        return "function"
    if isinstance(v, type):
        return "class"
    if isinstance(v, types.ModuleType):
        return "module"
    return "value:" + type(v).__name__


_HIDDEN = ("__name__", "__builtins__", "__annotations__", "__conditional_annotations__")
_CLS_HIDDEN = ("__module__", "__dict__", "__weakref__", "__doc__", "__qualname__", "__firstlineno__",
               "__static_attributes__", "__annotations__", "__annotate_func__", "__annotate__",
               "__conditional_annotations__")


def exec_env(source: str):
    """run the module in a fresh namespace.  ("ok", {name: kind}, {(cls, member): kind}) or
    ("raise", exception type name, None)"""
    env = {"__name__": "surface_env_probe"}
    try:
        with common.quiet():
            exec(compile(source, "<m>", "exec"), env)
    except BaseException as e:  # noqa -- also SystemExit of a generated statement
        return "raise", type(e).__name__, None
    top = {k: _kind(v) for k, v in env.items() if k not in _HIDDEN}
    mem = {}
    for k, v in env.items():
        if isinstance(v, type) and v.__module__ == "surface_env_probe" and v.__qualname__ == k:
            for a, mv in vars(v).items():
                if a not in _CLS_HIDDEN:
                    mem[(k, a)] = _kind(mv)
    return "ok", top, mem


def _last_binder_is_surface(body, name) -> bool:
    last = None
    for st in body:
        if name in k10._scope_bound([st]):
            last = st
    return last is not None and name in k10.body_surface([last])


def exec_compare(source: str, output: str):
    """None (kept / the original does not count) or a failure record"""
    st, top, mem = exec_env(source)
    if st != "ok":
        return None
    try:
        s_top, s_mem = k10.surface(source)
    except SyntaxError:
        return None
    want_top = {n: k for n, k in top.items() if n in s_top}
    want_mem = {p: k for p, k in mem.items() if p in s_mem and p[0] in s_top}
    # the KIND is asked for only where the last statement binding the name is one of the property's surface
    # statements (def / class / assignment); when an import, loop, with or nested statement binds it last, that
    # binding is not part of the surface (unused imports go in safe mode too) and the name must merely stay defined
    tree = ast.parse(source)
    kind_top = {n for n in want_top if _last_binder_is_surface(tree.body, n)}
    kind_mem = {(c, a) for (c, a) in want_mem
                for cls in [[x for x in tree.body if isinstance(x, ast.ClassDef) and x.name == c]]
                if cls and _last_binder_is_surface(cls[-1].body, a)}
    if not want_top and not want_mem:
        return None
    try:
        ast.parse(output)
    except SyntaxError:
        return None                                     # C04's business
    st2, top2, mem2 = exec_env(output)
    if st2 != "ok":
        return {"import_fails": top2, "lost_top": sorted(want_top), "lost_members": [list(p) for p in sorted(want_mem)],
                "changed_kind": []}
    lost_top = sorted(n for n in want_top if n not in top2)
    lost_mem = sorted(p for p in want_mem if p not in mem2)
    changed = sorted([n, want_top[n], top2[n]] for n in kind_top if n in top2 and top2[n] != want_top[n])
    changed += sorted([".".join(p), want_mem[p], mem2[p]] for p in kind_mem if p in mem2 and mem2[p] != want_mem[p])
    if not lost_top and not lost_mem and not changed:
        return None
    return {"import_fails": None, "lost_top": lost_top, "lost_members": [list(p) for p in lost_mem],
            "changed_kind": changed}


def exec_oracle(mods, tag, source, runner, how):
    """runner(source) -> output text; returns None or a failure record shaped like c07.oracle_case's"""
    try:
        out = runner(source)
    except Exception:  # noqa  (a raising rule is C04's business; the correspondence reports it on its domain)
        return None
    if not isinstance(out, str) or out == source:
        return None
    bad = exec_compare(source, out)
    if bad is None:
        return None
    return {"source": source, "output": out, "family": tag, "how": how, "oracle": "exec", **bad}


def bisect_exec(mods, source, **kw):
    """first pipeline stage whose output no longer passes the execution oracle against the ORIGINAL input"""
    return k10.bisect_pipeline(mods, lambda: mods["main"].format_code(source, **kw),
                               lambda s: exec_compare(source, s) is not None)


# ---------------------------------------------------------------------------------------------
# Python statements -> events of SurfaceEnvModel (straight-line fragment of the family)


class Unmodelled(Exception):
    pass


def _names(t):
    return [n.id for n in ast.walk(t) if isinstance(n, ast.Name) and isinstance(n.ctx, ast.Store)]


def _walrus(expr):
    return [("EBind", n.target.id) for n in ast.walk(expr) if isinstance(n, ast.NamedExpr)]


def _plain(expr) -> bool:
    """an expression whose evaluation binds nothing and reads no name the events speak about: constants and
    containers of constants, calls of builtins on them"""
    for n in ast.walk(expr):
        if isinstance(n, (ast.NamedExpr, ast.Lambda, ast.Await, ast.Yield, ast.YieldFrom)):
            return False
    return True


def stmt_events(node, funcs) -> list:
    """events of ONE top-level (or class-body) statement; `funcs` = {name: FunctionDef} defined so far and not
    re-bound since.  Raises Unmodelled outside the fragment."""
    if isinstance(node, (ast.FunctionDef, ast.AsyncFunctionDef, ast.ClassDef)):
        if node.decorator_list:
            raise Unmodelled("decorator")
        return [("EBind", node.name)]
    if isinstance(node, ast.Assign):
        return _walrus(node.value) + [("EBind", n) for t in node.targets for n in _names(t)]
    if isinstance(node, ast.AnnAssign):
        if not isinstance(node.target, ast.Name):
            raise Unmodelled("annotated non-name")
        if node.value is None:
            return [("EAnn", node.target.id)]
        return _walrus(node.value) + [("EBind", node.target.id)]
    if isinstance(node, ast.AugAssign):
        if not isinstance(node.target, ast.Name):
            raise Unmodelled("augmented non-name")
        return [("ERequire", node.target.id)] + _walrus(node.value) + [("EBind", node.target.id)]
    if isinstance(node, ast.Delete):
        if not all(isinstance(t, ast.Name) for t in node.targets):
            raise Unmodelled("del of non-name")
        return [("EUnbind", t.id) for t in node.targets]
    if isinstance(node, ast.Import):
        return [("EBind", (a.asname or a.name).split(".")[0]) for a in node.names]
    if isinstance(node, ast.ImportFrom):
        if any(a.name == "*" for a in node.names):
            raise Unmodelled("star import")
        return [("EBind", a.asname or a.name) for a in node.names]
    if isinstance(node, ast.For):
        if node.orelse or not isinstance(node.iter, (ast.Tuple, ast.List)) or not node.iter.elts \
                or not all(isinstance(e, ast.Constant) for e in node.iter.elts) \
                or not all(isinstance(s, ast.Pass) for s in node.body):
            raise Unmodelled("for")
        return [("EBind", n) for n in _names(node.target)]            # non-empty literal iterable, body `pass`
    if isinstance(node, ast.With):
        if not all(isinstance(s, ast.Pass) for s in node.body):
            raise Unmodelled("with body")
        return [("EBind", n) for it in node.items if it.optional_vars is not None for n in _names(it.optional_vars)]
    if isinstance(node, ast.Expr):
        v = node.value
        if isinstance(v, ast.Call) and isinstance(v.func, ast.Name) and v.func.id in funcs and not v.args:
            body = funcs[v.func.id].body                                # f() with f = `global n; n = const`
            declared = [n for s in body if isinstance(s, ast.Global) for n in s.names]
            evs = []
            for s in body:
                if isinstance(s, ast.Global):
                    continue
                if isinstance(s, ast.Assign) and all(isinstance(t, ast.Name) and t.id in declared for t in s.targets):
                    evs += [("EBind", t.id) for t in s.targets]
                else:
                    raise Unmodelled("called function body")
            return evs
        if isinstance(v, ast.Call) and isinstance(v.func, ast.Name) and v.func.id == "print":
            return [("ERequire", a.id) for a in v.args if isinstance(a, ast.Name)] if \
                all(isinstance(a, (ast.Name, ast.Constant)) for a in v.args) else _raise("print args")
        if isinstance(v, ast.Name):
            return [("ERequire", v.id)]
        if _plain(v) and not any(isinstance(n, ast.Name) for n in ast.walk(v)):
            return []
        evs = _walrus(v)
        if evs and not any(isinstance(n, ast.Name) and isinstance(n.ctx, ast.Load) for n in ast.walk(v)):
            return evs
        raise Unmodelled("expression")
    if isinstance(node, ast.Pass):
        return []
    if isinstance(node, ast.Try):
        if node.finalbody or node.orelse:
            raise Unmodelled("try else/finally")
        if len(node.body) == 1 and isinstance(node.body[0], ast.Raise) and len(node.handlers) == 1 \
                and node.handlers[0].name and all(isinstance(s, ast.Pass) for s in node.handlers[0].body):
            n = node.handlers[0].name                                    # except E as n: bound, then deleted
            return [("EBind", n), ("EUnbind", n)]
        if all(isinstance(s, (ast.Assign, ast.AnnAssign, ast.Pass)) for s in node.body) and \
                all(_plain(s.value) and not any(isinstance(x, ast.Name) and isinstance(x.ctx, ast.Load)
                                                for x in ast.walk(s.value))
                    for s in node.body if isinstance(s, (ast.Assign, ast.AnnAssign)) and s.value is not None):
            return [e for s in node.body for e in stmt_events(s, funcs)]   # a body that cannot raise
        raise Unmodelled("try")
    raise Unmodelled(type(node).__name__)


def _raise(msg):
    raise Unmodelled(msg)


def body_events(stmts):
    """[[event, ...] per statement] or None when a statement is outside the fragment"""
    funcs, out = {}, []
    try:
        for node in stmts:
            evs = stmt_events(node, funcs)
            for kind, n in evs:
                if kind in ("EBind", "EUnbind"):
                    funcs.pop(n, None)
            if isinstance(node, ast.FunctionDef):
                funcs[node.name] = node
            out.append(evs)
    except Unmodelled:
        return None
    return out


def source_events(source: str, in_class: str | None = None):
    try:
        body = ast.parse(source).body
    except SyntaxError:
        return None
    if in_class is not None:
        cls = [n for n in body if isinstance(n, ast.ClassDef) and n.name == in_class]
        if len(cls) != 1 or len(body) != 1 or cls[0].bases or cls[0].decorator_list:
            return None
        body = cls[0].body
    return body_events(body)


def t_body(evs) -> str:
    return glist(evs, lambda s: glist(s, lambda e: f"{e[0]} {gname(e[1])}"))


def event_names(evs):
    return {n for s in evs for _, n in s}


def env_case(source, in_class=None):
    """(Coq term, info) for env_case_ok, or None: reference semantics vs CPython on this source"""
    evs = source_events(source, in_class)
    if evs is None:
        return None
    st, top, mem = exec_env(source)
    if st == "raise":
        if top != "NameError":
            return None
        py = None
    elif in_class is None:
        py = sorted(top)
    else:
        if in_class not in top:
            return None
        py = sorted(a for (c, a) in mem if c == in_class)
    term = f"({t_body(evs)}, {gopt(py, gnames)})"
    return term, ("env", source, in_class, py)


def env_rule_case(P, source, output, how, in_class=None):
    """(Coq term, info) for env_rule_case_ok, or None when either side is outside the fragment"""
    a, b = source_events(source, in_class), source_events(output, in_class)
    if a is None or b is None:
        return None
    P = sorted(n for n in P if k10._IDENT.match(n))
    return f"({gnames(P)}, {t_body(a)}, {t_body(b)})", ("env-rule", how, P, source, output)
