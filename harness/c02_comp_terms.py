"""C02, loop -> comprehension tranche: terms of RulesCompModel.v as Python tuples, printer to Python source
(through `ast` + ast.unparse), reader from `ast`, printer to Gallina, CPython runner with logging stubs.

cx  : ("const", v) ("name", i) ("call", f, [args]) ("bi", "BList", [args]) ("seq", "KList", [elts])
      ("dict", [items]) ("bin", "OAdd", l, r) ("neg", e) ("not", e) ("bool", is_and, [es])
      ("comp", "CList", elt, dval, [gens]) ("gen", tgt, it, [ifs]) ("map", a, body, it)
      ("filter", neg, a, body, it) ("kv", k, v) ("dstar", e)
tgt : ("tname", i) ("ttup", [i, ..])
st  : ("assign", x, e) ("meth", recv, "MAppend", e) ("aug", x, "OAdd", e) ("setitem", x, k, v) ("expr", e)
      ("for", tgt, it, [body], [orelse]) ("if", c, [body], [orelse])
recv: ("rname", x) ("rsub", x, k)
Names: number i < 1000 is printed `v<i>`; 1000 + k is the k-th of a..z, aa, ab, ..  Functions: f<i>."""
from __future__ import annotations

import ast
import collections.abc
import copy
import itertools
import string

from .common import gbool, glist

LETTER0 = 1000
LETTERS = [c for c in string.ascii_lowercase] + ["".join(p) for p in itertools.product(string.ascii_lowercase, repeat=2)]
LETTER_IDX = {s: i for i, s in enumerate(LETTERS)}

BI_TXT = {"BList": "list", "BTuple": "tuple", "BSet": "set", "BDict": "dict", "BIter": "iter", "BSorted": "sorted",
          "BReversed": "reversed", "BSum": "sum", "BLen": "len"}
TXT_BI = {v: k for k, v in BI_TXT.items()}
OP_AST = {"OAdd": ast.Add, "OSub": ast.Sub, "OBitOr": ast.BitOr}
AST_OP = {v: k for k, v in OP_AST.items()}
METH_TXT = {"MAppend": "append", "MAdd": "add", "MExtend": "extend", "MUpdate": "update"}
TXT_METH = {v: k for k, v in METH_TXT.items()}
SK = {"KList": ast.List, "KTuple": ast.Tuple, "KSet": ast.Set}
CK = {"CList": ast.ListComp, "CSet": ast.SetComp, "CGen": ast.GeneratorExp}
DUMMY = ("const", None)


class Unsupported(Exception):
    pass


def C(v):
    return ("const", v)


def N(i):
    return ("name", i)


def name_txt(i: int) -> str:
    return LETTERS[i - LETTER0] if i >= LETTER0 else f"v{i}"


def name_of(s: str) -> int:
    if s in LETTER_IDX:
        return LETTER0 + LETTER_IDX[s]
    if s[0] == "v" and s[1:].isdigit():
        return int(s[1:])
    raise Unsupported("name " + s)


# ---------------------------------------------------------------------------------------------
# term -> ast -> text

def a_tgt(t, ctx):
    if t[0] == "tname":
        return ast.Name(id=name_txt(t[1]), ctx=ctx)
    return ast.Tuple(elts=[ast.Name(id=name_txt(i), ctx=ctx) for i in t[1]], ctx=ctx)


def a_expr(t):
    k = t[0]
    L = ast.Load()
    if k == "const":
        return ast.Constant(value=t[1])
    if k == "name":
        return ast.Name(id=name_txt(t[1]), ctx=L)
    if k == "call":
        return ast.Call(func=ast.Name(id=f"f{t[1]}", ctx=L), args=[a_expr(x) for x in t[2]], keywords=[])
    if k == "bi":
        return ast.Call(func=ast.Name(id=BI_TXT[t[1]], ctx=L), args=[a_expr(x) for x in t[2]], keywords=[])
    if k == "seq":
        if t[1] == "KSet":
            if not t[2]:
                raise Unsupported("empty set display")
            return ast.Set(elts=[a_expr(x) for x in t[2]])
        return SK[t[1]](elts=[a_expr(x) for x in t[2]], ctx=L)
    if k == "dict":
        keys, vals = [], []
        for it in t[1]:
            if it[0] == "kv":
                keys.append(a_expr(it[1]))
                vals.append(a_expr(it[2]))
            elif it[0] == "dstar":
                keys.append(None)
                vals.append(a_expr(it[1]))
            else:
                raise Unsupported("dict item")
        return ast.Dict(keys=keys, values=vals)
    if k == "bin":
        return ast.BinOp(left=a_expr(t[2]), op=OP_AST[t[1]](), right=a_expr(t[3]))
    if k == "neg":
        return ast.UnaryOp(op=ast.USub(), operand=a_expr(t[1]))
    if k == "not":
        return ast.UnaryOp(op=ast.Not(), operand=a_expr(t[1]))
    if k == "bool":
        return ast.BoolOp(op=ast.And() if t[1] else ast.Or(), values=[a_expr(x) for x in t[2]])
    if k == "comp":
        gens = [ast.comprehension(target=a_tgt(g[1], ast.Store()), iter=a_expr(g[2]), ifs=[a_expr(c) for c in g[3]],
                                  is_async=0) for g in t[4]]
        if t[1] == "CDict":
            return ast.DictComp(key=a_expr(t[2]), value=a_expr(t[3]), generators=gens)
        return CK[t[1]](elt=a_expr(t[2]), generators=gens)
    if k in ("map", "filter"):
        if k == "map":
            fn, a, body, it = "map", t[1], t[2], t[3]
        else:
            fn, a, body, it = ("filterfalse" if t[1] else "filter"), t[2], t[3], t[4]
        lam = ast.Lambda(args=ast.arguments(posonlyargs=[], args=[ast.arg(arg=name_txt(a))], kwonlyargs=[],
                                            kw_defaults=[], defaults=[]), body=a_expr(body))
        return ast.Call(func=ast.Name(id=fn, ctx=L), args=[lam, a_expr(it)], keywords=[])
    raise Unsupported(f"expr {k}")


def a_recv(r):
    if r[0] == "rname":
        return ast.Name(id=name_txt(r[1]), ctx=ast.Load())
    return ast.Subscript(value=ast.Name(id=name_txt(r[1]), ctx=ast.Load()), slice=a_expr(r[2]), ctx=ast.Load())


def a_block(l):
    return [a_stmt(s) for s in l] or [ast.Pass()]


def a_stmt(s):
    k = s[0]
    if k == "assign":
        return ast.Assign(targets=[ast.Name(id=name_txt(s[1]), ctx=ast.Store())], value=a_expr(s[2]))
    if k == "meth":
        return ast.Expr(value=ast.Call(func=ast.Attribute(value=a_recv(s[1]), attr=METH_TXT[s[2]], ctx=ast.Load()),
                                       args=[a_expr(s[3])], keywords=[]))
    if k == "aug":
        return ast.AugAssign(target=ast.Name(id=name_txt(s[1]), ctx=ast.Store()), op=OP_AST[s[2]](), value=a_expr(s[3]))
    if k == "setitem":
        return ast.Assign(targets=[ast.Subscript(value=ast.Name(id=name_txt(s[1]), ctx=ast.Load()), slice=a_expr(s[2]),
                                                 ctx=ast.Store())], value=a_expr(s[3]))
    if k == "expr":
        return ast.Expr(value=a_expr(s[1]))
    if k == "for":
        return ast.For(target=a_tgt(s[1], ast.Store()), iter=a_expr(s[2]), body=a_block(s[3]),
                       orelse=[a_stmt(x) for x in s[4]])
    if k == "if":
        return ast.If(test=a_expr(s[1]), body=a_block(s[2]), orelse=[a_stmt(x) for x in s[3]])
    raise Unsupported(f"stmt {k}")


def prog_src(p) -> str:
    m = ast.Module(body=[a_stmt(s) for s in p] or [ast.Pass()], type_ignores=[])
    return ast.unparse(ast.fix_missing_locations(m)) + "\n"


# ---------------------------------------------------------------------------------------------
# ast -> term

def t_tgt(n):
    if isinstance(n, ast.Name):
        return ("tname", name_of(n.id))
    if isinstance(n, ast.Tuple) and all(isinstance(e, ast.Name) for e in n.elts) and n.elts:
        return ("ttup", [name_of(e.id) for e in n.elts])
    raise Unsupported("target " + ast.dump(n))


def _lambda1(n):
    a = n.args
    if (isinstance(n, ast.Lambda) and len(a.args) == 1 and not a.posonlyargs and not a.kwonlyargs and not a.defaults
            and a.vararg is None and a.kwarg is None):
        return name_of(a.args[0].arg)
    return None


def t_expr(n):
    if isinstance(n, ast.Constant):
        if n.value is None or isinstance(n.value, (bool, int)) or (isinstance(n.value, str) and set(n.value) <= {"a"}):
            return ("const", n.value)
        raise Unsupported("constant")
    if isinstance(n, ast.Name):
        return ("name", name_of(n.id))
    if isinstance(n, ast.Call):
        if n.keywords or any(isinstance(a, ast.Starred) for a in n.args):
            raise Unsupported("call shape")
        if isinstance(n.func, ast.Attribute) and isinstance(n.func.value, ast.Name) and n.func.value.id == "itertools" \
                and n.func.attr == "filterfalse":
            fname = "filterfalse"
        elif isinstance(n.func, ast.Name):
            fname = n.func.id
        else:
            raise Unsupported("call target")
        if fname in ("map", "filter", "filterfalse") and len(n.args) == 2 and isinstance(n.args[0], ast.Lambda):
            a = _lambda1(n.args[0])
            if a is None:
                raise Unsupported("lambda shape")
            if fname == "map":
                return ("map", a, t_expr(n.args[0].body), t_expr(n.args[1]))
            return ("filter", fname == "filterfalse", a, t_expr(n.args[0].body), t_expr(n.args[1]))
        if fname in TXT_BI:
            return ("bi", TXT_BI[fname], [t_expr(a) for a in n.args])
        if fname[0] == "f" and fname[1:].isdigit():
            return ("call", int(fname[1:]), [t_expr(a) for a in n.args])
        raise Unsupported("function " + fname)
    if isinstance(n, (ast.List, ast.Tuple, ast.Set)):
        kind = {ast.List: "KList", ast.Tuple: "KTuple", ast.Set: "KSet"}[type(n)]
        if any(isinstance(e, ast.Starred) for e in n.elts):
            raise Unsupported("starred")
        return ("seq", kind, [t_expr(e) for e in n.elts])
    if isinstance(n, ast.Dict):
        return ("dict", [("dstar", t_expr(v)) if k is None else ("kv", t_expr(k), t_expr(v))
                         for k, v in zip(n.keys, n.values)])
    if isinstance(n, ast.BinOp) and type(n.op) in AST_OP:
        return ("bin", AST_OP[type(n.op)], t_expr(n.left), t_expr(n.right))
    if isinstance(n, ast.UnaryOp) and isinstance(n.op, ast.USub):
        return ("neg", t_expr(n.operand))
    if isinstance(n, ast.UnaryOp) and isinstance(n.op, ast.Not):
        return ("not", t_expr(n.operand))
    if isinstance(n, ast.BoolOp):
        return ("bool", isinstance(n.op, ast.And), [t_expr(v) for v in n.values])
    if isinstance(n, (ast.ListComp, ast.SetComp, ast.GeneratorExp, ast.DictComp)):
        gens = []
        for g in n.generators:
            if g.is_async:
                raise Unsupported("async")
            gens.append(("gen", t_tgt(g.target), t_expr(g.iter), [t_expr(c) for c in g.ifs]))
        if isinstance(n, ast.DictComp):
            return ("comp", "CDict", t_expr(n.key), t_expr(n.value), gens)
        kind = {ast.ListComp: "CList", ast.SetComp: "CSet", ast.GeneratorExp: "CGen"}[type(n)]
        return ("comp", kind, t_expr(n.elt), DUMMY, gens)
    raise Unsupported("expr " + type(n).__name__)


def t_recv(n):
    if isinstance(n, ast.Name):
        return ("rname", name_of(n.id))
    if isinstance(n, ast.Subscript) and isinstance(n.value, ast.Name):
        return ("rsub", name_of(n.value.id), t_expr(n.slice))
    raise Unsupported("receiver")


def t_block(l):
    return [t_stmt(s) for s in l if not isinstance(s, ast.Pass)]


def t_stmt(n):
    if isinstance(n, ast.Assign) and len(n.targets) == 1:
        t = n.targets[0]
        if isinstance(t, ast.Name):
            return ("assign", name_of(t.id), t_expr(n.value))
        if isinstance(t, ast.Subscript) and isinstance(t.value, ast.Name):
            return ("setitem", name_of(t.value.id), t_expr(t.slice), t_expr(n.value))
        raise Unsupported("assign target")
    if isinstance(n, ast.AugAssign) and isinstance(n.target, ast.Name) and type(n.op) in AST_OP:
        return ("aug", name_of(n.target.id), AST_OP[type(n.op)], t_expr(n.value))
    if isinstance(n, ast.Expr):
        v = n.value
        if (isinstance(v, ast.Call) and isinstance(v.func, ast.Attribute) and v.func.attr in TXT_METH
                and len(v.args) == 1 and not v.keywords and not isinstance(v.args[0], ast.Starred)
                and isinstance(v.func.value, (ast.Name, ast.Subscript))):
            return ("meth", t_recv(v.func.value), TXT_METH[v.func.attr], t_expr(v.args[0]))
        return ("expr", t_expr(v))
    if isinstance(n, ast.For):
        return ("for", t_tgt(n.target), t_expr(n.iter), t_block(n.body), t_block(n.orelse))
    if isinstance(n, ast.If):
        return ("if", t_expr(n.test), t_block(n.body), t_block(n.orelse))
    raise Unsupported("stmt " + type(n).__name__)


def parse_prog(src: str):
    return t_block(ast.parse(src).body)


# ---------------------------------------------------------------------------------------------
# term -> Gallina

def g_atom(v) -> str:
    if v is None:
        return "ANone"
    if isinstance(v, bool):
        return f"(ABool {gbool(v)})"
    if isinstance(v, int):
        return f"(AInt ({v})%Z)"
    if isinstance(v, str) and set(v) <= {"a"}:
        return f"(AStr {len(v)})"
    raise Unsupported("atom")


def g_tgt(t) -> str:
    if t[0] == "tname":
        return f"(TName {t[1]})"
    return f"(TTup {glist(t[1], g_nat)})"


def g_nat(i) -> str:
    return f"{i}%nat"


def g_cx(t) -> str:
    k = t[0]
    if k == "const":
        return f"(XConst {g_atom(t[1])})"
    if k == "name":
        return f"(XName {t[1]})"
    if k == "call":
        return f"(XCall {t[1]} {glist(t[2], g_cx)})"
    if k == "bi":
        return f"(XBi {t[1]} {glist(t[2], g_cx)})"
    if k == "seq":
        return f"(XSeq {t[1]} {glist(t[2], g_cx)})"
    if k == "dict":
        return f"(XDict {glist(t[1], g_cx)})"
    if k == "bin":
        return f"(XBin {t[1]} {g_cx(t[2])} {g_cx(t[3])})"
    if k == "neg":
        return f"(XNeg {g_cx(t[1])})"
    if k == "not":
        return f"(XNot {g_cx(t[1])})"
    if k == "bool":
        return f"(XBool {gbool(t[1])} {glist(t[2], g_cx)})"
    if k == "comp":
        return f"(XComp {t[1]} {g_cx(t[2])} {g_cx(t[3])} {glist(t[4], g_cx)})"
    if k == "gen":
        return f"(XGen {g_tgt(t[1])} {g_cx(t[2])} {glist(t[3], g_cx)})"
    if k == "map":
        return f"(XMap {t[1]} {g_cx(t[2])} {g_cx(t[3])})"
    if k == "filter":
        return f"(XFilter {gbool(t[1])} {t[2]} {g_cx(t[3])} {g_cx(t[4])})"
    if k == "kv":
        return f"(XKV {g_cx(t[1])} {g_cx(t[2])})"
    if k == "dstar":
        return f"(XDStar {g_cx(t[1])})"
    raise Unsupported(k)


def g_recv(r) -> str:
    return f"(RName {r[1]})" if r[0] == "rname" else f"(RSub {r[1]} {g_cx(r[2])})"


def g_st(s) -> str:
    k = s[0]
    if k == "assign":
        return f"(SAssign {s[1]} {g_cx(s[2])})"
    if k == "meth":
        return f"(SMeth {g_recv(s[1])} {s[2]} {g_cx(s[3])})"
    if k == "aug":
        return f"(SAug {s[1]} {s[2]} {g_cx(s[3])})"
    if k == "setitem":
        return f"(SSetItem {s[1]} {g_cx(s[2])} {g_cx(s[3])})"
    if k == "expr":
        return f"(SExpr {g_cx(s[1])})"
    if k == "for":
        return f"(SFor {g_tgt(s[1])} {g_cx(s[2])} {glist(s[3], g_st)} {glist(s[4], g_st)})"
    if k == "if":
        return f"(SIf {g_cx(s[1])} {glist(s[2], g_st)} {glist(s[3], g_st)})"
    raise Unsupported(k)


def g_prog(p) -> str:
    return glist(p, g_st)


# ---------------------------------------------------------------------------------------------
# walking terms

def sub_exprs(t):
    """every cx node below (and including) t"""
    yield t
    k = t[0]
    if k in ("call", "bi", "seq"):
        kids = t[2]
    elif k == "dict":
        kids = t[1]
    elif k == "bin":
        kids = [t[2], t[3]]
    elif k in ("neg", "not", "dstar"):
        kids = [t[1]]
    elif k == "bool":
        kids = t[2]
    elif k == "comp":
        kids = [t[2], t[3]] + t[4]
    elif k == "gen":
        kids = [t[2]] + t[3]
    elif k == "map":
        kids = [t[2], t[3]]
    elif k == "filter":
        kids = [t[3], t[4]]
    elif k == "kv":
        kids = [t[1], t[2]]
    else:
        kids = []
    for x in kids:
        yield from sub_exprs(x)


def stmt_exprs(s):
    """the top expressions of one statement (not of its blocks)"""
    k = s[0]
    if k == "assign":
        return [s[2]]
    if k == "meth":
        return ([s[1][2]] if s[1][0] == "rsub" else []) + [s[3]]
    if k == "aug":
        return [s[3]]
    if k == "setitem":
        return [s[2], s[3]]
    if k == "expr":
        return [s[1]]
    if k == "for":
        return [s[2]]
    if k == "if":
        return [s[1]]
    return []


def walk_stmts(p):
    for s in p:
        yield s
        if s[0] == "for":
            yield from walk_stmts(s[3])
            yield from walk_stmts(s[4])
        elif s[0] == "if":
            yield from walk_stmts(s[2])
            yield from walk_stmts(s[3])


def all_names(p) -> set:
    out = set()
    for s in walk_stmts(p):
        if s[0] in ("assign", "aug", "setitem"):
            out.add(s[1])
        if s[0] == "meth":
            out.add(s[1][1])
        if s[0] == "for":
            out |= set(tgt_names(s[1]))
        for e in stmt_exprs(s):
            for x in sub_exprs(e):
                if x[0] == "name":
                    out.add(x[1])
                elif x[0] == "gen":
                    out |= set(tgt_names(x[1]))
                elif x[0] == "map":
                    out.add(x[1])
                elif x[0] == "filter":
                    out.add(x[2])
    return out


def tgt_names(t):
    return [t[1]] if t[0] == "tname" else list(t[1])


# ---------------------------------------------------------------------------------------------
# values and the CPython runner

class Iter:
    """snapshot of an iterator: what it would still yield"""

    def __init__(self, items):
        self.items = items

    def __repr__(self):
        return f"<iterator {self.items!r}>"


def snapshot(v):
    if isinstance(v, collections.abc.Iterator) or isinstance(v, range):
        return Iter([snapshot(x) for x in v])
    if isinstance(v, tuple):
        return tuple(snapshot(x) for x in v)
    if isinstance(v, list):
        return [snapshot(x) for x in v]
    if isinstance(v, dict):
        return {k: snapshot(x) for k, x in v.items()}
    return v


def g_val(v) -> str:
    if v is None:
        return "VNone"
    if isinstance(v, bool):
        return f"(VBool {gbool(v)})"
    if isinstance(v, int):
        return f"(VInt ({v})%Z)"
    if isinstance(v, str):
        if set(v) <= {"a"}:
            return f"(VStr {len(v)})"
        raise Unsupported("str")
    if isinstance(v, tuple):
        return f"(VTuple {glist(v, g_val)})"
    if isinstance(v, list):
        return f"(VList {glist(v, g_val)})"
    if isinstance(v, (set, frozenset)):
        return f"(VSet {glist(list(v), g_val)})"
    if isinstance(v, dict):
        return "(VDict " + glist(list(v.items()), lambda kv: f"({g_val(kv[0])}, {g_val(kv[1])})") + ")"
    if isinstance(v, Iter):
        return f"(VIter {glist(v.items, g_val)})"
    raise Unsupported(type(v).__name__)


def observe(v) -> str:
    """what a program could print, up to the (hash dependent) order of sets and the class of an iterator"""
    if isinstance(v, Iter):
        return "<iterator [" + ", ".join(observe(x) for x in v.items) + "]>"
    if isinstance(v, (set, frozenset)):
        return "{" + ", ".join(sorted(observe(x) for x in v)) + "}"
    if isinstance(v, list):
        return "[" + ", ".join(observe(x) for x in v) + "]"
    if isinstance(v, tuple):
        return "(" + ", ".join(observe(x) for x in v) + ",)"
    if isinstance(v, dict):
        return "{" + ", ".join(f"{observe(k)}: {observe(x)}" for k, x in v.items()) + "}"
    return repr(v)


def freeze(a):
    """(what is logged for an argument, the value the callee goes on with): iterators are drained for the log and
    replaced by an iterator over the same items"""
    if isinstance(a, collections.abc.Iterator):
        items = [freeze(x) for x in a]
        return Iter([x[0] for x in items]), iter([x[1] for x in items])
    if isinstance(a, (list, tuple)):
        items = [freeze(x) for x in a]
        return type(a)(x[0] for x in items), type(a)(x[1] for x in items)
    if isinstance(a, dict):
        items = [(k, freeze(v)) for k, v in a.items()]
        return {k: v[0] for k, v in items}, {k: v[1] for k, v in items}
    if isinstance(a, (set, frozenset)):
        return set(a), set(a)
    return a, a


class Raised(Exception):
    pass


def make_stubs(log):
    def stub(i):
        def f(*args):
            r = len(log)
            frozen = [freeze(a) for a in args]
            log.append((i, [x[0] for x in frozen]))
            args = [x[1] for x in frozen]
            a0 = args[0] if args else None
            isnum = isinstance(a0, int)
            if i == 0:
                return r
            if i == 1:
                return [2, True, 1]
            if i == 2:
                return a0
            if i == 3:
                raise Raised()
            if i == 4:
                return (a0 % 2 == 1) if isnum else bool(args)
            if i == 5:
                return ([a0 + 0, a0 + 1] if isnum else [a0]) if args else []
            if i == 6:
                return (a0 * 2 if isnum else a0) if args else 0
            return (i, r)
        return f
    return {f"f{i}": stub(i) for i in range(8)}


def run_prog(src: str, bindings: dict):
    """Execute a program with logging stubs.  -> (("ok", {name: snapshot}) | ("exc", type name), log)"""
    log = []
    env = make_stubs(log)
    env["itertools"] = itertools
    env["filterfalse"] = itertools.filterfalse
    stubs = set(env) | {"__builtins__"}
    env.update({k: copy.deepcopy(v) for k, v in bindings.items()})
    try:
        exec(compile(src, "<p>", "exec"), env)
    except Exception as e:  # noqa
        return ("exc", type(e).__name__), log
    out = {}
    try:
        for k, v in list(env.items()):
            if k not in stubs:
                out[k] = snapshot(v)      # consumes the iterators that are still around (their calls are logged now)
    except Exception as e:  # noqa
        return ("exc", "late:" + type(e).__name__), log
    return ("ok", out), log


def g_bindings(b: dict) -> str:
    return glist(sorted(b.items()), lambda kv: f"({name_of(kv[0])}%nat, {g_val(kv[1])})")


def g_trace(log) -> str:
    return glist(log, lambda it: f"({it[0]}%nat, {glist(it[1], g_val)})")
