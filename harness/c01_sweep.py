"""C01 sweep machinery: format pool, execution pool, bisection to the first offending stage, stage-level shrinking.

The oracle is the property's own: run the original program and format_code(original, **opts) in isolated workers
(harness/c01_exec.py), compare status + terminating exception class + stdout bytes."""
from __future__ import annotations

import ast
import json
import multiprocessing as mp
import os
import signal
import subprocess
import sys
import tempfile
from concurrent.futures import ThreadPoolExecutor
from pathlib import Path

from . import common, c01_trace, c01_exec

HERE = Path(__file__).resolve().parent
NPROC = max(2, min(8, (os.cpu_count() or 4) // 2))
FORMAT_TIMEOUT_S = 90


# ------------------------------------------------------------------------------------------------
# execution of programs


def _exec_env():
    return {"PYTHONHASHSEED": "0", "PATH": "/usr/bin:/bin", "PYTHONDONTWRITEBYTECODE": "1", "LC_ALL": "C.UTF-8"}


def exec_programs(sources: list[str], scratch: Path, nproc: int = NPROC) -> list[dict]:
    """Run every program in an isolated forked child of a fresh worker interpreter; order-preserving."""
    if not sources:
        return []
    scratch.mkdir(parents=True, exist_ok=True)
    chunks = [list(range(k, len(sources), nproc)) for k in range(nproc)]
    chunks = [c for c in chunks if c]

    def run(chunk):
        inp = "".join(json.dumps({"id": i, "src": sources[i]}) + "\n" for i in chunk)
        r = subprocess.run([sys.executable, "-s", str(HERE / "c01_exec.py"), str(scratch)], input=inp, capture_output=True,
                           text=True, env=_exec_env(), cwd=str(scratch), timeout=60 + 8 * len(chunk))
        out = {}
        for line in r.stdout.splitlines():
            try:
                d = json.loads(line)
                out[d["id"]] = d
            except ValueError:
                pass
        return out

    res: dict = {}
    with ThreadPoolExecutor(max_workers=len(chunks)) as ex:
        for part in ex.map(run, chunks):
            res.update(part)
    return [res.get(i, {"status": "lost", "exc": "", "out": ""}) for i in range(len(sources))]


_ADDR = __import__("re").compile(r"\bat 0x[0-9a-fA-F]{6,}")


def behaviour(r: dict) -> tuple:
    return (r["status"], r["exc"], r["out"])


# sources of nondeterminism that put a program outside the property's domain
NONDET = __import__("re").compile(r"\b(random|time|datetime|uuid|secrets|urandom|getpid|threading|multiprocessing|perf_counter|id\()")


def observable(b: tuple) -> bool:
    """In the property's domain: ran to completion and printed no object address."""
    return b[0] == "ok" and not _ADDR.search(b[2])


# ------------------------------------------------------------------------------------------------
# format pool (forked after pyrefact has been imported from $VERIF_REPO)

_MODS = None
_SCRATCH = None
_CWD = None


def _init(scratch):
    global _MODS, _SCRATCH, _CWD
    _MODS = common.import_impl()
    _SCRATCH = tempfile.mkdtemp(prefix="c01w-", dir=scratch)
    _CWD = os.path.join(scratch, "cwd")
    signal.signal(signal.SIGALRM, _alarm)


class _Timeout(Exception):
    pass


def _alarm(*a):
    raise _Timeout()


def opts_kwargs(o: dict) -> dict:
    return {"safe": o["safe"], "keep_imports": o["keep_imports"], "preserve": frozenset(o["preserve"]),
            "max_line_length": o["max_line_length"]}


def _format_job(job):
    src, opts_list = job
    out = []
    for o in opts_list:
        c01_trace.clear_caches(_MODS)
        signal.alarm(FORMAT_TIMEOUT_S)
        try:
            with common.quiet():
                r = _MODS["main"].format_code(src, **opts_kwargs(o))
            out.append(("ok", r))
        except _Timeout:
            out.append(("exc", "Timeout"))
        except Exception as e:  # noqa
            out.append(("exc", type(e).__name__))
        finally:
            signal.alarm(0)
    return out


def _local_exec(src: str) -> tuple:
    return behaviour(c01_exec.run_one(src, _SCRATCH, _CWD))


def _with_imports(text: str) -> str:
    """An intermediate text may use a module whose import a LATER stage adds (heapq, collections, ...): judge a stage
    output after the pipeline's own repair stage fixes.add_missing_imports, so that this is not blamed on the stage."""
    try:
        c01_trace.clear_caches(_MODS)
        with common.quiet():
            return _MODS["fixes"].add_missing_imports(text)
    except Exception:  # noqa
        return text


def _stage_exec(text: str) -> tuple:
    b = _local_exec(text)
    if b[0] == "exc" and b[1] == "NameError":
        t2 = _with_imports(text)
        if t2 != text:
            return _local_exec(t2)
    return b


# ---- shrinking by statement deletion (stage level, on the TEXT so that layout-sensitive defects survive)

_BODY_FIELDS = ("body", "orelse", "finalbody")


def _stmt_span(st):
    lo = min([st.lineno] + [d.lineno for d in getattr(st, "decorator_list", [])])
    return lo, st.end_lineno


def _variants(text: str):
    """Smaller texts: delete one statement (replaced by `pass` when it is alone in its block) or replace a compound
    statement by its dedented body.  Statements that share a physical line with another one are left alone."""
    try:
        tree = ast.parse(text)
    except SyntaxError:
        return
    lines = text.split("\n")
    stmts = [n for n in ast.walk(tree) if isinstance(n, ast.stmt)]
    per_line = {}
    for st in stmts:
        lo, hi = _stmt_span(st)
        per_line.setdefault(lo, []).append(st)
    cands = []
    for node in ast.walk(tree):
        for f in _BODY_FIELDS:
            lst = getattr(node, f, None)
            if not (isinstance(lst, list) and lst and isinstance(lst[0], ast.stmt)):
                continue
            for i, st in enumerate(lst):
                lo, hi = _stmt_span(st)
                if len([x for x in per_line.get(lo, []) if x.col_offset != st.col_offset or x is st]) > 1 and any(
                        x is not st and _stmt_span(x)[1] == hi and x.col_offset != st.col_offset and isinstance(node, ast.Module) is False
                        for x in per_line.get(lo, [])):
                    pass
                first = lines[lo - 1]
                indent = first[:len(first) - len(first.lstrip())]
                if first.strip() and not first.lstrip().startswith(("@",)) and st.col_offset != len(indent.encode()):
                    continue            # `a; b` or `if x: y` on one line
                cands.append((hi - lo + 1, "del", lo, hi, indent if len(lst) == 1 else None))
                if isinstance(st, (ast.If, ast.For, ast.While, ast.With, ast.Try)) and st.body and st.body[0].lineno > st.lineno:
                    blo, bhi = _stmt_span(st.body[0])[0], st.body[-1].end_lineno
                    cands.append((hi - lo + 1 - (bhi - blo + 1), "hoist", lo, hi, (blo, bhi, indent)))
    cands.sort(key=lambda c: -c[0])
    for _, kind, lo, hi, extra in cands:
        if kind == "del":
            repl = [extra + "pass"] if extra is not None else []
        else:
            blo, bhi, indent = extra
            body = lines[blo - 1:bhi]
            b0 = body[0]
            bind = b0[:len(b0) - len(b0.lstrip())]
            if not all((not l.strip()) or l.startswith(bind) for l in body):
                continue
            repl = [(indent + l[len(bind):]) if l.strip() else l for l in body]
        new = "\n".join(lines[:lo - 1] + repl + lines[hi:])
        if new == text:
            continue
        try:
            ast.parse(new)
        except SyntaxError:
            continue
        yield new


def shrink_stage_input(text: str, fails, budget: int = 120) -> tuple[str, int]:
    """Greedy delta debugging by statement deletion: keeps `fails(text)` true.  Returns (smaller text, tests used)."""
    cur, used = text, 0
    progress = True
    while progress and used < budget:
        progress = False
        for cand in _variants(cur):
            if used >= budget:
                break
            used += 1
            if fails(cand):
                cur = cand
                progress = True
                break
    return cur, used


def _bisect_job(job):
    """job = (src, opts, expected behaviour).  Returns a dict describing the first offending stage and the
    minimised stage input."""
    src, o, expected, budget = job
    expected = tuple(expected)
    signal.alarm(FORMAT_TIMEOUT_S * 2)
    try:
        with common.quiet():
            res, log = c01_trace.trace_format_code(_MODS, src, **opts_kwargs(o))
    except _Timeout:
        return {"site": "timeout", "src": src, "opts": o}
    finally:
        signal.alarm(0)
    if isinstance(res, Exception):
        return {"site": "exception:" + type(res).__name__, "src": src, "opts": o}
    seen = {src: expected}
    site = None
    for (name, a, b, recall) in log:
        if a == b:
            continue
        if b not in seen:
            seen[b] = _stage_exec(b)
        if seen[b] != expected:
            site = (name, a, b, recall)
            break
    if site is None:
        final = _local_exec(str(res))
        return {"site": "main.format_code:untraced" if final != expected else "not-reproduced", "src": src, "opts": o,
                "result": str(res), "actual": final}
    name, a, b, recall = site

    def fails(text):
        e1 = _local_exec(text)
        if not observable(e1):
            return False
        try:
            c01_trace.clear_caches(_MODS)
            with common.quiet():
                t2 = recall(text)
        except Exception:  # noqa
            return False
        if not isinstance(t2, str) or t2 == text:
            return False
        return _stage_exec(t2) != e1

    signal.alarm(FORMAT_TIMEOUT_S * 3)
    try:
        small, used = shrink_stage_input(a, fails, budget)
        c01_trace.clear_caches(_MODS)
        with common.quiet():
            small_out = recall(small) if small != a else b
    except _Timeout:
        small, used, small_out = a, -1, b
    except Exception:  # noqa
        small, used, small_out = a, -2, b
    finally:
        signal.alarm(0)
    return {"site": name, "src": src, "opts": o, "stage_in": a, "stage_out": b, "min_in": small, "min_out": small_out,
            "shrink_tests": used, "expected": list(expected), "actual": list(seen[b]),
            "min_expected": list(_local_exec(small)), "min_actual": list(_stage_exec(small_out))}


class Pool:
    def __init__(self, scratch: Path, nproc: int = NPROC):
        scratch.mkdir(parents=True, exist_ok=True)
        self.pool = mp.get_context("fork").Pool(nproc, initializer=_init, initargs=(str(scratch),))

    def format_all(self, jobs):
        return self.pool.map(_format_job, jobs, chunksize=1)

    def bisect_all(self, jobs):
        return self.pool.map(_bisect_job, jobs, chunksize=1)

    def close(self):
        self.pool.terminate()
        self.pool.join()
