"""Signatures of known findings: a failing case is suppressed only if its call site equals the
entry's `site` AND the entry's structural predicate `sig` holds on the (minimised) case."""
from __future__ import annotations


def _sum_empty_range(c):      # sum(range(a, b)) with b < a: closed form is not 0
    return c["b"] < c["a"]


def _sum_float_type(c):       # value equal but float instead of int ('/' true division)
    return c["value"] == c["python"] and type(c["value"]) is float


SIGS = {
    "sum_empty_range": _sum_empty_range,
    "sum_float_type": _sum_float_type,
}


def match(findings, site: str, case) -> object | None:
    for f in findings:
        if f.kind != "finding" or f.fields.get("site") != site:
            continue
        pred = SIGS.get(f.fields.get("sig", ""))
        try:
            if pred and pred(case):
                return f
        except Exception:  # a predicate that cannot be evaluated never suppresses
            continue
    return None
