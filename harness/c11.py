"""C11 -- Layout stages never change program structure or string contents (kernel K12, LayoutModel.v)."""
from __future__ import annotations

import ast
import difflib
import io
import itertools
import json
import random
import re
import tokenize
from collections import Counter
from pathlib import Path

from . import common
from .common import glist, gbool

PID = "C11"
STAGES = {"expandtabs": 0, "rmspace": 1, "sub1": 2, "sub2": 3, "sub3": 4, "blank_lines": 5, "prepass": 6}
STAGE_SITE = {"expandtabs": "main.format_code.expandtabs", "rmspace": "rmspace.format_str",
              "blank_lines": "fixes.fix_too_many_blank_lines"}


class _Stop(Exception):
    pass


# ------------------------------------------------------------------------------------------------
# the real stages, observed inside the real code


class Probe:
    """Instruments the REAL code: `main.rmspace` and `fixes.re` are replaced by recording proxies and
    `fixes.fix_too_many_blank_lines` by a recording wrapper, so that every intermediate text of the
    layout stages is the one the code under test computed (nothing is re-implemented here)."""

    def __init__(self, mods):
        self.mods = mods
        self.main, self.fixes = mods["main"], mods["fixes"]
        self.real_ftmbl = self.fixes.fix_too_many_blank_lines
        self.real_rmspace = self.main.rmspace
        self.real_re = self.fixes.re
        self.log = []          # (stage, input, output)
        self.stop_after_prepass = False
        self.in_ftmbl = False
        probe = self

        class RmProxy:
            def __getattr__(self, name):
                return getattr(probe.real_rmspace, name)

            def format_str(self, content, *a, **k):
                out = probe.real_rmspace.format_str(content, *a, **k)
                probe.log.append(("rmspace", content, out))
                return out

        class ReProxy:
            def __getattr__(self, name):
                return getattr(probe.real_re, name)

            def sub(self, pattern, repl, string, *a, **k):
                out = probe.real_re.sub(pattern, repl, string, *a, **k)
                if probe.in_ftmbl:
                    probe.subs.append((pattern, repl, string, out))
                return out

        self.rm_proxy, self.re_proxy = RmProxy(), ReProxy()
        self.subs = []

        def ftmbl(source):
            probe.in_ftmbl = True
            n0 = len(probe.subs)
            try:
                out = probe.real_ftmbl(source)
            finally:
                probe.in_ftmbl = False
            new = probe.subs[n0:]
            if len(new) == 3:
                for name, (_, _, a, b) in zip(("sub1", "sub2", "sub3"), new):
                    probe.log.append((name, a, b))
            else:
                probe.log.append(("sub-shape", source, f"{len(new)} re.sub calls instead of 3"))
            probe.log.append(("blank_lines", source, out))
            if probe.stop_after_prepass:
                raise _Stop()
            return out

        self.ftmbl = ftmbl

    def __enter__(self):
        self.main.rmspace = self.rm_proxy
        self.fixes.re = self.re_proxy
        self.fixes.fix_too_many_blank_lines = self.ftmbl
        return self

    def __exit__(self, *exc):
        self.main.rmspace = self.real_rmspace
        self.fixes.re = self.real_re
        self.fixes.fix_too_many_blank_lines = self.real_ftmbl
        return False

    def patterns(self):
        """the three (pattern, repl) pairs the real fix_too_many_blank_lines passes to re.sub"""
        n0 = len(self.subs)
        self.stop_after_prepass = False
        self.ftmbl("a\n")
        res = [(p, r) for (p, r, _, _) in self.subs[n0:]]
        del self.log[-4:]
        return res

    def prepass(self, s: str):
        """Run the real format_code up to the end of its raw-text pre-pass (main.py:170-172).
        Returns {stage: (in, out)} or None when format_code returned before the pre-pass (skip_file)."""
        n0 = len(self.log)
        self.stop_after_prepass = True
        try:
            with common.quiet():
                self.main.format_code(s)
            stopped = False
        except _Stop:
            stopped = True
        finally:
            self.stop_after_prepass = False
        new = self.log[n0:]
        del self.log[n0:]
        if not stopped:
            return None
        res = {name: (a, b) for name, a, b in new}
        rm_in = res["rmspace"][0]
        res["expandtabs"] = (s, rm_in)       # what source.expandtabs(..) handed to rmspace
        res["prepass"] = (s, res["blank_lines"][1])
        return res

    def full(self, s: str, **kw):
        """Real format_code, recording every layout-stage call on the way."""
        n0 = len(self.log)
        self.mods["core"].parse.cache_clear()
        with common.quiet():
            out = self.main.format_code(s, **kw)
        new = self.log[n0:]
        del self.log[n0:]
        return out, new


# ------------------------------------------------------------------------------------------------
# literal mask (tokenize) and the structural guards, Python side (used by the finding predicates)

_FSTART = getattr(tokenize, "FSTRING_START", -1)
_FEND = getattr(tokenize, "FSTRING_END", -1)


def literal_mask(source: str) -> list[bool] | None:
    """True for every character of a string / bytes / f-string literal token (quotes and prefix included,
    an f-string from its opening to its closing quote).  None if the text does not tokenize."""
    starts, p = [], 0
    for ln in source.split("\n"):
        starts.append(p)
        p += len(ln) + 1
    mask = [False] * len(source)
    depth, fstart = 0, None
    try:
        for tok in tokenize.generate_tokens(io.StringIO(source).readline):
            a = starts[tok.start[0] - 1] + tok.start[1] if tok.start[0] - 1 < len(starts) else len(source)
            b = starts[tok.end[0] - 1] + tok.end[1] if tok.end[0] - 1 < len(starts) else len(source)
            if tok.type == _FSTART:
                if depth == 0:
                    fstart = a
                depth += 1
            elif tok.type == _FEND:
                depth -= 1
                if depth == 0:
                    for i in range(fstart, b):
                        mask[i] = True
            elif tok.type == tokenize.STRING and depth == 0:
                for i in range(a, b):
                    mask[i] = True
    except (tokenize.TokenError, SyntaxError, IndentationError):
        return None
    return mask


def lit_of(source, mask):
    return "".join(c for c, m in zip(source, mask) if m)


def py_trailing(s, i):
    """the blank run continuing at s[i:] is followed by \\n or the end of the text"""
    while i < len(s) and s[i] in " \t":
        i += 1
    return i == len(s) or s[i] == "\n"


def masked_tab(s, mask):
    return any(m and c == "\t" for c, m in zip(s, mask))


def masked_trailing_blank(s, mask):
    return any(mask[i] and s[i] in " \t" and py_trailing(s, i + 1) for i in range(len(s)))


def masked_blank_run(s, mask):
    """a maximal whitespace run holding a masked character has >= 3 newlines, or >= 2 at the end of text"""
    for m in re.finditer(r"\s+", s):
        if any(mask[m.start():m.end()]):
            k = m.group(0).count("\n")
            if k >= 3 or (m.end() == len(s) and k >= 2):
                return True
    return False


GUARDS = {0: lambda s, m: not masked_tab(s, m), 1: lambda s, m: not masked_trailing_blank(s, m),
          2: lambda s, m: not masked_blank_run(s, m)}

# structural predicates of the known findings, keyed by the sig= field of KNOWN_FINDINGS.txt.
# case = {"stage": name, "input": text given to that stage, "mask": its literal mask}
SIGS = {
    "masked_tab": lambda c: c["stage"] in ("expandtabs", "prepass", "format_code") and masked_tab(c["input"], c["mask"]),
    "masked_trailing_blank": lambda c: c["stage"] in ("rmspace", "prepass", "format_code")
    and masked_trailing_blank(c["input"], c["mask"]),
    "masked_blank_run": lambda c: c["stage"] in ("blank_lines", "prepass", "format_code")
    and masked_blank_run(c["input"], c["mask"]),
    "mixed_indent": lambda c: c["stage"] in ("expandtabs", "prepass", "format_code") and mixed_indent(c["input"], c["mask"]),
}


def mixed_indent(s, mask):
    """some unmasked line indentation is not of the form tabs-then-spaces"""
    pos = 0
    for ln in s.split("\n"):
        ind = ln[:len(ln) - len(ln.lstrip(" \t"))]
        if not (mask[pos] if pos < len(mask) else False) and ln.strip() and not re.fullmatch(r"\t* *", ind):
            return True
        pos += len(ln) + 1
    return False


# ------------------------------------------------------------------------------------------------
# Coq case files


def hx(s: str) -> str:
    """text -> Coq string literal of hex digits (decoded by LayoutCases.dec)"""
    return '"' + "".join(f"{ord(c):02x}" if ord(c) < 256 else f"u{ord(c):06x}" for c in s) + '"'


def gmask(m) -> str:
    return '"' + "".join("1" if b else "0" for b in m) + '"'


HEADER = ("From Coq Require Import List NArith Bool String.\nImport ListNotations.\n"
          "Require Import Pyrefact.Base Pyrefact.LayoutModel Pyrefact.LayoutCases.\nOpen Scope string_scope.\n")


def stage_case(stage, inp, out, mask=None, outmask=None) -> str:
    om = '"-"' if outmask is None else gmask(outmask)
    return f"({STAGES[stage]}, {hx(inp)}, {gmask(mask or [])}, {hx(out)}, {om})"


def write_cases(wd: Path, name: str, typ: str, okfun: str, items: list[str], shard: int):
    files = []
    for k in range(0, len(items), shard):
        p = wd / f"{name}_{k // shard}.v"
        body = ";\n ".join(items[k:k + shard])
        p.write_text(HEADER + f"Definition cases : list ({typ}) := [\n {body}\n].\n"
                     f"Eval vm_compute in (bad_idx {okfun} cases).\n")
        files.append((p, k))
    return files
