"""C11 -- Layout stages never change program structure or string contents (kernel K12, LayoutModel.v)."""
from __future__ import annotations

import ast
import difflib
import io
import itertools
import json
import random
import re
import tokenize
from collections import Counter
from pathlib import Path

from . import common
from .common import glist, gbool

PID = "C11"
STAGES = {"expandtabs": 0, "rmspace": 1, "sub1": 2, "sub2": 3, "sub3": 4, "blank_lines": 5, "prepass": 6}
STAGE_SITE = {"expandtabs": "main.format_code.expandtabs", "rmspace": "rmspace.format_str",
              "blank_lines": "fixes.fix_too_many_blank_lines"}


class _Stop(Exception):
    pass


# ------------------------------------------------------------------------------------------------
# the real stages, observed inside the real code


class Probe:
    """Instruments the REAL code: `main.rmspace` and `fixes.re` are replaced by recording proxies and
    `fixes.fix_too_many_blank_lines` by a recording wrapper, so that every intermediate text of the
    layout stages is the one the code under test computed (nothing is re-implemented here)."""

    def __init__(self, mods):
        self.mods = mods
        self.main, self.fixes = mods["main"], mods["fixes"]
        self.real_ftmbl = self.fixes.fix_too_many_blank_lines
        self.real_rmspace = self.main.rmspace
        self.real_re = self.fixes.re
        self.log = []          # (stage, input, output)
        self.stop_after_prepass = False
        self.in_ftmbl = False
        probe = self

        class RmProxy:
            def __getattr__(self, name):
                return getattr(probe.real_rmspace, name)

            def format_str(self, content, *a, **k):
                out = probe.real_rmspace.format_str(content, *a, **k)
                probe.log.append(("rmspace", content, out))
                return out

        class ReProxy:
            def __getattr__(self, name):
                return getattr(probe.real_re, name)

            def sub(self, pattern, repl, string, *a, **k):
                out = probe.real_re.sub(pattern, repl, string, *a, **k)
                if probe.in_ftmbl:
                    probe.subs.append((pattern, repl, string, out))
                return out

        self.rm_proxy, self.re_proxy = RmProxy(), ReProxy()
        self.subs = []

        def ftmbl(source):
            probe.in_ftmbl = True
            n0 = len(probe.subs)
            try:
                out = probe.real_ftmbl(source)
            finally:
                probe.in_ftmbl = False
            new = probe.subs[n0:]
            if len(new) == 3:
                for name, (_, _, a, b) in zip(("sub1", "sub2", "sub3"), new):
                    probe.log.append((name, a, b))
            else:
                probe.log.append(("sub-shape", source, f"{len(new)} re.sub calls instead of 3"))
            probe.log.append(("blank_lines", source, out))
            if probe.stop_after_prepass:
                raise _Stop()
            return out

        self.ftmbl = ftmbl

        self.proc = mods["processing"]
        self.real_subst = self.proc._substitute_original_strings
        self.real_replace_nodes = self.proc._replace_nodes
        self.restores = []     # (original_source, new_source, {node: replacement} or None, result)
        self.in_subst = False

        def replace_nodes(source, replacements):
            if probe.in_subst:
                probe.cur_repl = dict(replacements)
            if probe.in_fsubst:
                probe.cur_frepl = dict(replacements)
            return probe.real_replace_nodes(source, replacements)

        def subst(original_source, new_source):
            probe.in_subst, probe.cur_repl = True, None
            try:
                out = probe.real_subst(original_source, new_source)
            finally:
                probe.in_subst = False
            if probe.record_restores and original_source != new_source:
                probe.restores.append(restore_facts(probe.mods, original_source, new_source, probe.cur_repl, out))
            return out

        self.real_fsubst = self.proc._substitute_original_fstrings
        self.frestores = []
        self.in_fsubst = False

        def fsubst(original_source, new_source):
            probe.in_fsubst, probe.cur_frepl = True, None
            try:
                out = probe.real_fsubst(original_source, new_source)
            finally:
                probe.in_fsubst = False
            if probe.record_restores and original_source != new_source:
                probe.frestores.append(frestore_facts(probe.mods, original_source, new_source, probe.cur_frepl, out))
            return out

        self.fsubst = fsubst
        self.replace_nodes, self.subst = replace_nodes, subst
        self.record_restores = False

        # fix_line_lengths' frame: indentation_level -> [dedent] -> format_with_black -> [indent]
        self.real_formatting = self.fixes.formatting
        self.real_textwrap = self.fixes.textwrap
        self.frames, self.cur_frame, self.record_frames = [], None, False

        class FormattingProxy:
            def __getattr__(self, name):
                return getattr(probe.real_formatting, name)

            def indentation_level(self, code):
                n = probe.real_formatting.indentation_level(code)
                probe.cur_frame = {"cur": code, "n": n} if probe.record_frames else None
                return n

            def format_with_black(self, code, **kw):
                out = probe.real_formatting.format_with_black(code, **kw)
                fr = probe.cur_frame
                if fr is not None and "black" not in fr:
                    fr["black"] = (code, out)
                    if fr["n"] == 0:
                        probe.frames.append(fr)
                        probe.cur_frame = None
                return out

        class TextwrapProxy:
            def __getattr__(self, name):
                return getattr(probe.real_textwrap, name)

            def dedent(self, text):
                out = probe.real_textwrap.dedent(text)
                fr = probe.cur_frame
                if fr is not None and fr["cur"] == text and "black" not in fr:
                    fr["ded"] = out
                return out

            def indent(self, text, prefix, *a, **k):
                out = probe.real_textwrap.indent(text, prefix, *a, **k)
                fr = probe.cur_frame
                if fr is not None and "black" in fr and not a and not k:
                    fr["ind"] = (text, prefix, out)
                    probe.frames.append(fr)
                    probe.cur_frame = None
                return out

        self.formatting_proxy, self.textwrap_proxy = FormattingProxy(), TextwrapProxy()

    def __enter__(self):
        self.proc._substitute_original_strings = self.subst
        self.proc._substitute_original_fstrings = self.fsubst
        self.proc._replace_nodes = self.replace_nodes
        self.fixes.formatting = self.formatting_proxy
        self.fixes.textwrap = self.textwrap_proxy
        self.main.rmspace = self.rm_proxy
        self.fixes.re = self.re_proxy
        self.fixes.fix_too_many_blank_lines = self.ftmbl
        return self

    def __exit__(self, *exc):
        self.main.rmspace = self.real_rmspace
        self.fixes.re = self.real_re
        self.fixes.fix_too_many_blank_lines = self.real_ftmbl
        self.proc._substitute_original_strings = self.real_subst
        self.proc._substitute_original_fstrings = self.real_fsubst
        self.proc._replace_nodes = self.real_replace_nodes
        self.fixes.formatting = self.real_formatting
        self.fixes.textwrap = self.real_textwrap
        return False

    def patterns(self):
        """the three (pattern, repl) pairs the real fix_too_many_blank_lines passes to re.sub"""
        n0 = len(self.subs)
        self.stop_after_prepass = False
        self.ftmbl("a\n")
        res = [(p, r) for (p, r, _, _) in self.subs[n0:]]
        del self.log[-4:]
        return res

    def prepass(self, s: str):
        """Run the real format_code up to the end of its raw-text pre-pass (main.py:170-172).
        Returns {stage: (in, out)} or None when format_code returned before the pre-pass (skip_file)."""
        n0 = len(self.log)
        self.stop_after_prepass = True
        try:
            with common.quiet():
                # since 9438482 format_code is a wrapper that terminates the text with a line break before it
                # calls _format_code, which holds the pre-pass; the pre-pass correspondence is about that body
                inner = getattr(self.main, "_format_code", None)
                if inner is not None:
                    inner(s, preserve=frozenset(), safe=False, keep_imports=False,
                          max_line_length=self.mods["core"].parse_line_length_from_pyproject_toml())
                else:
                    self.main.format_code(s)
            stopped = False
        except _Stop:
            stopped = True
        finally:
            self.stop_after_prepass = False
        new = self.log[n0:]
        del self.log[n0:]
        if not stopped:
            return None
        res = {name: (a, b) for name, a, b in new}
        rm_in = res["rmspace"][0]
        res["expandtabs"] = (s, rm_in)       # what source.expandtabs(..) handed to rmspace
        res["prepass"] = (s, res["blank_lines"][1])
        return res

    def full(self, s: str, **kw):
        """Real format_code, recording every layout-stage call on the way."""
        n0 = len(self.log)
        self.mods["core"].parse.cache_clear()
        with common.quiet():
            out = self.main.format_code(s, **kw)
        new = self.log[n0:]
        del self.log[n0:]
        return out, new


# ------------------------------------------------------------------------------------------------
# literal mask (tokenize) and the structural guards, Python side (used by the finding predicates)

_FSTART = getattr(tokenize, "FSTRING_START", -1)
_FEND = getattr(tokenize, "FSTRING_END", -1)


def literal_mask(source: str) -> list[bool] | None:
    """True for every character of a string / bytes / f-string literal token (quotes and prefix included,
    an f-string from its opening to its closing quote).  None if the text does not tokenize."""
    starts, p = [], 0
    for ln in source.split("\n"):
        starts.append(p)
        p += len(ln) + 1
    mask = [False] * len(source)
    depth, fstart = 0, None
    try:
        for tok in tokenize.generate_tokens(io.StringIO(source).readline):
            a = starts[tok.start[0] - 1] + tok.start[1] if tok.start[0] - 1 < len(starts) else len(source)
            b = starts[tok.end[0] - 1] + tok.end[1] if tok.end[0] - 1 < len(starts) else len(source)
            if tok.type == _FSTART:
                if depth == 0:
                    fstart = a
                depth += 1
            elif tok.type == _FEND:
                depth -= 1
                if depth == 0:
                    for i in range(fstart, b):
                        mask[i] = True
            elif tok.type == tokenize.STRING and depth == 0:
                for i in range(a, b):
                    mask[i] = True
    except (tokenize.TokenError, SyntaxError, IndentationError):
        return None
    return mask


def lit_of(source, mask):
    return "".join(c for c, m in zip(source, mask) if m)


def py_trailing(s, i):
    """the blank run continuing at s[i:] is followed by \\n or the end of the text"""
    while i < len(s) and s[i] in " \t":
        i += 1
    return i == len(s) or s[i] == "\n"


def masked_tab(s, mask):
    return any(m and c == "\t" for c, m in zip(s, mask))


def masked_trailing_blank(s, mask):
    return any(mask[i] and s[i] in " \t" and py_trailing(s, i + 1) for i in range(len(s)))


def masked_blank_run(s, mask):
    """a maximal whitespace run holding a masked character has >= 3 newlines, or >= 2 at the end of text"""
    for m in re.finditer(r"\s+", s):
        if any(mask[m.start():m.end()]):
            k = m.group(0).count("\n")
            if k >= 3 or (m.end() == len(s) and k >= 2):
                return True
    return False


GUARDS = {0: lambda s, m: not masked_tab(s, m), 1: lambda s, m: not masked_trailing_blank(s, m),
          2: lambda s, m: not masked_blank_run(s, m)}

# structural predicates of the known findings, keyed by the sig= field of KNOWN_FINDINGS.txt.
# case = {"stage": name, "input": text given to that stage, "mask": its literal mask}
SIGS = {
    "masked_tab": lambda c: c["stage"] in ("expandtabs", "prepass", "format_code") and masked_tab(c["input"], c["mask"]),
    "masked_trailing_blank": lambda c: c["stage"] in ("rmspace", "prepass", "format_code")
    and masked_trailing_blank(c["input"], c["mask"]),
    "masked_blank_run": lambda c: c["stage"] in ("blank_lines", "prepass", "format_code")
    and masked_blank_run(c["input"], c["mask"]),
    "mixed_indent": lambda c: c["stage"] in ("expandtabs", "prepass", "format_code") and mixed_indent(c["input"], c["mask"]),
}


def mixed_indent(s, mask):
    """some unmasked line indentation is not of the form tabs-then-spaces"""
    pos = 0
    for ln in s.split("\n"):
        ind = ln[:len(ln) - len(ln.lstrip(" \t"))]
        if not (mask[pos] if pos < len(mask) else False) and ln.strip() and not re.fullmatch(r"\t* *", ind):
            return True
        pos += len(ln) + 1
    return False


# ------------------------------------------------------------------------------------------------
# Coq case files


def hx(s: str) -> str:
    """text -> Coq string literal of hex digits (decoded by LayoutCases.dec)"""
    return '"' + "".join(f"{ord(c):02x}" if ord(c) < 256 else f"u{ord(c):06x}" for c in s) + '"'


def enc2(s: str) -> str:
    """text -> Coq string literal, printable ASCII / NL / TAB raw, the rest as \\x01 + six hex digits
    (decoded by LayoutCases.dec2)"""
    out = []
    for c in s:
        o = ord(c)
        if c == '"':
            out.append('""')
        elif 32 <= o < 127 or c in "\n\t":
            out.append(c)
        else:
            out.append(f"\x01{o:06x}")
    return '"' + "".join(out) + '"'


def rle_mask(m) -> str:
    if m is None:
        return "None"
    runs, cur, n = [], False, 0
    for b in m:
        if b == cur:
            n += 1
        else:
            runs.append(n)
            cur, n = b, 1
    runs.append(n)
    return "(Some " + glist(runs) + ")"


def chain_case(r, masks, guards) -> str:
    texts = [r["expandtabs"][0], r["expandtabs"][1], r["rmspace"][1], r["sub1"][1], r["sub2"][1], r["sub3"][1]]
    return ("(mkChain " + " ".join(enc2(x) for x in texts) + " " + " ".join(rle_mask(m) for m in masks) + " "
            + " ".join(gbool(g) for g in guards) + ")")


def gmask(m) -> str:
    return '"' + "".join("1" if b else "0" for b in m) + '"'


HEADER = ("From Coq Require Import List NArith Bool String.\nImport ListNotations.\n"
          "Require Import Pyrefact.Base Pyrefact.LayoutModel Pyrefact.LayoutCases Pyrefact.RestoreModel.\n"
          "Open Scope string_scope.\n")


def stage_case(stage, inp, out, mask=None, outmask=None) -> str:
    om = '"-"' if outmask is None else gmask(outmask)
    return f"({STAGES[stage]}, {hx(inp)}, {gmask(mask or [])}, {hx(out)}, {om})"


def write_cases(wd: Path, name: str, typ: str, okfun: str, items: list[str], shard: int):
    files = []
    for k in range(0, len(items), shard):
        p = wd / f"{name}_{k // shard}.v"
        body = ";\n ".join(items[k:k + shard])
        p.write_text(HEADER + f"Definition cases : list ({typ}) := [\n {body}\n].\n"
                     f"Eval vm_compute in (bad_idx {okfun} cases).\n")
        files.append((p, k))
    return files


# ------------------------------------------------------------------------------------------------
# generators


def short_strings(tier):
    """ALL strings of length <= 6 (thorough 7) over {a, SP, TAB, NL}, and all of length <= 4 (thorough 6)
    over that alphabet plus CR and FF that contain a CR or FF (seed-independent)."""
    res = []
    for n in range(0, 7 if tier == "quick" else 8):
        for t in itertools.product("a \t\n", repeat=n):
            res.append("".join(t))
    for n in range(0, 5 if tier == "quick" else 7):
        for t in itertools.product("a \t\n\r\x0c", repeat=n):
            if "\r" in t or "\x0c" in t:
                res.append("".join(t))
    return res


WORDS = ["a", "bc", "de f", "x1", "q"]


def gen_literal(rnd: random.Random, dirty: bool, multiline_ok=True, indent="", cont=True) -> str:
    prefix = rnd.choice(["", "", "", "r", "b", "f", "rb", "fr", "u", "B", "F"])
    triple = multiline_ok and rnd.random() < 0.55
    q = rnd.choice(['"', "'"])
    is_f = "f" in prefix.lower()
    raw = "r" in prefix.lower()

    def word():
        w = rnd.choice(WORDS)
        r = rnd.random()
        if is_f and r < 0.3:
            return "{W}" if rnd.random() < 0.7 else ("{W!r:>4}" if not dirty else "{ W\t}")
        if r < 0.4:
            return (r"\d" if raw else r"\t") + w
        return w

    def seps():
        if not dirty:
            return " "
        return rnd.choice([" ", " ", "\t", "  ", " \t", "\t\t"])

    def line(nonempty=False):
        n = rnd.randint(1 if nonempty else 0, 3)
        s = ""
        for i in range(n):
            s += word() + (seps() if i < n - 1 else "")
        return s

    if not triple:
        body = line()
        if dirty and rnd.random() < 0.3:
            body += rnd.choice([" ", "\t"])       # blank just before the closing quote: not trailing
        if dirty and cont and not raw and rnd.random() < 0.15:
            body += "\\\n" + rnd.choice(["", " ", "\t"]) + line()   # backslash-newline continuation
        return prefix + q + body + q
    nlines = rnd.randint(1, 5)
    out = []
    for i in range(nlines):
        ln = (rnd.choice(["", indent, "  ", "\t"]) + line()) if dirty else (rnd.choice(["", indent]) + line(True))
        if dirty and rnd.random() < 0.35:
            ln += rnd.choice([" ", "  ", "\t", " \t"])
        out.append(ln)
        if i < nlines - 1:
            r = rnd.random()
            if dirty and r < 0.45:
                k = rnd.choice([1, 2, 2, 3, 4])
                out.extend(rnd.choice(["", "", " ", "\t", indent]) for _ in range(k))
            elif r < 0.2:
                out.append("")
    body = "\n".join(out)
    if dirty and rnd.random() < 0.3:
        body += rnd.choice(["\n", "\n\n", " \n", "\n\n\n\n" + indent])
    if body.endswith(q) or body.endswith("\\"):
        body += " "
    return prefix + q * 3 + body + q * 3


def gen_module(rnd: random.Random, dirty: bool = True, odd_indent: bool = True, cont: bool = True,
               dirty_lit: bool = True) -> str:
    """A valid module in the style pyrefact leaves alone (no rule fires on the clean variants), with literal
    slots, comments, blank-line runs, trailing blanks, long lines and (odd_indent) unusual indentation."""
    counter = itertools.count()

    def unit():
        if not odd_indent:
            return "    "
        return rnd.choice(["    ", "    ", "    ", "\t", "  ", "   ", "        ", "\t ", "\t\t", "\t  "])

    def L(ind="", ml=True):
        return gen_literal(rnd, dirty and dirty_lit, ml, ind, cont)

    def trail():
        return rnd.choice(["", "", "", " ", "  ", "\t", " \t"]) if dirty else ""

    def comment():
        r = rnd.random()
        if r < 0.6:
            return ""
        tab = "\t" if dirty and rnd.random() < 0.4 else " "
        return f"  # note{tab}{rnd.choice(WORDS)}{trail()}"

    def inner_blank():
        if not dirty:
            return ""
        return "\n" * rnd.choice([0, 0, 0, 1, 2, 3])

    def sp():
        return rnd.choice([" ", " ", " ", "\t", "  "]) if dirty else " "

    def block():
        k = next(counter)
        u = unit()
        kind = rnd.randrange(9)
        if kind == 0:
            return f"print({L()}){comment()}{trail()}\n"
        if kind == 1:
            return f"print(W,{sp()}{L()}){comment()}{trail()}\n"
        if kind == 2:
            return (f"def _f{k}(a):{trail()}\n{u}if a:{comment()}\n{u}{u}print({L(u + u)}){trail()}\n{inner_blank()}"
                    f"{u}return a + {L(u, False)}\n\n\nprint(_f{k}(W))\n")
        if kind == 3:
            return (f"if W:{trail()}\n{u}print({L(u)})\nelif len(W) > 3:\n{u}print({L(u)}){comment()}\nelse:\n"
                    f"{inner_blank()}{u}print({L(u)}){trail()}\n")
        if kind == 4:
            return f"for x in W:{comment()}\n{u}print(x,{sp()}{L(u)}){trail()}\n{inner_blank()}{u}print(x)\n"
        if kind == 5:
            return f"Z{k} = {{{L(ml=False)}: W, \"k\": [1, {L()}]}}{trail()}\nprint(Z{k})\n"
        if kind == 6:
            doc = (rnd.choice(["Doc.", "Doc.", "Doc. \n" + u + "more\t x\n\n\n" + u + "end.\n" + u])
                   if dirty and dirty_lit else "Doc.")
            return (f"class _A{k}:\n{u}\"\"\"{doc}\"\"\"\n\n{u}def __init__(self, q):\n{u}{u}self.q = q{trail()}\n\n"
                    f"{u}def m(self, r):\n{inner_blank()}{u}{u}return self.q + r + {L(u + u)}\n\n\nprint(_A{k}(W).m(W))\n")
        if kind == 7:
            pad = "a" * rnd.choice([30, 70, 110])
            return f"print(W, {L(ml=False)}, \"{pad}\", W, {L(ml=False)}, \"{pad[:40]}\"){comment()}\n"
        return (f"try:{trail()}\n{u}print(W[5],{sp()}{L(u)})\nexcept IndexError:{comment()}\n{u}print({L(u)})\n"
                f"finally:\n{u}print(\"done\"){trail()}\n")

    parts = ["import sys\n\nW = sys.argv\nprint(W)\n"]
    for _ in range(rnd.randint(1, 4)):
        if dirty:
            parts.append("\n" * rnd.choice([0, 0, 1, 2, 3, 5]))
            if rnd.random() < 0.2:
                parts.append("#\tcomment with tab " + trail() + "\n")
        parts.append(block())
    if dirty:
        parts.append(rnd.choice(["", "", "\n", "\n\n", "  \n", "\t", "\n \n\n"]))
    return "".join(parts)


def valid(s: str) -> bool:
    try:
        ast.parse(s)
        return True
    except (SyntaxError, ValueError):
        return False


def _norm_doc(tree, docs=True):
    """the u prefix (Constant.kind) does not change the value; whitespace inside docstrings is outside the
    property (the formatter normalises it by design)"""
    for node in ast.walk(tree):
        if isinstance(node, ast.Constant):
            node.kind = None
        if docs and isinstance(node, (ast.Module, ast.ClassDef, ast.FunctionDef, ast.AsyncFunctionDef)) and node.body:
            first = node.body[0]
            if isinstance(first, ast.Expr) and isinstance(first.value, ast.Constant) and isinstance(first.value.value, str):
                first.value.value = "".join(first.value.value.split())
    return tree


def ast_key(s: str, docs=True):
    """ast.dump of the module (u prefix ignored; docstring whitespace removed when docs); None if it does
    not parse"""
    try:
        tree = ast.parse(s)
    except (SyntaxError, ValueError):
        return None
    return ast.dump(_norm_doc(tree, docs))


# ------------------------------------------------------------------------------------------------
# minimize_whitespace_line_differences


LINES = ["a\n", "b\n", "\n", "  \n", " a\n", "c\n"]
TAGN = {" ": 0, "+": 1, "-": 2, "?": 3}


def differ_script(old_lines, new_lines):
    return [(TAGN[d[0]], d[2:]) for d in difflib.Differ().compare(old_lines, new_lines)]


class FakeDifflib:
    """stands in for the `difflib` module inside pyrefact.processing: Differ().compare(..) returns a
    prepared script, so that the code is exercised on scripts difflib itself would not produce"""

    def __init__(self, script):
        self.script = script

    def Differ(self):
        return self

    def compare(self, a, b):
        inv = {v: k for k, v in TAGN.items()}
        return [inv[t] + " " + ln for t, ln in self.script]


def random_script(rnd, maxlen=7):
    return [(rnd.choice([0, 0, 1, 1, 2, 2, 3]), rnd.choice(LINES) if rnd.random() < 0.9 else "\t\n")
            for _ in range(rnd.randint(0, maxlen))]


def run_minimize(mods, script):
    proc = mods["processing"]
    old = [ln for t, ln in script if t in (0, 2)]
    new = [ln for t, ln in script if t in (0, 1)]
    real = proc.difflib
    proc.difflib = FakeDifflib(script)
    try:
        out, _, _ = proc.minimize_whitespace_line_differences("".join(old), "".join(new))
    finally:
        proc.difflib = real
    return out, new


def minimize_case(script, out_lines) -> str:
    sc = glist([f"({t}, {hx(ln)})" for t, ln in script])
    return f"({sc}, {glist([hx(l) for l in out_lines])})"


# ------------------------------------------------------------------------------------------------
# fix_import_spacing


STMTS = {
    "imp_std": ["import os", "import sys", "import re"],
    "imp_3rd": ["import numpy", "import pandas as pd", "import yaml"],
    "from_std": ["from pathlib import Path", "from typing import List"],
    "from_fut": ["from __future__ import annotations"],
    "def": ["def f{k}():\n{I}    return 1", "async def g{k}():\n{I}    return 2"],
    "class": ["class C{k}:\n{I}    x = 1"],
    "stmt": ["x{k} = 1", "print({k})", "if x{k}:\n{I}    pass"],
}


def import_pairs(mods, source):
    """The per-pair facts fix_import_spacing computes, obtained with the code's own helpers."""
    core, fixes, formatting = mods["core"], mods["fixes"], mods["formatting"]
    root = core.parse(source)
    template = (ast.Import, ast.ImportFrom)
    res = []
    for (i1, *_), (i2, *_) in core.walk_sequence(root, ast.AST, ast.AST):
        _, e1 = core.get_charnos(i1, source)
        s2, e2 = core.get_charnos(i2, source)

        def kind(n):
            imp = isinstance(n, template)
            return (imp, bool(imp and fixes._is_stdlib(n)), bool(imp and fixes._is_future(n)),
                    isinstance(n, (ast.FunctionDef, ast.ClassDef, ast.AsyncFunctionDef)))
        ind = formatting.indentation_level(source[e1:s2] + source[s2:e2])
        res.append((kind(i1), kind(i2), e1, s2, ind))
    return res


def import_case(source, pairs, out) -> str:
    ps = glist([f"(mkP {' '.join(gbool(b) for b in a)} {' '.join(gbool(b) for b in b)} {s} {e} {i})"
                for a, b, s, e, i in pairs])
    return f"({hx(source)}, {ps}, {hx(out)})"


def import_sources(tier, rnd):
    """ALL ordered pairs of statement kinds x 1..4 newlines x (module level | inside `if`), plus seeded
    longer sequences."""
    res = []
    kinds = list(STMTS)
    k = itertools.count()
    for a, b in itertools.product(kinds, kinds):
        for nl in (1, 2, 3, 4):
            for nested in (False, True):
                I = "    " if nested else ""
                sa = STMTS[a][0].format(k=next(k), I=I)
                sb = STMTS[b][0].format(k=next(k), I=I)
                src = ("if True:\n" if nested else "") + I + sa + "\n" * nl + I + sb + "\n"
                res.append(src)
    for _ in range(150 if tier == "quick" else 1500):
        n = rnd.randint(2, 5)
        nested = rnd.random() < 0.3
        I = "    " if nested else ""
        src = "if True:\n" if nested else ""
        for i in range(n):
            kd = rnd.choice(kinds)
            st = rnd.choice(STMTS[kd]).format(k=next(k), I=I)
            sep = "\n" * rnd.randint(1, 4)
            if rnd.random() < 0.15:
                sep = sep[:-1] + "  \n" if len(sep) > 1 else sep     # a blank line holding spaces
            if rnd.random() < 0.1:
                sep = "  # c" + sep                                   # a comment between: left alone
            src += I + st + (sep if i < n - 1 else "\n")
        res.append(src)
    return [s for s in res if valid(s)]


# ------------------------------------------------------------------------------------------------
# indentation reference (indent_cmp) against CPython


def cpython_indent_class(s1, s2) -> int:
    def ok(src):
        try:
            compile(src, "<i>", "exec")
            return True
        except SyntaxError:
            return False
    if ok(f"if 1:\n{s1}x = 1\n{s1}if 1:\n{s2}y = 2\n"):
        return 0
    if ok(f"if 1:\n{s1}x = 1\n{s2}y = 2\n"):
        return 1
    if ok(f"if 1:\n{s2}x = 1\n{s2}if 1:\n{s1}y = 2\n"):
        return 2
    return 3


def python_ws_ranges():
    """maximal ranges of code points matched by `\\s` (str pattern); isspace()/strip() must agree"""
    pat = re.compile(r"\s")
    pts = []
    for c in range(0x110000):
        ch = chr(c)
        m = bool(pat.fullmatch(ch))
        if m != ch.isspace() or m != (ch.strip() == ""):
            return None
        if m:
            pts.append(c)
    rngs = []
    for c in pts:
        if rngs and rngs[-1][1] == c - 1:
            rngs[-1][1] = c
        else:
            rngs.append([c, c])
    return [tuple(r) for r in rngs]


# ------------------------------------------------------------------------------------------------
# the check


SWEEP_SEED = 20240611          # the deterministic sweep corpus does not depend on VERIF_SEED
LINE_LENGTHS = [40, 60, 79, 100, 140]

WITNESSES = {
    # finding id -> (stage whose oracle fails, input)
    "F11-1": ("expandtabs", 'print("a\tb")\n'),
    "F11-2": ("rmspace", 'print("""a  \nb""")\n'),
    "F11-3": ("blank_lines", 'print("""a\n\n\n\n\nb""")\n'),
    "F11-4": ("expandtabs", "a = b = 1\nif a:\n    \tx = 1\n    \tif b:\n   \t  y = 2\n    \tprint(x)\n"),
}
FIXED_WITNESSES = {
    # fixed id -> inputs that format_code must now leave AST-equal
    "F11-5": ["import sys\n\nW = sys.argv\nif W:\n    print(W)\nelse:\n    print(F'''a bc bc\n    bc\n{W} de f''')\n",
              "import sys\n\nW = sys.argv\nif W:\n    print(W, F'q\\\n bc')\n"],
    "F11-6": ["import sys\n\nW = sys.argv\nprint(W)\nprint(W, '''a\n                q''')\n",
              "import sys\n\nW = sys.argv\nprint(W)\nprint(W, '''a\n)\n)\nb''')\n"],
}
ALL_FIXED = [w for ws in FIXED_WITNESSES.values() for w in ws]


def stage_oracle(stage, a, b):
    """The property on one real stage call a -> b (a parses): same AST; returns a problem or None."""
    ka = ast_key(a, docs=False)
    if ka is None:
        return None
    kb = ast_key(b, docs=False)
    if kb is None:
        return "valid input became unparsable"
    if ka != kb:
        return "syntax tree changed"
    return None


def classify(kf, site_stage, a, mask):
    """first listed finding whose structural predicate explains a failure of `site_stage` on input a"""
    case = {"stage": site_stage, "input": a, "mask": mask}
    for f in kf:
        if f.kind != "finding":
            continue
        pred = SIGS.get(f.fields.get("sig", ""))
        try:
            if pred and pred(case):
                return f
        except Exception:  # noqa
            continue
    return None


def check(run: common.Run):
    wd = common.workdir(PID)
    ps = common.proof_step(run, PID, wd)
    mods = common.import_impl()
    rnd = random.Random(run.seed)
    quick = run.tier == "quick"
    hist = Counter()
    kf = common.load_findings(PID)
    failing = []          # property violated on the real code, not explained by a listed finding
    explained = Counter()
    example = {}
    notes = []

    def crashed(site, stage, inp, e, **extra):
        """an exception out of the real code is a failing input by itself (the stage did not return a program)"""
        if sum(1 for f in failing if f.get("crash")) < 20:
            failing.append({"site": site, "stage": stage, "input": inp, "crash": True,
                            "problem": f"exception {type(e).__name__}: {e}", **extra})

    def safe_prepass(pr, s):
        try:
            return pr.prepass(s)
        except Exception as e:  # noqa
            crashed("main.format_code (pre-pass)", "prepass", s, e)
            return None

    files, meta = [], {}
    disagreements_early = []

    def add_files(name, typ, okfun, items, info, shard):
        for p, k in write_cases(wd, name, typ, okfun, items, shard):
            files.append(p)
            meta[p] = (name, info[k:k + shard])

    T = [__import__('time').time()]

    def lap(what):
        now = __import__('time').time()
        common.log(f'[c11] {what}: {now - T[0]:.1f}s')
        T[0] = now

    lap('proof step')
    with Probe(mods) as pr:
        # ---- 1. text stages, exhaustive small scope (seed independent)
        try:
            pats = pr.patterns()
        except Exception as e:  # noqa
            crashed("fixes.fix_too_many_blank_lines", "blank_lines", "a\n", e)
            pr.in_ftmbl = False
            pats = []
        if len(pats) != 3:
            failing_shape = f"fix_too_many_blank_lines makes {len(pats)} re.sub calls"
            run.violation({"kind": "correspondence", "kernel": "K12", "detail": failing_shape,
                           "explanation": "the modelled function no longer has the modelled shape"}, False)
            pats = (pats + [("(?!)", "")] * 3)[:3]
        seen, items, info = set(), [], []

        def add_stage(st, a, b, mask=None, outmask=None):
            key = (st, a, b, None if mask is None else tuple(mask), None if outmask is None else tuple(outmask))
            if key in seen:
                return
            seen.add(key)
            items.append(stage_case(st, a, b, mask, outmask))
            info.append((st, a, b))
            hist["stage:" + st] += 1

        strs = short_strings(run.tier)
        n_short = len(strs)
        sitems, sinfo, ritems, rinfo = [], [], [], []
        for s in strs:
            r = safe_prepass(pr, s)
            if r is None:
                continue
            if not (r["rmspace"][0] == r["expandtabs"][1] and r["sub1"][0] == r["rmspace"][1]
                    and r["sub2"][0] == r["sub1"][1] and r["sub3"][0] == r["sub2"][1]
                    and r["blank_lines"] == (r["sub1"][0], r["sub3"][1])):
                for st in STAGES:
                    add_stage(st, *r[st])
                continue
            sitems.append(chain_case(r, (None, None, None, None), (True, True, True)))
            sinfo.append(("prepass-chain", s, r["sub3"][1]))
            for st in ("expandtabs", "rmspace", "sub1", "sub2", "sub3"):
                hist["stage:" + st] += 1
                if r[st][0] != r[st][1]:
                    hist["changed:" + st] += 1
            # the scanners of the 2nd and 3rd substitution on the raw string too (in the pipeline they only
            # see outputs of the 1st), with the patterns the real function passes to re.sub
            o2 = re.sub(pats[1][0], pats[1][1], s)
            o3 = re.sub(pats[2][0], pats[2][1], s)
            b = s
            for p_, r_ in pats:
                b = re.sub(p_, r_, b)
            ritems.append(f"({enc2(s)}, {enc2(o2)}, {enc2(o3)}, {enc2(b)})")
            rinfo.append(("raw-sub2-sub3-blank_lines", s, (o2, o3, b)))
        add_files("short", "chain", "chain_ok", sitems, sinfo, 1500)
        add_files("raw", "string * string * string * string", "raw_ok", ritems, rinfo, 2500)
        n_exh_cases = 7 * len(sitems) + 3 * len(ritems)
        lap('exhaustive strings (impl)')

        # ---- 2. text stages on generated modules (seeded) + mask transport + guards + the oracle
        modules = []
        for w in WITNESSES.values():
            modules.append(w[1])
        modules += ALL_FIXED
        nmod = 120 if quick else 1500
        for i in range(nmod):
            modules.append(gen_module(rnd, dirty=True, odd_indent=rnd.random() < 0.6, dirty_lit=i % 3 != 0))
        citems, cinfo = [], []
        n_masked = 0
        for s in modules:
            if not valid(s):
                hist["module:invalid"] += 1
                continue
            r = safe_prepass(pr, s)
            if r is None:
                continue
            consistent = (r["rmspace"][0] == r["expandtabs"][1] and r["sub1"][0] == r["rmspace"][1]
                          and r["sub2"][0] == r["sub1"][1] and r["sub3"][0] == r["sub2"][1]
                          and r["blank_lines"] == (r["sub1"][0], r["sub3"][1]))
            if not consistent:      # the stages no longer feed each other the way format_code is modelled
                for st in STAGES:
                    add_stage(st, *r[st])
                continue
            ms, me, mr, mb = (literal_mask(x) for x in (s, r["expandtabs"][1], r["rmspace"][1], r["sub3"][1]))
            guards = []
            for gid, (st, a, ma) in enumerate((("expandtabs", s, ms), ("rmspace", r["rmspace"][0], me),
                                               ("blank_lines", r["blank_lines"][0], mr))):
                g = GUARDS[gid](a, ma) if ma is not None else True
                guards.append(g)
                if ma is None:
                    continue
                b = r[st][1]
                mb_ = literal_mask(b)
                hist[f"guard:{st}:{g}"] += 1
                hist["stage:" + st] += 1
                # T11.2 on the real code: guard holds => the literals come out untouched
                if g and mb_ is not None and lit_of(a, ma) != lit_of(b, mb_):
                    failing.append({"site": STAGE_SITE[st], "stage": st, "input": a, "output": b,
                                    "problem": "guard holds but the literal characters changed"})
                prob = stage_oracle(st, a, b)
                if prob:
                    f = classify(kf, st, a, ma)
                    if f is None:
                        failing.append({"site": STAGE_SITE[st], "stage": st, "input": a, "output": b,
                                        "problem": prob})
                    else:
                        explained[f.id] += 1
                        example.setdefault(f.id, (a, b))
            n_masked += bool(ms and any(ms))
            citems.append(chain_case(r, (ms, me, mr, mb), guards))
            cinfo.append(("prepass-chain", s, r["sub3"][1]))
        lap('generated modules (impl)')
        add_files("stage", "stage_case", "stage_case_ok", items, info, 3000)
        add_files("chain", "chain", "chain_ok", citems, cinfo, 12)

        # ---- 3. end-to-end sweep (deterministic): format_code on modules in which no rule fires
        srnd = random.Random(SWEEP_SEED)
        corpus = [w[1] for w in WITNESSES.values()] + ALL_FIXED
        for i in range(60 if quick else 600):
            corpus.append(gen_module(srnd, dirty=(i % 3 != 0), odd_indent=(i % 2 == 0), cont=False))
        fam = restore_family()
        corpus += fam if not quick else fam[::2]
        fam2 = semicolon_family()
        corpus += fam2 if not quick else fam2[::2]
        fam3 = continued_literal_family()
        corpus += fam3 if not quick else fam3[::2]
        corpus += prefix_family(quick)
        pr.record_frames = True
        n_e2e = 0
        post_seen, pitems, pinfo = set(), [], []
        pr.record_restores = True
        for idx, s in enumerate(corpus):
            if not valid(s):
                continue
            lls = LINE_LENGTHS if (not quick or idx % 4 == 0) else [LINE_LENGTHS[(idx * 7) % len(LINE_LENGTHS)], 100]
            r = safe_prepass(pr, s)
            pre = r["prepass"][1] if r else s
            mask = literal_mask(s)
            for ll in dict.fromkeys(lls):
                try:
                    out, calls = pr.full(s, max_line_length=ll)
                except Exception as e:  # noqa
                    failing.append({"site": "main.format_code", "stage": "format_code", "input": s,
                                    "line_length": ll, "problem": f"exception {type(e).__name__}: {e}"})
                    continue
                n_e2e += 1
                # every later call of the modelled stages (main.py:154, 258) is a correspondence case too
                for st, a, b in calls[5:]:
                    if st in STAGES and (st, a) not in post_seen:
                        post_seen.add((st, a))
                        pitems.append(f"({STAGES[st]}, {enc2(a)}, {enc2(b)})")
                        pinfo.append((st, a, b))
                k_in, k_out = ast_key(s), ast_key(out)
                if k_out == k_in:
                    hist["e2e:same-ast"] += 1
                    continue
                k_pre = ast_key(pre)
                f = classify(kf, "format_code", s, mask) if mask is not None else None
                if k_out == k_pre and f is not None:
                    # the whole difference is the one made by the raw-text pre-pass, and the input has the
                    # structural feature of a listed finding
                    explained[f.id] += 1
                    hist["e2e:explained-by-prepass"] += 1
                elif k_out is None and k_pre is None and f is not None and f.fields.get("sig") == "mixed_indent":
                    explained[f.id] += 1
                    hist["e2e:explained-by-prepass"] += 1
                else:
                    failing.append({"site": "main.format_code", "stage": "format_code", "input": s, "output": out,
                                    "line_length": ll,
                                    "problem": "syntax tree changed beyond what the pre-pass does"
                                    if k_out is not None else "output does not parse"})
        pr.record_restores = False
        pr.record_frames = False
        post_calls = len(pitems)

        # ---- 3a. indented snippets: format_code dedents them (main.py: minimum_indent = indentation_level,
        # textwrap.dedent) and re-indents the result at the end -- the same frame as FrameModel (T11.9): the
        # result, dedented, must have the syntax tree of the dedented input and sit at the same indentation
        import textwrap as _tw
        snrnd = random.Random(SWEEP_SEED + 1)
        n_snip = 0
        for i in range(12 if quick else 120):
            base = gen_module(snrnd, dirty=False, odd_indent=False, cont=False)
            for kk in (1, 2, 4):
                sn = _tw.indent(base, " " * kk)
                if valid(sn) or not valid(base):
                    continue
                n_snip += 1
                try:
                    out, _ = pr.full(sn)
                except Exception as e:  # noqa
                    crashed("main.format_code", "format_code", sn, e)
                    continue
                ok = (ast_key(_tw.dedent(out)) == ast_key(base)
                      and all(l.startswith(" " * kk) for l in out.split("\n") if l.strip())
                      and mods["formatting"].indentation_level(out) == kk)
                hist["snippet:" + ("ok" if ok else "changed")] += 1
                if not ok:
                    failing.append({"site": "main.format_code", "stage": "format_code", "input": sn, "output": out,
                                    "problem": f"indented snippet (indent {kk}): the result is not the input's "
                                               "program at the input's indentation"})
        add_files("post", "nat * string * string", "long_case_ok", pitems, pinfo, 60)

        # ---- 3b. the quote-restoration step: every real call seen during the sweep vs RestoreModel, and the
        # property on the call itself (restoring the original spelling must not change the syntax tree)
        rseen, ritems2, rinfo2 = set(), [], []
        for f in pr.restores:
            if f is None or (f["original"], f["new"]) in rseen:
                continue
            rseen.add((f["original"], f["new"]))
            hist["restore:" + ("replaced" if f["replaced"] else "left-alone")] += 1
            if f["mods_differ"]:
                hist["restore:one-value-under-different-prefix-letters"] += 1
            if f["prefix_changed"]:
                hist["restore:written-under-another-prefix"] += 1
            if ast_key(f["out"], docs=False) != ast_key(f["new"], docs=False):
                failing.append({"site": "processing._substitute_original_strings", "stage": "restore",
                                "input": f["new"], "original": f["original"], "output": f["out"],
                                "problem": "restoring the original quoting changed the syntax tree"})
            if f["replaced"] or len(ritems2) < (300 if quick else 3000):
                ritems2.append(restore_case(f))
                rinfo2.append(("restore", f["new"], f["out"], f["original"]))
        # ---- 3c. the dedent / re-indent frame of fix_line_lengths: every statement range seen during the sweep
        fseen, fitems, finfo = set(), [], []
        for fr in pr.frames:
            cur, n = fr["cur"], fr["n"]
            # format_with_black has a dedent / re-indent frame of its own; it is dead code as long as
            # fix_line_lengths hands it code whose indentation level is 0 (checked here on every call)
            if mods["formatting"].indentation_level(fr["black"][0]) != 0:
                hist["frame:black-input-indented"] += 1
                disagreements_early.append({"file": "frame", "case": ("format_with_black got indented code", cur, n)})
            if any(ch.isspace() and ch not in " \n" for ch in cur):
                hist["frame:outside-domain"] += 1
                continue
            if n > 0 and ("ded" not in fr or "ind" not in fr or fr["ind"][1] != " " * n):
                disagreements_early.append({"file": "frame", "case": ("fix_line_lengths frame has another shape",
                                                                      cur, n, sorted(fr))})
                continue
            ded = fr.get("ded", "") if n > 0 else ""
            new_, ind = (fr["ind"][0], fr["ind"][2]) if n > 0 else ("", "")
            key = (cur, n, ded, new_, ind)
            if key in fseen:
                continue
            fseen.add(key)
            hist["frame:" + ("indented" if n > 0 else "level0" + ("-after-blanks" if cur[:1] == " " else ""))] += 1
            if n == 0 and cur[:1] != " " and len(fitems) > (400 if quick else 4000):
                continue

            def ls(x):
                return glist([enc2(l) for l in x.split("\n")])
            fitems.append(f"({ls(cur)}, {n}, {ls(ded)}, {ls(new_)}, {ls(ind)})")
            finfo.append(("frame", cur, ind if n > 0 else cur, n))
        add_files("frame", "list string * nat * list string * list string * list string", "frame_case_ok",
                  fitems, finfo, 150)
        add_files("restore", "bool * list (nat * nat * bool * list N * option nat) * list (nat * nat * bool * list N) "
                             "* adjtab * list (option nat)",
                  "restore_write_case_ok", ritems2, rinfo2, 150)
        fseen2, fritems, frinfo = set(), [], []
        for f in pr.frestores:
            if f is None or (f["original"], f["new"]) in fseen2:
                continue
            fseen2.add((f["original"], f["new"]))
            if not f["news"]:
                continue
            hist["frestore:" + ("replaced" if f["replaced"] else "left-alone")] += 1
            if ast_key(f["out"], docs=False) != ast_key(f["new"], docs=False):
                failing.append({"site": "processing._substitute_original_fstrings", "stage": "frestore",
                                "input": f["new"], "original": f["original"], "output": f["out"],
                                "problem": "restoring the original f-string spelling changed the syntax tree"})
            if f["replaced"] or len(fritems) < (300 if quick else 3000):
                fritems.append(frestore_case(f))
                frinfo.append(("frestore", f["new"], f["out"], f["original"]))
        add_files("frestore", "list (nat * nat * bool) * list (nat * nat * bool * bool) * list (list nat)",
                  "frestore_case_ok", fritems, frinfo, 150)

    lap('e2e sweep')
    # ---- 4. minimize_whitespace_line_differences: exhaustive short scripts + seeded + real difflib
    mitems, minfo = [], []
    scripts = []
    alphabet = [(t, ln) for t in (0, 1, 2, 3) for ln in ("a\n", "\n", " \n")]
    for n in range(0, 4 if quick else 5):
        scripts += [list(t) for t in itertools.product(alphabet, repeat=n)]
    n_scripts_exh = len(scripts)
    for _ in range(400 if quick else 6000):
        scripts.append(random_script(rnd))
    for _ in range(150 if quick else 2000):     # what difflib really produces
        old = [rnd.choice(LINES) for _ in range(rnd.randint(0, 6))]
        new = [rnd.choice(LINES) for _ in range(rnd.randint(0, 6))]
        scripts.append(differ_script(old, new))
    for sc in scripts:
        try:
            with common.quiet():
                out, new = run_minimize(mods, sc)
        except Exception as e:  # noqa
            crashed("processing.minimize_whitespace_line_differences", "minimize_ws", "".join(l for _, l in sc), e,
                    script=sc)
            continue
        out_lines = out.splitlines(keepends=True)
        mitems.append(minimize_case(sc, out_lines))
        minfo.append(("minimize_ws", sc, out))
        hist["minimize"] += 1
        # T11.4 on the real code
        if [l for l in out_lines if l.strip()] != [l for l in new if l.strip()]:
            failing.append({"site": "processing.minimize_whitespace_line_differences", "stage": "minimize_ws",
                            "script": sc, "output": out, "problem": "non-blank lines differ from the new text"})
    add_files("minimize", "list (nat * string) * list string", "minimize_case_ok", mitems, minfo, 1500)

    lap('minimize')
    # ---- 5. fix_import_spacing
    iitems, iinfo = [], []
    for src in import_sources(run.tier, rnd):
        mods["core"].parse.cache_clear()
        try:
            with common.quiet():
                pairs = import_pairs(mods, src)
                out = mods["fixes"].fix_import_spacing(src)
        except Exception as e:  # noqa
            crashed("fixes.fix_import_spacing", "import_spacing", src, e)
            continue
        iitems.append(import_case(src, pairs, out))
        iinfo.append(("import_spacing", src, out))
        hist["import:" + ("changed" if out != src else "same")] += 1
        if ast_key(out, docs=False) != ast_key(src, docs=False):
            failing.append({"site": "fixes.fix_import_spacing", "stage": "import_spacing", "input": src, "output": out,
                            "problem": "syntax tree changed"})
    add_files("import", "string * list pair_info * string", "import_case_ok", iitems, iinfo, 400)

    lap('import spacing')
    # ---- 6. reference definitions against CPython: indentation order, whitespace class
    ind = ["".join(t) for n in range(1, 5 if quick else 6) for t in itertools.product(" \t", repeat=n)]
    ditems, dinfo = [], []
    for s1, s2 in itertools.product(ind, ind):
        c = cpython_indent_class(s1, s2)
        ditems.append(f"({hx(s1)}, {hx(s2)}, {c})")
        dinfo.append(("indent_cmp", s1, s2, c))
    add_files("indent", "string * string * nat", "indent_case_ok", ditems, dinfo, 1000)
    pws = python_ws_ranges()
    wsfile = wd / "wsranges.v"
    wsfile.write_text(HEADER + "Eval vm_compute in ws_ranges.\n")

    lap('reference defs')
    results = common.run_case_files(files + [wsfile])
    lap(f'coq case files ({len(files)})')
    disagreements = list(disagreements_early)
    for p in files:
        rc, out = results[p]
        idx = common.parse_nat_list(out) if rc == 0 else None
        name, inf = meta[p]
        if idx is None:
            disagreements.append({"file": p.name, "error": out[-1500:]})
            continue
        for i in idx:
            disagreements.append({"file": p.name, "case": inf[i]})
    rc, out = results[wsfile]
    coq_ws = [(int(a), int(b)) for a, b in re.findall(r"\(\s*(\d+)(?:%N)?,\s*(\d+)(?:%N)?\s*\)", out)] if rc == 0 else None
    if pws is None or coq_ws != pws:
        disagreements.append({"file": "wsranges.v", "case": ("is_space", coq_ws, pws)})

    # ---- 7. known findings: replay the witnesses; fixed ones must pass
    with Probe(mods) as pr:
        for f in kf:
            if f.kind == "finding" and f.id in WITNESSES:
                st, w = WITNESSES[f.id]
                r = safe_prepass(pr, w)
                if r is None:
                    continue
                a, b = r[st]
                prob = stage_oracle(st, a, b)
                ma = literal_mask(a)
                if prob and classify([f], st, a, ma) is f:
                    ea, eb = example.get(f.id, (a, b))
                    run.known_finding(f.id, f"{f.text} [witness {w!r}: {prob}; {explained[f.id]} explained "
                                            f"failures in this run]")
                else:
                    common.log(f"note: known finding {f.id} no longer reproduces")
            elif f.kind == "fixed" and f.id in FIXED_WITNESSES:
                for w in FIXED_WITNESSES[f.id]:
                    try:
                        out, _ = pr.full(w)
                    except Exception as e:  # noqa
                        crashed("main.format_code", "format_code", w, e)
                        continue
                    if ast_key(out) != ast_key(w):
                        failing.append({"site": "main.format_code", "stage": "format_code", "input": w,
                                        "output": out, "problem": f"repaired defect {f.id} is back"})
    for fid, n in explained.items():
        if not any(f.id == fid and f.kind == "finding" for f in kf):
            notes.append(f"explained failures for unknown finding id {fid}")

    # ---- verdicts
    for pf in failing[:6]:
        run.violation({"kind": "property-oracle", **pf,
                       "explanation": "a layout stage changed the program (syntax tree / literal contents) and no "
                                      "listed finding explains it"}, True)
    if not failing:
        for d in disagreements[:6]:
            run.violation({"kind": "correspondence", "kernel": "K12", "detail": d,
                           "explanation": "model and implementation disagree; the property oracle found no failing "
                                          "input among the generated modules"}, False)
    if ps.get("props") and not ps["props"]["ok"]:
        prp = ps["props"]
        run.violation({"kind": "proof", "file": prp["file"], "broken": prp.get("broken"), "log": prp["log"],
                       "explanation": "a property theorem no longer checks"}, bool(failing))

    run.coverage.update(
        evaluations=len(info) + len(rinfo2) + len(frinfo) + len(finfo) + 7 * len(sinfo) + 3 * len(rinfo) + 7 * len(cinfo) + len(pinfo) + len(minfo) + len(iinfo) + len(dinfo) + n_e2e,
        distinct_nontrivial=len({(st, a) for (st, a, b) in info + sinfo + cinfo + pinfo if a != b})
        + len({x[1] for x in rinfo2 if x[1] != x[2]})
        + len({json.dumps(x[1]) for x in minfo if any(t != 0 for t, _ in x[1])})
        + len({x[1] for x in iinfo if x[1] != x[2]}),
        rule=("text stages: the real format_code is run up to the end of its raw-text pre-pass with recording "
              "proxies; every intermediate text (expandtabs, rmspace, the three re.sub of fix_too_many_blank_lines) "
              f"is compared with the model: ALL {n_short} strings of length <= {6 if quick else 7} over {{a,SP,TAB,NL}} and <= {4 if quick else 6} over "
              "that alphabet + CR, FF (exhaustive, seed independent), the 2nd/3rd substitution and the whole "
              "function also on every raw string; then seeded generated modules (multi-line/raw/bytes/f-string "
              "literals with tabs, trailing blanks, blank-line runs, long lines, comments, odd indentation) with "
              "their tokenize masks (mask transport and the three guards are compared too). minimize_ws: ALL "
              f"scripts of length <= {3 if quick else 4} over 4 tags x 3 lines through a stand-in Differ, seeded "
              "random scripts, real difflib scripts. import spacing: ALL ordered pairs of 7 statement kinds x "
              "1..4 newlines x nesting, seeded sequences. quote restoration: every real call of "
              "_substitute_original_strings during the sweep (incl. the f-string-fragment family and the prefix family: "
              "every pair of spellings of one value under u / r / f / rf / b / rb prefixes, upper and lower case, both "
              "quote styles, triple quotes) vs RestoreModel.restore_write, the exact text written compared. "
              "fix_line_lengths frame: every (range, indent, dedent, re-indent) seen during the sweep vs FrameModel. "
              "Non-trivial = the stage changed the text / the script "
              "has a non-Keep entry / the spacing changed; distinct by (stage, input)."),
        samples=[sinfo[1717][1], cinfo[5][1][:300] if len(cinfo) > 5 else "",
                 corpus[5][:300], minfo[n_scripts_exh + 1][1] if len(minfo) > n_scripts_exh + 1 else "",
                 iinfo[9][1]],
        exhaustive=False, exhaustive_short_strings=n_short, exhaustive_cases=n_exh_cases,
        exhaustive_scripts=n_scripts_exh, histogram=dict(hist),
        generated_modules=len(modules), modules_with_literals=n_masked,
        correspondence_disagreements=len(disagreements), property_oracle_failures=len(failing),
        explained_by_known_findings=dict(explained),
        sweep={"format_code_runs": n_e2e, "corpus": len(corpus), "line_lengths": LINE_LENGTHS,
               "oracle": "ast.dump equal (docstring whitespace and the u prefix ignored)",
               "post_pass_stage_calls_checked": post_calls, "indented_snippets": n_snip},
        unmodelled=["black.format_str (line wrapping)", "compactify.format_code",
                    "fixes.fix_line_lengths: statement ranges, elif handling, what black does between dedent and re-indent "
                    "(the dedent/re-indent frame IS modelled: FrameModel.v)",
                    "processing._do_rewrite / _replace_nodes; of the b/r/f prefix adjustment inside "
                    "_substitute_original_strings the str.lstrip('brfBRF') + concatenation (a table built by the harness "
                    "with the same expression; the exact text written is compared)",
                    "difflib.Differ (abstracted: the theorems hold for every script)",
                    "core.get_charnos / walk_sequence / _is_stdlib feeding fix_import_spacing (inputs of the model)",
                    "textwrap.dedent / indent"],
        trusted_base=common.TRUSTED_BASE_COMMON + [
            "tokenize as the definition of 'inside a literal' (harness literal_mask)",
            "recording proxies in harness/c11.py (Probe): they forward to the real rmspace / re / "
            "fix_too_many_blank_lines and only log",
            "hex text encoding and decoders in coq/theories/LayoutCases.v",
            "is_space / indent_cmp are definitions, compared with CPython (re \\s, str.isspace, str.strip for all "
            "code points; compile() for all indentation strings up to length 4) on every run"],
    )
    if notes:
        run.notes += notes
    run.assumptions += [
        "black, compactify, fix_line_lengths, _substitute_original_fstrings, _do_rewrite are not modelled: only the deterministic "
        "sweep (AST equality on generated rule-free modules, 5 line lengths) speaks for them",
        "the mask is the tokenize mask; an f-string is masked from its opening to its closing quote",
        "whitespace inside docstrings is outside the property (normalised before comparing)",
        "T11.6 covers indentation of the form TAB* SP*; other mixtures are known finding F11-4"]


def replay(path: str) -> int:
    data = json.loads(Path(path).read_text())
    mods = common.import_impl()
    print(json.dumps({k: data[k] for k in data if k in ("kind", "explanation", "site", "stage", "input", "output",
                                                          "problem", "detail", "line_length")}, indent=1))
    if data.get("kind") == "property-oracle" and "input" in data:
        with Probe(mods) as pr:
            if data.get("stage") == "format_code":
                out, _ = pr.full(data["input"], max_line_length=data.get("line_length", 100))
                print("now:", repr(out), "same ast:", ast_key(out) == ast_key(data["input"]))
            else:
                r = pr.prepass(data["input"])
                if r and data.get("stage") in r:
                    a, b = r[data["stage"]]
                    print("now:", repr(b), "problem:", stage_oracle(data["stage"], a, b))
    return 0


# ------------------------------------------------------------------------------------------------
# quoting restoration (processing._substitute_original_strings / _substitute_original_fstrings)


FRAGS = ["row", "px", "42", "total_1", "x1", "3.5", "None"]


def restore_family():
    """Deterministic module family for the quote-restoration step: an f-string whose literal fragment is by
    itself a valid expression (identifier / number), a plain literal with exactly the same value elsewhere,
    and something black re-spells (single-quoted literal, upper-case prefix, long line)."""
    res = []
    fstrs = ['f"{frag}{{W}}"', 'f"{{W}}{frag}"', 'f"{{W}}: {{W!r:>8}}{frag}"', "f'{frag}{{W}}'",
             'f"""{frag}{{W}}\n{{W}}{frag}"""', 'F"{{W[0]}}{frag}"']
    triggers = ["print(W, 'single quoted')", "print(W, B'bytes', R'raw\\d')",
                "print(W, \"" + "a" * 70 + "\", \"" + "b" * 70 + "\", W)", "print(W)"]
    k = 0
    for frag in FRAGS:
        for fs in fstrs:
            for plain in ("'{frag}'", '"{frag}"'):
                trig = triggers[k % len(triggers)]
                k += 1
                p = plain.format(frag=frag)
                f = fs.format(frag=frag)
                res.append(f"import sys\n\nW = sys.argv\nprint(W)\nprint(W, {p})\n{trig}\nprint({f})\n")
                if k % 3 == 0:
                    res.append(f"import sys\n\nW = sys.argv\nprint(W)\n\n\ndef _f{k}(a):\n    if a:\n        {trig}\n"
                               f"    return [a, {p}, {f}]\n\n\nprint(_f{k}(W))\n")
    return res


PREFIX_GROUPS = [
    # the value a: quote styles x prefixes u / r / f / rf, upper and lower case, triple quotes
    ["'a'", '"a"', "r'a'", 'R"a"', "u'a'", 'U"a"', "'''a'''", 'r"""a"""', "f'a'", 'F"a"', "rf'a'"],
    # backslash + d: raw against escaped spellings
    ['r"\\d"', '"\\\\d"', "r'\\d'", "'\\\\d'", "R'\\d'", "'''\\\\d'''", "r'''\\d'''"],
    # two blanks (the round-5 alarm: u"  " / r'  ' next to triple-quoted literals)
    ['"  "', 'u"  "', "r'  '", "'  '", "R'  '", 'r"""  """', "U'''  '''"],
    # backslash + n: pasting the raw body under no prefix gives a line break (repair c664901)
    ["r'\\n'", "'\\\\n'", 'R"\\n"', '"\\\\n"', "u'\\\\n'"],
    # bytes (no str constant: the step must leave them alone whatever black does to the prefix)
    ["b'a'", 'B"a"', "rb'a'", 'Rb"a"', "bR'a'", 'br"a"'],
]


def prefix_family(quick=False):
    """Deterministic module family for the prefix adjustment of the quote-restoration step (repair c664901):
    two spellings of ONE value under different prefixes / quote styles (r"a" vs 'a', r"\\d" vs "\\\\d", u"  " vs
    r'  ', triple quoted ones), one of them the most common or the first seen, in statements black re-spells
    (single quotes, upper-case prefixes, u).  Every unordered pair of every group; majority and tie variant
    (quick tier: alternating); every third module has the literals in a nested statement."""
    res = []
    k = 0
    for group in PREFIX_GROUPS:
        for i, j in itertools.combinations(range(len(group)), 2):
            a, b = group[i], group[j]
            k += 1
            variants = [(a, b, b), (b, a, None)]
            if quick:
                variants = variants[k % 2:][:1]
            for s1, s2, s3 in variants:
                third = f"print(W, {s3})\n" if s3 else ""
                if k % 3:
                    res.append(f"import sys\n\nW = sys.argv\nprint(W, {s1}, {s2})\n{third}print(W, 'single quoted')\n")
                else:
                    res.append(f"import sys\n\nW = sys.argv\n\n\ndef _p{k}(a):\n    if a:\n        return [a, {s1}, {s2}]\n"
                               f"    return [{s3 or s1}, 'single']\n\n\nprint(_p{k}(W))\n")
    # the round-5 alarm (thorough tier, generated module): the first-seen spelling u"  " cannot take the r of the
    # node it would replace (ru"  " is no literal), the repaired step leaves r"  " alone
    res.append('import sys\n\nW = sys.argv\nprint(W)\n\nprint(W, \'\'\'\n\n  \\tbc\na       \\ta     \\tx1\n  \\tde f \'\'\')\n\n\n'
               'if W:\n  print(u"  ")\nelif len(W) > 3:\n  print("""\n\n  \\tde f  \\tbc      \\tde f\n\n    de f\na\n    bc""")\n'
               "else:\n  print(r'  ')\n")
    return res


def continued_literal_family():
    """Deterministic module family (seed C11-c): single-quoted str / bytes / f-string literals continued over several
    lines with backslash-newline, the continuation lines indented by 0..14 blanks (the blanks are CONTENT), with no
    triple quote in the statement, in statements that black re-spells (single quotes, spacing, long lines), at module
    level and nested.  Line-based tools (compactify's dedent of over-indented lines) see these lines as code."""
    res = []
    k = 0
    for pre, q in (("", "'"), ("", '"'), ("b", "'"), ("f", "'"), ("rb", '"')):
        for ind1, ind2 in ((14, 4), (5, 0), (0, 9), (8, 8), (2, 12)):
            k += 1
            esc = "\\n" if "r" not in pre else ""
            fld = "{W[0]!r}" if "f" in pre else "x"
            lit = (f"{pre}{q}usage: prog {fld}{esc}\\\n{' ' * ind1}--verbose   say more{esc}\\\n"
                   f"{' ' * ind2}--quiet     say less{q}")
            for shape in range(3):
                if (k + shape) % 2 and pre not in ("", "f"):
                    continue
                if shape == 0:      # single quotes / spacing make black re-spell the statement
                    stmt = f"U{k} = {lit}\nprint(W,U{k}, 'single quoted')\n"
                elif shape == 1:    # a call that is too long for every line length
                    stmt = (f"print(W, {lit}, 'a trailing argument that makes the statement longer than any limit', "
                            f"'another one that is quite long as well', W)\n")
                else:               # nested statement
                    stmt = f"def _g{k}(a):\n    if a:\n        return [a, {lit}, 'single']\n    return a\n\n\nprint(_g{k}(W))\n"
                res.append(f"import sys\n\nW = sys.argv\nprint(W)\n{stmt}")
    return res


PREFIX_CHARS = "bBrRfFuU"


def _is_literal_of(text: str, value) -> bool:
    """CPython's verdict: `text`, parsed on its own, is an expression statement holding exactly the string
    constant `value` (what is_valid_python + match_template(Constant(value)) ask)."""
    try:
        tree = ast.parse(text)
    except (SyntaxError, ValueError):
        return False
    return (len(tree.body) == 1 and isinstance(tree.body[0], ast.Expr)
            and isinstance(tree.body[0].value, ast.Constant) and type(tree.body[0].value.value) is type(value)
            and tree.body[0].value.value == value)


QUOTES = ("'", '"')


def _pre(text: str) -> str:
    """the characters of a spelling before its first quote character (the loop of processing.py:183-195)"""
    for k, ch in enumerate(text):
        if ch in QUOTES:
            return text[:k]
    return text


def _mods(text: str) -> set:
    return {ch.lower() for ch in _pre(text)} & set("brf")


def _literal_eval(text: str):
    """(True, value) = what ast.literal_eval yields, (False, None) = it raises what the code catches"""
    import warnings
    with warnings.catch_warnings():
        warnings.simplefilter("ignore")     # '\d' pasted under no prefix: invalid escape sequence
        try:
            return True, ast.literal_eval(text)
        except (ValueError, SyntaxError, TypeError):
            return False, None


def restore_facts(mods, original_source, new_source, repl, out):
    """Inputs of RestoreModel.restore_write for one real call, gathered with the code's own helpers (core.parse
    is cached, so the node objects are the ones the call used), and what the call did to every node.  Values
    are interned by (type, repr) -- a bytes / int value literal_eval may yield is another value --, spellings by
    their text; the table of pasted spellings holds CPython's verdict about prefix + spelling.lstrip("brfBRF")
    for every original spelling that is a literal on its own and every prefix a node of the new source asks
    for.  The observation is the exact text written."""
    core = mods["core"]
    try:
        new_ast, orig_ast = core.parse(new_source), core.parse(original_source)
    except SyntaxError:
        return None
    nn = [(n.value, core.get_code(n, new_source), n) for n in core.walk(new_ast, ast.Constant(value=str))]
    on = [(n.value, core.get_code(n, original_source)) for n in core.walk(orig_ast, ast.Constant(value=str))]
    vals, texts = {}, {}

    def vid(v):
        return vals.setdefault((type(v).__name__, repr(v)), len(vals))

    def tid(s):
        return texts.setdefault(s, len(texts))

    def evid(s):
        ok, v = _literal_eval(s)
        return vid(v) if ok else None

    def codes(s):
        return [ord(c) for c in s]
    origs = [(vid(v), tid(s), _is_literal_of(s, v), codes(_pre(s)), evid(s)) for v, s in on]
    news = [(vid(v), tid(s), _is_literal_of(s, v), codes(_pre(s))) for v, s, _ in nn]
    prefixes = sorted({"".join(sorted(_mods(s), key="frb".index)) for _, s, _ in nn})
    adj, seen = [], set()
    for v, s in on:
        if s in seen or not _is_literal_of(s, v):
            continue
        seen.add(s)
        for pfx in prefixes:
            w = pfx + s.lstrip("brfBRF")
            adj.append((tid(s), codes(pfx), tid(w), evid(w)))
    all_in = all(s in original_source for _, s, _ in nn)
    obs, n_prefix_change = [], 0
    for v, s, node in nn:
        r = (repl or {}).get(node)
        if r is None:
            obs.append(None)
            continue
        r = str(r)
        obs.append(tid(r))
        n_prefix_change += _mods(r) != _mods(s) or _pre(r) != _pre(s)
    return {"all_in": all_in, "origs": origs, "news": news, "adj": adj, "obs": obs, "original": original_source,
            "new": new_source, "out": out, "replaced": sum(1 for o in obs if o is not None),
            "mods_differ": any(_mods(s) != _mods(t) for v, s, _ in nn for v2, t in on if v2 == v),
            "prefix_changed": n_prefix_change}


def restore_case(f) -> str:
    def gopt(x):
        return "None" if x is None else f"(Some {x})"

    def gcodes(x):
        return glist([f"{c}%N" for c in x])

    def orig(x):
        return f"({x[0]}, {x[1]}, {gbool(x[2])}, {gcodes(x[3])}, {gopt(x[4])})"

    def new(x):
        return f"({x[0]}, {x[1]}, {gbool(x[2])}, {gcodes(x[3])})"

    def entry(x):
        return f"({x[0]}, {gcodes(x[1])}, {x[2]}, {gopt(x[3])})"
    return (f"({gbool(f['all_in'])}, {glist(f['origs'], orig)}, {glist(f['news'], new)}, {glist(f['adj'], entry)}, "
            f"{glist(f['obs'], gopt)})")


def _is_fstring_of(mods, text: str, key: str) -> bool:
    """`text`, parsed on its own, is an expression statement holding an f-string whose unparse text is key"""
    try:
        tree = ast.parse(text)
    except (SyntaxError, ValueError):
        return False
    return (len(tree.body) == 1 and isinstance(tree.body[0], ast.Expr) and isinstance(tree.body[0].value, ast.JoinedStr)
            and mods["core"].unparse(tree.body[0].value) == key)


def frestore_facts(mods, original_source, new_source, repl, out):
    """Inputs of RestoreModel.frestore for one real call of _substitute_original_fstrings."""
    core = mods["core"]
    try:
        new_ast, orig_ast = core.parse(new_source), core.parse(original_source)
    except SyntaxError:
        return None
    keys, texts = {}, {}

    def kid(k):
        return keys.setdefault(k, len(keys))

    def tid(s):
        return texts.setdefault(s, len(texts))
    origs = []
    for n in core.walk(orig_ast, ast.JoinedStr):
        code = core.get_code(n, original_source)
        origs.append((kid(core.unparse(n)), tid(code), valid(code)))
    news, obs = [], []
    for n in core.walk(new_ast, ast.JoinedStr):
        code, key = core.get_code(n, new_source), core.unparse(n)
        news.append((kid(key), tid(code), valid(code), _is_fstring_of(mods, code, key)))
        r = (repl or {}).get(n)
        obs.append([] if r is None else [tid(str(r))])
    return {"origs": origs, "news": news, "obs": obs, "original": original_source, "new": new_source, "out": out,
            "replaced": sum(1 for o in obs if o)}


def frestore_case(f) -> str:
    def trip(x):
        return f"({x[0]}, {x[1]}, {gbool(x[2])})"

    def quad(x):
        return f"({x[0]}, {x[1]}, {gbool(x[2])}, {gbool(x[3])})"
    return f"({glist(f['origs'], trip)}, {glist(f['news'], quad)}, {glist(f['obs'], glist)})"


# ------------------------------------------------------------------------------------------------
# fix_line_lengths' dedent / re-indent frame (fixes.py:345-358)


def semicolon_family():
    """Deterministic module family: a statement that follows another on the same line after `;` (its range
    starts with blanks) and holds a multi-line literal whose inner lines are indented LESS than those blanks
    (flush-left text), at module level and nested, plus nested statements whose literal lines are indented
    less than the statement."""
    res = []
    bodies = ["\n== report ==\n", "usage:\nprog [options]\n\n  -h  help\n", "\n    line one\n\n  line two\n    ",
              "a\n b\n  c\nd"]
    k = 0
    for body in bodies:
        for pre in ("", "r", "f", "b", "Rb", "F"):
            for gap in (" ", "   ", "      "):
                for q in ('"""', "'''"):
                    k += 1
                    if (k % 3) and pre not in ("", "f"):
                        continue
                    b = body + ("{A%d}" % k if "f" in pre.lower() else "")
                    lit = f"{pre}{q}{b}{q}"
                    res.append(f"import sys\n\nW = sys.argv\nprint(W)\nA{k} = 3;{gap}S{k} = {lit}\nprint(A{k}, S{k})\n")
                    if k % 4 == 0:
                        res.append(f"import sys\n\nW = sys.argv\nprint(W)\nA{k} = 3;{gap}print(W, {lit});{gap}B{k} = {lit}\n"
                                   f"print(A{k}, B{k})\n")
                    if k % 5 == 0:
                        res.append(f"import sys\n\nW = sys.argv\nprint(W)\n\n\ndef _f{k}(a):\n    b = a;{gap}c = {lit}\n"
                                   f"    if a:\n        print(a);{gap}print({lit})\n    return [a, b, c]\n\n\nprint(_f{k}(W))\n")
    return res
