"""C16 -- Code is treated as unreachable or pointless only when it really is (kernel K5)."""
from __future__ import annotations

import ast
import itertools
import json
import random
import textwrap
from collections import Counter
from pathlib import Path

from . import common
from .common import glist, gbool

PID = "C16"

LEAVES = [("pass",), ("call",), ("return",), ("raise",), ("break",), ("continue",)]
TESTS = ["TTrue", "TFalse", "TUnknown"]
ITERS = ["IEmpty", "INonEmpty", "IUnknown"]
TEST_TXT = {"TTrue": "True", "TFalse": "0", "TUnknown": "c()"}
ITER_TXT = {"IEmpty": "[]", "INonEmpty": "[1, 2]", "IUnknown": "it()"}
PAT_TXT = {"PatOpaque": "K()", "PatWild": "_"}

# ---------------------------------------------------------------------------------------------
# statement terms:
# ("pass",) ("call",) ("return",) ("raise",) ("break",) ("continue",) ("assert", t)
# ("if", t, body, orelse) ("while", t, body, orelse) ("for", it, body, orelse) ("with", body)
# ("try", body, [handler bodies], orelse, final) ("def", body)
# ("match", [(pattern, guard, body) ...])  pattern "PatOpaque" (may or may not match: printed as a class pattern
#   whose isinstance test is drawn from the script) | "PatWild" (`_`); guard None | a test tag


def s_text(s, ind=0, tick=False) -> str:
    p = "    " * ind
    k = s[0]

    def blk(b, loop=False, extra=0):
        lines = ""
        if loop and tick:
            lines += "    " * (ind + 1) + "tick()\n"
        if not b:
            return lines + "    " * (ind + 1 + extra) + "pass\n" if not lines else lines
        return lines + "".join(s_text(x, ind + 1 + extra, tick) for x in b)

    if k == "pass":
        return p + "pass\n"
    if k == "call":
        return p + "g()\n"
    if k == "return":
        return p + "return 1\n"
    if k == "raise":
        return p + "raise E()\n"
    if k == "break":
        return p + "break\n"
    if k == "continue":
        return p + "continue\n"
    if k == "assert":
        return p + f"assert {TEST_TXT[s[1]]}\n"
    if k == "if":
        out = p + f"if {TEST_TXT[s[1]]}:\n" + blk(s[2])
        if s[3]:
            out += p + "else:\n" + blk(s[3])
        return out
    if k == "while":
        out = p + f"while {TEST_TXT[s[1]]}:\n" + blk(s[2], loop=True)
        if s[3]:
            out += p + "else:\n" + blk(s[3])
        return out
    if k == "for":
        it_txt = ITER_TXT[s[1]] if isinstance(s[1], str) else x_text(s[1][1])
        out = p + f"for _x in {it_txt}:\n" + blk(s[2], loop=True)
        if s[3]:
            out += p + "else:\n" + blk(s[3])
        return out
    if k == "with":
        return p + "with cm():\n" + blk(s[1])
    if k == "try":
        out = p + "try:\n" + blk(s[1])
        for h in s[2]:
            out += p + "except E:\n" + blk(h)
        if s[3]:
            out += p + "else:\n" + blk(s[3])
        if s[4] or not s[2]:
            out += p + "finally:\n" + blk(s[4])
        return out
    if k == "def":
        return p + "def h():\n" + blk(s[1])
    if k == "match":
        out = p + "match m():\n"
        for pat, g, b in s[1]:
            out += (p + "    case " + PAT_TXT[pat] + ("" if g is None else f" if {TEST_TXT[g]}") + ":\n"
                    + blk(b, extra=1))
        return out
    raise ValueError(s)


def s_coq(s) -> str:
    k = s[0]
    B = lambda b: glist(b, s_coq)  # noqa
    if k in ("pass", "call", "return", "raise", "break", "continue"):
        return {"pass": "SPass", "call": "SCall", "return": "SReturn", "raise": "SRaise", "break": "SBreak",
                "continue": "SContinue"}[k]
    if k == "assert":
        return f"(SAssert {s[1]})"
    if k == "if":
        return f"(SIf {s[1]} {B(s[2])} {B(s[3])})"
    if k == "while":
        return f"(SWhile {s[1]} {B(s[2])} {B(s[3])})"
    if k == "for":
        it = s[1] if isinstance(s[1], str) else f"(classify {x_coq(s[1][1])})"
        return f"(SFor {it} {B(s[2])} {B(s[3])})"
    if k == "with":
        return f"(SWith {B(s[1])})"
    if k == "try":
        return f"(STry {B(s[1])} {glist(s[2], B)} {B(s[3])} {B(s[4])})"
    if k == "def":
        return f"(SDef {B(s[1])})"
    if k == "match":
        return "(SMatch " + glist(s[1], lambda c: f"({c[0]}, {'MGNone' if c[1] is None else '(MGIf ' + c[1] + ')'}, "
                                                  f"{B(c[2])})") + ")"
    raise ValueError(s)


def valid_try(s):
    # `else` needs a handler; a try needs a handler or a finally (the printer adds an empty finally)
    return not (s[3] and not s[2])


# ---------------------------------------------------------------------------------------------
# iterable expressions of `for` loops (IterModel.v): the iterable of a ("for", it, body, orelse) term is either
# one of the three abstract tags above or ("x", term) with term one of
#   ("lit", "list"|"tuple"|"set"|"str", [items])  ("range", [ints])  ("zip", [terms])  ("opaque",)
#   ("enumerate"|"reversed"|"sorted"|"list"|"tuple"|"set"|"iter", term)


def x_text(x) -> str:
    k = x[0]
    if k == "lit":
        items = x[2]
        if x[1] == "str":
            return repr("".join(items))
        body = ", ".join(repr(i) for i in items)
        if x[1] == "list":
            return "[" + body + "]"
        if x[1] == "set":
            assert items
            return "{" + body + "}"
        return "(" + body + ("," if len(items) == 1 else "") + ")"
    if k == "range":
        return "range(" + ", ".join(str(i) for i in x[1]) + ")"
    if k == "zip":
        return "zip(" + ", ".join(x_text(e) for e in x[1]) + ")"
    if k == "opaque":
        return "it()"
    return f"{k}({x_text(x[1])})"


def v_coq(v) -> str:
    if isinstance(v, bool):
        raise ValueError(v)
    if isinstance(v, int):
        return f"(VInt {common.gz(v)})"
    if isinstance(v, str) and len(v) == 1:
        return f"(VChr {ord(v)})"
    if isinstance(v, tuple):
        out = "VUnit"
        for e in reversed(v):
            out = f"(VPair {v_coq(e)} {out})"
        return out
    raise ValueError(v)


def x_coq(x) -> str:
    k = x[0]
    if k == "lit":
        kind = {"list": "KList", "tuple": "KTuple", "set": "KSet", "str": "KStr"}[x[1]]
        return f"(XLit {kind} {glist(x[2], v_coq)})"
    if k == "range":
        return f"(XRange {glist(x[1], common.gz)})"
    if k == "zip":
        if len(x[1]) == 0:
            return "XZip0"
        if len(x[1]) == 1:
            return f"(XZip1 {x_coq(x[1][0])})"
        return f"(XZip2 {x_coq(x[1][0])} {x_coq(x[1][1])})"
    if k == "opaque":
        return "XOpaque"
    return "(X" + k.capitalize() + " " + x_coq(x[1]) + ")"


X_BASES = [("lit", "list", []), ("lit", "list", [1]), ("lit", "list", [2, 1]), ("lit", "tuple", []),
           ("lit", "tuple", [1, 2]), ("lit", "str", []), ("lit", "str", ["a", "b"]), ("lit", "set", [1, 2]),
           ("lit", "set", [3, 3]), ("lit", "list", ["b", "a"]),
           ("range", [0]), ("range", [2]), ("range", [0, 0]), ("range", [1, 3]), ("range", [3, 1]),
           ("range", [3, 1, -1]), ("range", [0, 4, 0]), ("range", [0, 5, 2]), ("range", [1, 2, 3, 4]),
           ("zip", []), ("opaque",)]
X_PARTNERS = [("lit", "list", []), ("lit", "tuple", [1, 2]), ("range", [0]), ("lit", "str", ["a", "b"])]
X_WRAPPERS = ["enumerate", "reversed", "sorted", "list", "tuple", "set", "iter"]


def int_items(x) -> bool:
    """items are small non-negative ints (the only sets whose iteration order the model commits to)"""
    k = x[0]
    if k == "lit":
        return all(isinstance(i, int) for i in x[2])
    if k == "range":
        return len(x[1]) in (1, 2, 3) and all(0 <= i < 8 for i in x[1][:2])
    if k in ("reversed", "sorted", "list", "tuple", "set", "iter"):
        return int_items(x[1])
    return False


def x_wrap(x):
    for w in X_WRAPPERS:
        if w == "set" and not int_items(x):
            continue
        yield (w, x)
    yield ("zip", [x])
    for p in X_PARTNERS:
        yield ("zip", [x, p])
        yield ("zip", [p, x])


def x_terms(depth2_bases):
    out = list(X_BASES)
    d1 = [w for b in X_BASES for w in x_wrap(b)]
    out += d1
    for b in depth2_bases:
        for w1 in x_wrap(b):
            out += list(x_wrap(w1))
    seen, res = set(), []
    for x in out:
        key = x_text(x)
        if key not in seen:
            seen.add(key)
            res.append(x)
    return res


def iter_shapes(run):
    """`for` loops over every iterable form, empty and non-empty, with returning / raising bodies"""
    d2 = [("lit", "list", []), ("lit", "tuple", [1, 2]), ("lit", "str", []), ("range", [0]), ("range", [1, 3]),
          ("lit", "set", [1, 2])]
    xs = x_terms(d2)
    bodies = [[("return",)], [("raise",)], [("call",), ("return",)], [("pass",)], [("if", "TUnknown", [("break",)], []), ("return",)]]
    shapes = []
    for i, x in enumerate(xs):
        deep = x[0] not in ("lit", "range", "opaque") and len(x_text(x)) > 28
        for j, b in enumerate(bodies):
            if deep and j > 1:
                continue
            shapes.append(("for", ("x", x), b, [("call",)] if (i + j) % 3 == 0 else []))
    return xs, shapes


def check_elements(wd, xs):
    """CPython validation of IterModel.elements: list(<expression>) evaluated by the interpreter"""
    cases = []
    for x in xs:
        txt = x_text(x)
        try:
            val = list(eval(txt, {"it": lambda: (_ for _ in ()).throw(NameError("it"))}))  # noqa: S307
            exp = "(Some " + glist(val, v_coq) + ")"
        except Exception:  # noqa
            exp = "None"
        cases.append((txt, f"({x_coq(x)}, {exp})"))
    files = []
    for k in range(0, len(cases), 500):
        p = wd / f"elems_{k // 500}.v"
        body = ";\n ".join(c for _, c in cases[k:k + 500])
        p.write_text("From Coq Require Import List Bool ZArith.\nImport ListNotations.\n"
                     "Require Import Pyrefact.Base Pyrefact.FlowModel Pyrefact.IterModel.\nOpen Scope Z_scope.\n"
                     f"Definition cases : list (iterexp * option (list val)) := [\n {body}\n].\n"
                     "Eval vm_compute in (bad_idx elements_ok cases).\n")
        files.append(p)
    results = common.run_case_files(files)
    bad = []
    for n, p in enumerate(files):
        rc, txt = results[p]
        idx = common.parse_nat_list(txt) if rc == 0 else None
        if idx is None:
            raise RuntimeError(f"model evaluation failed for {p.name}: {txt[-1500:]}")
        bad += [cases[n * 500 + i][0] for i in idx]
    return bad


# ---------------------------------------------------------------------------------------------
# generators


def blocks(leaves, lo, hi):
    for n in range(lo, hi + 1):
        yield from (list(t) for t in itertools.product(leaves, repeat=n))


def depth1():
    L = LEAVES
    for t in TESTS:
        for b in blocks(L, 1, 2):
            for o in blocks(L, 0, 1):
                yield ("if", t, b, o)
                yield ("while", t, b, o)
    for it in ITERS:
        for b in blocks(L, 1, 2):
            for o in blocks(L, 0, 1):
                yield ("for", it, b, o)
    for b in blocks(L, 1, 2):
        yield ("with", b)
        yield ("def", b)
    for b in blocks(L, 1, 1):
        for h in blocks(L, 1, 1):
            for f in blocks(L, 0, 1):
                yield ("try", b, [h], [], f)
        for f in blocks(L, 1, 1):
            yield ("try", b, [], [], f)
    for t in TESTS:
        yield ("assert", t)
    yield from L


def loops_with_compound_child():
    """depth 2: constant-true while / non-empty for whose body is [compound child, optional leaf]"""
    L = LEAVES
    children = []
    for t in TESTS:
        for b in blocks(L, 1, 1):
            for o in blocks(L, 0, 1):
                children.append(("if", t, b, o))
    for b in blocks(L, 1, 1):
        children.append(("with", b))
        children.append(("try", b, [[("pass",)]], [], []))
        children.append(("try", b, [], [], [("pass",)]))
        for o in blocks(L, 0, 1):
            children.append(("for", "IUnknown", b, o))
            children.append(("while", "TTrue", b, o))
            children.append(("for", "INonEmpty", b, o))
    for ch in children:
        for tail in blocks(L, 0, 1):
            yield ("while", "TTrue", [ch] + tail, [])
            yield ("for", "INonEmpty", [ch] + tail, [])
            yield ("if", "TUnknown", [ch] + tail, [("raise",)])


# ---- match statements (seeded/C01-d): cases with break / continue / return / raise / pass / call bodies, with and
# without an irrefutable last case, alone, under every kind of loop, around loops, below if / with / try
OPQ, WILD = ("PatOpaque", None), ("PatWild", None)
CASE_KINDS = [OPQ, ("PatOpaque", "TUnknown"), WILD, ("PatWild", "TUnknown"), ("PatWild", "TTrue"), ("PatWild", "TFalse")]
KINDS_FIRST = [OPQ, ("PatOpaque", "TUnknown"), ("PatWild", "TUnknown"), ("PatWild", "TFalse")]
KINDS_LAST = [OPQ, WILD, ("PatWild", "TTrue")]
LEAVES5 = [("pass",), ("return",), ("raise",), ("break",), ("continue",)]


def mcase(kind, body):
    return (kind[0], kind[1], body)


def match_family():
    L = LEAVES
    out = []
    # (a) bare match statements
    one = [("match", [mcase(k, [x])]) for k in CASE_KINDS for x in L]
    two = [("match", [mcase(k1, [x]), mcase(k2, [y])]) for k1 in KINDS_FIRST for k2 in KINDS_LAST for x in L for y in L]
    three = [("match", [mcase(OPQ, [x]), mcase(OPQ, [y]), mcase(WILD, [z])])
             for x in LEAVES5[1:] for y in LEAVES5[1:] for z in LEAVES5[1:]]
    out += one + two + three
    # (b) a match statement as the first statement of every kind of loop
    inner = [("match", [mcase(k, [x])]) for k in (OPQ, WILD, ("PatWild", "TUnknown")) for x in L]
    inner += [("match", [mcase(k1, [x]), mcase(k2, [y])]) for k1 in (OPQ, ("PatWild", "TFalse")) for k2 in (OPQ, WILD)
              for x in LEAVES5 for y in LEAVES5]
    for m in inner:
        for tail in ([], [("return",)], [("call",)]):
            out.append(("while", "TTrue", [m] + tail, []))
            out.append(("while", "TUnknown", [m] + tail, []))
            out.append(("for", "INonEmpty", [m] + tail, []))
            out.append(("for", "IUnknown", [m] + tail, []))
    # (c) the other way round: a loop inside a case (its breaks are its own, those of its else clause are not)
    for lk, lt in (("while", "TTrue"), ("while", "TUnknown"), ("for", "INonEmpty"), ("for", "IUnknown")):
        for x in L:
            for o in ([], [("break",)], [("continue",)], [("pass",)]):
                loop = (lk, lt, [x], o)
                out.append(("match", [mcase(OPQ, [loop])]))
                out.append(("while", "TTrue", [("match", [mcase(OPQ, [loop])])], []))
                out.append(("while", "TTrue", [("match", [mcase(OPQ, [("pass",)]), mcase(WILD, [loop])])], []))
                out.append(("for", "INonEmpty", [("match", [mcase(OPQ, [loop])]), ("return",)], []))
    # (d) below if / with / try inside a loop; (e) match in match
    for k in (OPQ, WILD):
        for x in LEAVES5:
            m = ("match", [mcase(k, [x])])
            wrapped = [("if", "TUnknown", [m], []), ("if", "TUnknown", [("pass",)], [m]), ("with", [m]),
                       ("try", [m], [[("pass",)]], [], []), ("try", [("call",)], [[m]], [], []),
                       ("try", [("pass",)], [], [], [m]), ("match", [mcase(OPQ, [m])]),
                       ("match", [mcase(OPQ, [("pass",)]), mcase(WILD, [m])])]
            for w in wrapped:
                out.append(("while", "TTrue", [w], []))
                out.append(("for", "INonEmpty", [w, ("return",)], []))
    return out


# the minimal witnesses of seeded/C01-d (they run first in the end-to-end oracle)
MATCH_WITNESSES = [
    ("while", "TTrue", [("match", [mcase(OPQ, [("break",)])])], []),
    ("for", "INonEmpty", [("match", [mcase(OPQ, [("continue",)])]), ("return",)], []),
    ("while", "TTrue", [("call",), ("match", [mcase(OPQ, [("call",)]), mcase(WILD, [("break",)])])], []),
]


def has_match(s) -> bool:
    if isinstance(s, tuple):
        return s[0] == "match" or any(has_match(x) for x in s[1:])
    if isinstance(s, list):
        return any(has_match(x) for x in s)
    return False


def rand_stmt(rnd, depth):
    if depth <= 0 or rnd.random() < 0.3:
        r = rnd.random()
        if r < 0.1:
            return ("assert", rnd.choice(TESTS))
        return rnd.choice(LEAVES)

    def blk(lo=1, hi=3):
        return [rand_stmt(rnd, depth - 1) for _ in range(rnd.randint(lo, hi))]
    k = rnd.choice(["if", "if", "while", "while", "for", "for", "with", "try", "def", "match", "match"])
    if k == "match":
        n = rnd.randint(1, 3)
        cases = [mcase(rnd.choice(KINDS_FIRST), blk(1, 2)) for _ in range(n - 1)]
        return ("match", cases + [mcase(rnd.choice(KINDS_LAST + KINDS_FIRST), blk(1, 2))])
    if k == "if":
        return ("if", rnd.choice(TESTS), blk(), blk(0, 2))
    if k == "while":
        return ("while", rnd.choice(["TTrue", "TTrue", "TFalse", "TUnknown"]), blk(), blk(0, 1))
    if k == "for":
        return ("for", rnd.choice(["INonEmpty", "INonEmpty", "IEmpty", "IUnknown"]), blk(), blk(0, 1))
    if k == "with":
        return ("with", blk())
    if k == "def":
        return ("def", blk())
    hs = [blk(1, 2) for _ in range(rnd.randint(0, 2))]
    return ("try", blk(), hs, blk(0, 1) if hs else [], blk(0, 1))


# ---------------------------------------------------------------------------------------------
# implementation side


def impl_flags(mods, s):
    core = mods["core"]
    src = s_text(s)
    node = ast.parse(src).body[0]
    with common.quiet():
        res = [bool(core.is_blocking(node, None)), bool(core.is_blocking(node, ast.For)),
               bool(core.is_blocking(node, ast.While))]
        ml = getattr(core, "_may_leave_iteration", None)
        res.append(bool(ml(node)) if ml else None)
    return src, res


# ---------------------------------------------------------------------------------------------
# execution: explore every path of the instrumented statement (the quantifier of the property)


class _Exhausted(BaseException):
    pass


class _Diverge(BaseException):
    pass


class _E(Exception):
    pass


HARNESS = '''
def f():
    _i = 0
    for _w in (0, 1):
        _i += 1
        if _i == 2:
            return "C"
{body}
        return "N"
    return "B"
'''


def compiles(s) -> bool:
    """`break`/`continue` directly under a nested def (not in a loop of that def) do not compile."""
    try:
        compile(HARNESS.format(body=s_text(s, 2, tick=True)), "<stmt>", "exec")
        return True
    except SyntaxError:
        return False


def explore(s, suppress: bool, max_len=9, max_ticks=5):
    """Set of observed outcomes {'N','R','E','B','C'} over all scripts of the unknowns."""
    code = compile(HARNESS.format(body=s_text(s, 2, tick=True)), "<stmt>", "exec")
    seen = set()
    stack = [[]]
    runs = 0
    while stack:
        script = stack.pop()
        pos = [0]
        ticks = [0]

        def draw():
            if pos[0] >= len(script):
                raise _Exhausted()
            v = script[pos[0]]
            pos[0] += 1
            return v

        def c():
            return bool(draw())

        def g():
            if draw():
                raise _E()

        def it():
            return [0] * (draw() + draw())

        def tick():
            ticks[0] += 1
            if ticks[0] > max_ticks:
                raise _Diverge()

        class cm:
            def __enter__(self):
                return self

            def __exit__(self, et, ev, tb):
                if et is not None and issubclass(et, _E) and suppress:
                    return bool(draw())
                return False

        class _KM(type):
            def __instancecheck__(cls, inst):      # the opaque pattern `case K():` may or may not match
                return bool(draw())

        class K(metaclass=_KM):
            pass

        env = {"c": c, "g": g, "it": it, "tick": tick, "cm": cm, "E": _E, "K": K, "m": object}
        exec(code, env)
        runs += 1
        try:
            r = env["f"]()
            seen.add("R" if r == 1 else r)
        except _Exhausted:
            if len(script) < max_len:
                stack.append(script + [0])
                stack.append(script + [1])
        except _Diverge:
            pass
        except _E:
            seen.add("E")
        except (AssertionError, TypeError, ValueError):
            seen.add("E")        # incl. an iterable expression that raises when evaluated (range(0, 4, 0))
    return seen, runs


# ---------------------------------------------------------------------------------------------
# end-to-end: the statement inside a function, followed by an observable call, through
# fixes.delete_unreachable_code; both versions executed under every script of the unknowns

E2E = '''
def f():
    for _w in (0, 1):
{body}
        after()
    return 7
'''


def behaviours(src, suppress: bool, max_len=8, max_ticks=4):
    """set of (calls observed, result) over all scripts; None when the source does not compile"""
    try:
        code = compile(src, "<prog>", "exec")
    except SyntaxError:
        return None
    seen = set()
    stack = [[]]
    while stack:
        script = stack.pop()
        pos = [0]
        ticks = [0]
        log = []

        def draw():
            if pos[0] >= len(script):
                raise _Exhausted()
            v = script[pos[0]]
            pos[0] += 1
            return v

        def c():
            return bool(draw())

        def g():
            log.append("g")
            if draw():
                raise _E()

        def it():
            return [0] * (draw() + draw())

        def tick():
            ticks[0] += 1
            if ticks[0] > max_ticks:
                raise _Diverge()

        def after():
            log.append("after")

        class cm:
            def __enter__(self):
                return self

            def __exit__(self, et, ev, tb):
                if et is not None and issubclass(et, _E) and suppress:
                    return bool(draw())
                return False

        class _KM(type):
            def __instancecheck__(cls, inst):
                return bool(draw())

        class K(metaclass=_KM):
            pass

        env = {"c": c, "g": g, "it": it, "tick": tick, "cm": cm, "E": _E, "after": after, "K": K, "m": object}
        exec(code, env)
        try:
            r = env["f"]()
            seen.add((tuple(log), repr(r)))
        except _Exhausted:
            if len(script) < max_len:
                stack.append(script + [0])
                stack.append(script + [1])
        except _Diverge:
            pass
        except (_E, AssertionError, TypeError, ValueError):
            seen.add((tuple(log), "E"))
    return seen


def has_with(s) -> bool:
    if isinstance(s, tuple):
        return s[0] == "with" or any(has_with(x) for x in s[1:])
    if isinstance(s, list):
        return any(has_with(x) for x in s)
    return False


# witnesses of the repaired defects F16-1, F16-3, F16-4, F16-14 (they must keep their behaviour from now on)
FIXED_FLOW_WITNESSES = [
    ("while", "TUnknown", [("return",)], []),
    ("while", "TTrue", [("if", "TUnknown", [("break",)], []), ("return",)], []),
    ("while", "TTrue", [("try", [("break",)], [[("pass",)]], [], [])], []),
    ("if", "TTrue", [("call",)], [("call",), ("return",)]),
    ("if", "TFalse", [("return",)], [("call",)]),
    ("while", "TFalse", [("call",)], [("raise",)]),
    ("while", "TFalse", [("raise",)], [("return",)]),
    ("while", "TFalse", [("call",)], []),
]


# loops that run zero times over an iterator object (enumerate / zip / reversed are truthy when empty)
FIXED_ITER_WITNESSES = [
    ("for", ("x", ("enumerate", ("lit", "tuple", []))), [("return",)], []),
    ("for", ("x", ("reversed", ("lit", "list", []))), [("raise",)], []),
    ("for", ("x", ("zip", [("lit", "str", ["a", "b"]), ("range", [0])])), [("return",)], []),
    ("for", ("x", ("zip", [("lit", "tuple", []), ("range", [2])])), [("return",)], [("call",)]),
    ("for", ("x", ("zip", [])), [("return",)], []),
    ("for", ("x", ("enumerate", ("lit", "list", [1]))), [("return",)], []),
]


def has_const_test(s) -> bool:
    """an if / while with a literal test: delete_unreachable_code removes the dead branch / loop"""
    if isinstance(s, tuple):
        if s[0] in ("if", "while") and s[1] in ("TTrue", "TFalse"):
            return True
        return any(has_const_test(x) for x in s[1:])
    if isinstance(s, list):
        return any(has_const_test(x) for x in s)
    return False


def flow_end_to_end(run, mods, shapes):
    fixes, core = mods["fixes"], mods["core"]
    fails, known, n, n_rw = [], [], 0, 0
    for s in shapes:
        src = E2E.format(body=s_text(s, 2, tick=True))
        core.parse.cache_clear()
        with common.quiet():
            try:
                out = fixes.delete_unreachable_code(src)
            except Exception as exc:  # noqa
                fails.append({"stmt": src, "problem": f"delete_unreachable_code raised {type(exc).__name__}: {exc}"})
                continue
        n += 1
        if out == src:
            continue
        n_rw += 1
        for sup in (False, True):
            if sup and not has_with(s):
                continue
            b1, b2 = behaviours(src, sup), behaviours(out, sup)
            if b2 is None:
                fails.append({"stmt": src, "after": out, "problem": "output does not compile"})
                break
            if b1 != b2:
                rec = {"stmt": src, "after": out, "suppress": sup,
                       "only_before": sorted(map(repr, b1 - b2))[:3], "only_after": sorted(map(repr, b2 - b1))[:3]}
                (known if sup else fails).append(rec)
                break
    return fails, known, n, n_rw


# ---------------------------------------------------------------------------------------------
# correspondence for the consumers: which statements fixes.delete_unreachable_code yields


BLOCK_POOL = LEAVES + [
    ("assert", "TFalse"), ("assert", "TUnknown"),
    ("if", "TUnknown", [("return",)], [("raise",)]), ("if", "TUnknown", [("return",)], []),
    ("if", "TTrue", [("return",)], [("call",)]), ("if", "TFalse", [("return",)], [("call",)]),
    ("while", "TTrue", [("call",)], []), ("while", "TUnknown", [("return",)], []),
    ("while", "TTrue", [("if", "TUnknown", [("break",)], [])], []),
    ("for", "INonEmpty", [("return",)], []), ("for", "IEmpty", [("return",)], []),
    ("with", [("raise",)]), ("try", [("return",)], [], [], [("pass",)]),
    ("while", "TTrue", [("match", [mcase(OPQ, [("break",)])])], []),
    ("while", "TTrue", [("match", [mcase(OPQ, [("return",)]), mcase(WILD, [("call",)])])], []),
    ("for", "INonEmpty", [("match", [mcase(WILD, [("continue",)])]), ("return",)], []),
    ("for", "INonEmpty", [("match", [mcase(OPQ, [("call",)])]), ("return",)], []),
    ("match", [mcase(OPQ, [("return",)]), mcase(WILD, [("raise",)])]),
]


def unreachable_cases(run):
    bodies = [list(b) for b in itertools.product(BLOCK_POOL, repeat=2)]
    triples = [list(b) for b in itertools.product(BLOCK_POOL, repeat=3)]
    bodies += triples if run.tier == "thorough" else triples[::11]
    return bodies


def check_consumers(run, mods, wd):
    """fixes.delete_unreachable_code (its generator) vs FlowModel.unreachable_from / dead_const"""
    fixes, core = mods["fixes"], mods["core"]
    gen = fixes.delete_unreachable_code._fix_func
    bodies = unreachable_cases(run)
    consts = [s for s in depth1() if s[0] in ("if", "while")]
    impl_a, impl_b = [], []
    for body in bodies:
        src = "def f():\n" + "".join(s_text(s, 1) for s in body)
        core.parse.cache_clear()
        with common.quiet():
            yielded = {id(n) for n, *_ in gen(src)}
        fbody = core.parse(src).body[0].body
        impl_a.append((src, [i for i, n in enumerate(fbody) if id(n) in yielded]))
    for s in consts:
        src = s_text(s)
        core.parse.cache_clear()
        with common.quiet():
            yielded = {id(n) for n, *_ in gen(src)}
        node = core.parse(src).body[0]
        b = [id(n) in yielded for n in node.body]
        o = [id(n) in yielded for n in node.orelse]
        if id(node) in yielded and not any(b) and not any(o):
            code = 1
        elif all(b) and not any(o) and id(node) not in yielded:
            code = 2
        elif o and all(o) and not any(b) and id(node) not in yielded:
            code = 3
        elif not any(b) and not any(o) and id(node) not in yielded:
            code = 0
        else:
            code = 9
        impl_b.append((src, code))
    p = wd / "consumers.v"
    p.write_text("From Coq Require Import List Bool.\nImport ListNotations.\n"
                 "Require Import Pyrefact.Base Pyrefact.FlowModel.\n"
                 "Definition bodies : list (list stmt) := [\n " + ";\n ".join(glist(b, s_coq) for b in bodies) + "\n].\n"
                 "Definition consts : list stmt := [\n " + ";\n ".join(s_coq(s) for s in consts) + "\n].\n"
                 "Eval vm_compute in (map (fun b => length (unreachable_from b)) bodies ++ "
                 "map (fun s => dead_code (dead_const s)) consts).\n")
    rc, txt = common.run_case_files([p])[p]
    nums = common.parse_nat_list(txt) if rc == 0 else None
    if nums is None or len(nums) != len(bodies) + len(consts):
        raise RuntimeError(f"model evaluation failed for {p.name}: {txt[-1500:]}")
    bad = []
    for (src, idx), body, k in zip(impl_a, bodies, nums):
        want = list(range(len(body) - k, len(body)))
        if idx != want:
            bad.append({"stmt": src, "fn": "delete_unreachable_code / _iter_unreachable_nodes",
                        "impl": idx, "model": want})
    for (src, code), k in zip(impl_b, nums[len(bodies):]):
        # `if True:` with an empty else: the model says "children of the else branch" and there are none
        if code != k and not (k == 3 and code == 0 and "else:" not in src):
            bad.append({"stmt": src, "fn": "delete_unreachable_code (literal test)", "impl": code, "model": k})
    return bad, len(bodies), len(consts)


# ---------------------------------------------------------------------------------------------


def model_eval(wd, stmts, tag):
    """is_blocking/may_leave flags and outcomes (both suppress modes) computed by the model."""
    files, shards = [], []
    SH = 600
    for k in range(0, len(stmts), SH):
        shard = stmts[k:k + SH]
        p = wd / f"{tag}_{k // SH}.v"
        body = ";\n ".join(s_coq(s) for s in shard)
        p.write_text("From Coq Require Import List Bool.\nImport ListNotations.\n"
                     "From Coq Require Import ZArith.\n"
                     "Require Import Pyrefact.Base Pyrefact.FlowModel Pyrefact.IterModel.\n"
                     f"Definition cases : list stmt := [\n {body}\n].\n"
                     "Definition bit (b : bool) : nat := if b then 1 else 0.\n"
                     "Definition enc (s : stmt) : list nat := map bit ([is_blocking s PNone; is_blocking s PFor; "
                     "is_blocking s PWhile; may_leave s] ++ outs_list (outcomes false s) ++ outs_list (outcomes true s)).\n"
                     "Eval vm_compute in (concat (map enc cases)).\n")
        files.append(p); shards.append(shard)
    results = common.run_case_files(files)
    out = []
    for p, shard in zip(files, shards):
        rc, txt = results[p]
        bits = common.parse_nat_list(txt) if rc == 0 else None
        if bits is None or len(bits) != 14 * len(shard):
            raise RuntimeError(f"model evaluation failed for {p.name}: {txt[-800:]}")
        for i in range(len(shard)):
            b = [bool(x) for x in bits[14 * i:14 * i + 14]]
            out.append({"flags": b[:4], "outs0": b[4:9], "outs1": b[9:14]})
    return out


OUT_NAMES = ["N", "R", "E", "B", "C"]


def check(run: common.Run):
    wd = common.workdir(PID)
    ps = common.proof_step(run, PID, wd)
    mods = common.import_impl()
    rnd = random.Random(run.seed)

    xs, xshapes = iter_shapes(run)
    mshapes = [s for s in match_family() if compiles(s)]
    stmts = [s for s in itertools.chain(depth1(), loops_with_compound_child(), xshapes) if compiles(s)]
    stmts = MATCH_WITNESSES + mshapes + stmts
    n_exh = len(stmts)
    elements_bad = check_elements(wd, xs)
    nrand = 3000 if run.tier == "quick" else 40000
    for _ in range(nrand):
        s = rand_stmt(rnd, rnd.choice([2, 2, 3]))
        if s[0] in ("pass", "call", "return", "raise", "break", "continue", "assert") or not compiles(s):
            continue
        stmts.append(s)
    hist = Counter(s[0] for s in stmts)
    hist["for-over-iterable-expression"] = len(xshapes)
    hist["match-family"] = len(mshapes)
    hist["with-match-statement"] = sum(1 for s in stmts if has_match(s))

    model = model_eval(wd, stmts, "flow")
    disagreements, sem_bad, prop_fail, known_hits = [], [], [], []
    flag_diff, judged_blocking = [], []      # shapes for the failing-input search / the match family's e2e sweep
    distinct = set()
    n_exec = 0
    imprecise = 0
    # execution is the expensive part: all exhaustive shapes + a slice of the random ones
    exec_budget = n_exh + (600 if run.tier == "quick" else 8000)
    for idx, (s, m) in enumerate(zip(stmts, model)):
        src, flags = impl_flags(mods, s)
        if flags[3] is None:
            disagreements.append({"stmt": src, "problem": "core._may_leave_iteration is missing"})
            flags_cmp = flags[:3] + [m["flags"][3]]
        else:
            flags_cmp = flags
        if flags_cmp != m["flags"]:
            disagreements.append({"stmt": src, "impl": flags, "model": m["flags"]})
            if flags_cmp[:3] != m["flags"][:3] and len(flag_diff) < 80:
                flag_diff.append(s)
        elif idx < len(MATCH_WITNESSES) + len(mshapes) and any(flags[:3]):
            judged_blocking.append(s)
        if flags[0] or flags[1] or flags[2]:
            distinct.add(src)
        if idx >= exec_budget:
            continue
        obs0, r0 = explore(s, suppress=False)
        obs1, r1 = explore(s, suppress=True) if "cm()" in src else (obs0, 0)
        n_exec += r0 + r1
        for obs, key in ((obs0, "outs0"), (obs1, "outs1")):
            allowed = {n for n, b in zip(OUT_NAMES, m[key]) if b}
            if not obs <= allowed:
                sem_bad.append({"stmt": src, "observed": sorted(obs), "model": sorted(allowed), "mode": key})
            if "N" in allowed and "N" not in obs:
                imprecise += 1
        # the property itself, on the real implementation
        if flags[0] and "N" in obs0:
            prop_fail.append({"stmt": src, "observed": sorted(obs0), "term": s})
        elif flags[0] and "N" in obs1:
            known_hits.append({"stmt": src, "observed": sorted(obs1)})

    # ---- end to end through delete_unreachable_code (deterministic slice of the exhaustive shapes)
    cand = [s for s, m in zip(stmts[:n_exh], model[:n_exh]) if any(m["flags"][:3]) or has_const_test(s)]
    step = 13 if run.tier == "quick" else 1
    xcand = [s for s in xshapes if s[2] in ([("return",)], [("raise",)])]
    xcand = FIXED_ITER_WITNESSES + (xcand[::5] if run.tier == "quick" else xcand)
    # the match family: every loop shape the implementation judges blocking (a third of them in the quick tier), and --
    # the failing-input search -- every shape on which implementation and model disagree about is_blocking
    mcand = MATCH_WITNESSES + flag_diff + (judged_blocking[::3] if run.tier == "quick" else judged_blocking)
    e2e_fail, e2e_known, n_e2e, n_e2e_rw = flow_end_to_end(
        run, mods, mcand + FIXED_FLOW_WITNESSES + xcand + cand[::step])
    known_hits += [{"stmt": k["stmt"], "observed": k["only_after"]} for k in e2e_known]

    cons_bad, n_cons_a, n_cons_b = check_consumers(run, mods, wd)
    disagreements += cons_bad

    # ---- known findings
    kf = common.load_findings(PID)
    for f in kf:
        if f.kind == "finding" and f.fields.get("sig") == "with_suppresses":
            if known_hits:
                run.known_finding(f.id, f"{f.text} [{len(known_hits)} shapes, e.g. {known_hits[0]['stmt']!r}]")
                known_hits = []
            else:
                common.log(f"note: known finding {f.id} no longer reproduces")

    # ---- verdicts
    for pf in prop_fail[:5]:
        run.violation({"kind": "property-oracle", "site": "core.is_blocking", **pf,
                       "explanation": "is_blocking(stmt) is True but an execution of the statement completes "
                                      "normally (the statement after it is reachable)"}, True)
    for ef in e2e_fail[:4]:
        run.violation({"kind": "property-oracle", "site": "fixes.delete_unreachable_code", **ef,
                       "explanation": "the function behaves differently after delete_unreachable_code (calls observed "
                                      "/ result, over every script of the unknown tests, iterables and calls)"}, True)
    for kh in known_hits[:3]:
        run.violation({"kind": "property-oracle", "site": "core.is_blocking", **kh,
                       "explanation": "blocking although a suppressing context manager lets execution continue; "
                                      "not a listed finding"}, True)
    if not prop_fail and not e2e_fail:
        for d in disagreements[:5]:
            run.violation({"kind": "correspondence", "kernel": "K5 FlowModel.is_blocking/may_leave", **d,
                           "explanation": "model and implementation disagree; no execution contradicting the "
                                          "implementation's verdict was found"}, False)
    for eb in elements_bad[:3]:
        run.violation({"kind": "semantics-validation", "kernel": "K5 IterModel.elements", "stmt": f"for _x in {eb}: pass",
                       "explanation": "list(<iterable expression>) evaluated by CPython differs from the reference "
                                      "semantics IterModel.elements (trusted definition)"}, False)
    for sb in sem_bad[:3]:
        run.violation({"kind": "semantics-validation", "kernel": "K5 FlowModel.outcomes", **sb,
                       "explanation": "CPython exhibits an outcome the reference semantics excludes: the semantics "
                                      "(trusted definition) is wrong"}, False)
    if ps.get("props") and not ps["props"]["ok"]:
        pr = ps["props"]
        run.violation({"kind": "proof", "file": pr["file"], "broken": pr.get("broken"), "log": pr["log"],
                       "explanation": "a property theorem no longer checks"}, False)

    run.coverage.update(
        evaluations=len(stmts), distinct_nontrivial=len(distinct), executions=n_exec,
        rule=("statement shapes: ALL depth-1 compound statements over the leaves {pass, call, return, raise, break, "
              "continue} with bodies of length 1-2 and else-blocks of length 0-1 (if/while x 3 tests, for x 3 "
              "iterables, with, try/except/finally, def), ALL loops/ifs whose body is [compound child, optional "
              "leaf], the match family (bare match statements of 1-3 cases with opaque / irrefutable patterns and "
              "absent / literal / unknown guards; a match as first statement of while True / while c / for literal / "
              "for unknown; loops inside cases; match below if / with / try / match inside a loop), "
              "plus seeded random trees of depth <=3. Each shape: core.is_blocking under parents "
              "None/For/While and core._may_leave_iteration vs the model; every path of the instrumented statement "
              "executed under CPython (scripts of the unknown tests/iterables/calls explored exhaustively up to 9 "
              "draws) and compared with FlowModel.outcomes. Non-trivial = judged blocking under some parent; "
              "distinct by source text."),
        samples=[s_text(stmts[0]), s_text(stmts[n_exh - 5]), s_text(stmts[-1])],
        exhaustive=False, exhaustive_part=n_exh, random_part=len(stmts) - n_exh, histogram=dict(hist),
        correspondence_disagreements=len(disagreements), semantics_violations=len(sem_bad),
        property_oracle_failures=len(prop_fail), model_imprecision_N=imprecise,
        unreachable_bodies=n_cons_a, literal_test_statements=n_cons_b, consumer_disagreements=len(cons_bad),
        iterable_expressions=len(xs), iterable_loop_shapes=len(xshapes), elements_mismatches=len(elements_bad),
        e2e_unreachable_cases=n_e2e, e2e_unreachable_rewritten=n_e2e_rw, e2e_unreachable_failures=len(e2e_fail),
        trusted_base=common.TRUSTED_BASE_COMMON + [
            "FlowModel.outcomes is a definition (reference semantics); validated on every run against CPython by "
            "exhaustive path exploration of each enumerated shape (observed outcomes must be allowed by it)",
            "tests are abstracted to literal-truthy / literal-falsy / unknown and iterables to empty / non-empty / "
            "unknown: the literal_value classification itself belongs to C15"],
    )
    run.assumptions += [
        "context managers are assumed not to swallow exceptions (tool's design; known finding F16-2)",
        "operators, attribute reads, subscripts and iteration of unknown objects are assumed free of side effects "
        "(tool's design); `_` is a throw-away name (documented convention of has_side_effect)",
        "evaluation errors of expressions (TypeError, NameError ...) are outside the property",
        "T16.4 holds under the guard `plain` (callees identifiable by name), T16.5 for distinct definition names: "
        "known findings F16-12, F16-13",
        "the whole-program claim 'deleting the statement preserves behaviour' is checked by the end-to-end execution "
        "oracle on enumerated inputs, not proved"]
    from . import c16_effects
    eff = c16_effects.check(run, mods, wd, rnd)
    cov = run.coverage
    cov["flow_evaluations"] = cov["evaluations"]
    cov["evaluations"] = (cov["evaluations"] + eff.get("hse_evaluations", 0) + eff.get("module_cases", 0)
                          + eff.get("semantics_cases", 0) + eff.get("e2e_cases", 0))
    cov["distinct_nontrivial"] = cov["distinct_nontrivial"] + eff.get("hse_no_side_effect_cases", 0)
    cov["rule"] += (" EFFECTS: core.has_side_effect vs EffectModel.hse on 46 sub-terms x single-hole expression / "
                    "statement contexts (complete) + two-level contexts (sharded in quick) + seeded random terms, each "
                    "under two whitelists; parsing.safe_callable_names and the deletion flags of "
                    "delete_pointless_statements vs the model on generated modules; EffectModel.exec validated against "
                    "CPython (logging stubs, all scripts of draws); before/after execution oracle. Non-trivial "
                    "(effects) = judged free of side effects; distinct by source text.")
    cov["samples"] = cov["samples"] + eff.get("samples", [])
    cov["trusted_base"] = cov["trusted_base"] + [
        "EffectModel.eval/exec (+ benign) is a definition (reference semantics); validated on every run against "
        "CPython: observed (trace, outcome) behaviours over all scripts must be among the model's over all oracles",
        "the split of a function body at its first blocking statement inside safe_callable_names is computed by the "
        "harness with the real core.is_blocking and handed to the model",
        "regenerated coq/generated/Tables.v (SAFE_CALLABLES) -- fail-closed dumper"]
    cov["unmodelled"] = ["try / match / async statements in has_side_effect (it answers True for them)",
                         "the traversal order of parsing.iter_bodies_recursive (only which bodies are visited matters)",
                         "other consumers of is_blocking / has_side_effect: remove_redundant_else, swap_if_else, "
                         "breakout_common_code_in_ifs, remove_dead_ifs, literal_value's precondition"]


def replay(path: str) -> int:
    """re-run one recorded case on the real code and re-evaluate the property's oracle"""
    data = json.loads(Path(path).read_text())
    mods = common.import_impl()
    keys = ("kind", "explanation", "site", "stmt", "case", "after", "observed", "only_before", "only_after", "impl",
            "model", "whitelist", "fn", "file", "broken")
    print(json.dumps({k: data[k] for k in keys if k in data}, indent=1))
    rc = 0
    if data.get("kind", "").startswith("proof"):
        wd = common.workdir(PID + "-replay")
        ok, blog = common.coq_build()
        pr = common.check_props(PID, wd) if ok else {"ok": False, "log": blog}
        print("proof obligations now:", "ok" if pr["ok"] else "BROKEN\n" + pr.get("log", "")[-2000:])
        return 0 if pr["ok"] else 1
    if "stmt" in data:
        src = data["stmt"]
        try:
            node = ast.parse(src).body[0]
            with common.quiet():
                print("is_blocking now:", bool(mods["core"].is_blocking(node)))
        except SyntaxError:
            pass
        if "term" in data and data.get("site") == "core.is_blocking":
            _, flags = impl_flags(mods, data["term"])
            obs, _ = explore(data["term"], suppress=False)
            print("is_blocking(None/For/While), _may_leave_iteration now:", flags, "-- outcomes observed:", sorted(obs))
            if flags[0] and "N" in obs:
                print("the statement judged impossible to get past completes normally: still failing")
                rc = 1
        if "def f():" in src:
            with common.quiet():
                out = mods["fixes"].delete_unreachable_code(src)
            b1, b2 = behaviours(src, bool(data.get("suppress"))), behaviours(out, bool(data.get("suppress")))
            same = b1 == b2
            print("delete_unreachable_code now gives:\n" + out)
            print("behaviours before/after", "agree" if same else "DIFFER: " + repr(sorted(map(repr, (b1 or set()) ^ (b2 or set())))[:4]))
            rc = 0 if same else 1
    if "case" in data:
        from . import c16_effects
        src = data["case"]
        if src.endswith("after()\n"):
            src = src[: -len("after()\n")]
        try:
            tree = ast.parse(src)
            with common.quiet():
                flags = [bool(mods["core"].has_side_effect(n, frozenset(mods["constants"].SAFE_CALLABLES) | {"g"}))
                         for n in tree.body]
            print("has_side_effect now (per top-level statement, whitelist SAFE_CALLABLES + g):", flags)
        except SyntaxError as exc:
            print("not parsable:", exc)
        r = c16_effects.search_failing_input(mods, src)
        if r:
            print("delete_pointless_statements changes the observable behaviour:")
            print(json.dumps({k: r[k] for k in ("after", "only_before", "only_after", "sigs")}, indent=1))
            rc = 1
        else:
            print("delete_pointless_statements: no observable difference found now")
    return rc
