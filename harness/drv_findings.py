"""Structural predicates (sig=...) of the known findings of C03 / C04 / C09 that stem from the round-4 hunt.
A failure is suppressed only if a `finding:` line of the property names the sig, its site equals the stage /
function the failure was bisected to, and the predicate holds on the input."""
from __future__ import annotations

import ast
import textwrap
import warnings

SYNTAX_ERRORS = ("SyntaxError", "IndentationError", "TabError")
EXOTIC_BREAKS = "\x0b\x0c\x1c\x1d\x1e\x85\u2028\u2029"


def _tree(src: str):
    for t in (src, textwrap.dedent(src.expandtabs(4))):
        try:
            with warnings.catch_warnings():
                warnings.simplefilter("ignore")
                return ast.parse(t)
        except (SyntaxError, ValueError, RecursionError):
            continue
    return None


def _walk(src):
    t = _tree(src)
    return list(ast.walk(t)) if t is not None else []


def has_oneline_compound(src: str) -> bool:
    """a compound statement whose body starts on the header line (`if x: stmt`)"""
    for n in _walk(src):
        for field in ("body", "orelse", "finalbody"):
            body = getattr(n, field, None)
            if isinstance(n, ast.stmt) and isinstance(body, list) and body and isinstance(body[0], ast.stmt):
                if field == "body" and body[0].lineno == n.lineno:
                    return True
                if field != "body" and any(b.lineno == body[0].lineno and b is not body[0] for b in body):
                    return True
    return False


def has_semicolon_line(src: str) -> bool:
    """two statements on one physical line"""
    seen = {}
    for n in _walk(src):
        if isinstance(n, ast.stmt):
            key = n.lineno
            if key in seen and seen[key] is not n and not any(n is c for c in ast.walk(seen[key])):
                return True
            seen.setdefault(key, n)
    return False


def _loop_bodies(src):
    for n in _walk(src):
        if isinstance(n, (ast.For, ast.While, ast.AsyncFor)):
            yield n


def has_yield_or_walrus_in_loop(src: str) -> bool:
    return any(isinstance(m, (ast.Yield, ast.YieldFrom, ast.NamedExpr, ast.Await)) for n in _loop_bodies(src) for m in ast.walk(n))


def has_global_in_loop(src: str) -> bool:
    return any(isinstance(m, (ast.Global, ast.Nonlocal)) for n in _loop_bodies(src) for m in ast.walk(n))


def has_nonlocal(src: str) -> bool:
    return any(isinstance(n, ast.Nonlocal) for n in _walk(src))


def has_decorated_scope_head(src: str) -> bool:
    """some scope (module / def / class body) starts with a decorated def or class"""
    for n in _walk(src):
        body = getattr(n, "body", None)
        if isinstance(body, list) and body and isinstance(body[0], (ast.FunctionDef, ast.AsyncFunctionDef, ast.ClassDef)) \
                and body[0].decorator_list:
            return True
    return False


def has_exotic_linebreak(src: str) -> bool:
    return any(c in src for c in EXOTIC_BREAKS)


def has_tab_indent(src: str) -> bool:
    return any(line[:1] == "\t" or line.lstrip(" ")[:1] == "\t" for line in src.split("\n") if line.strip())


def has_noniterable_for(src: str) -> bool:
    """a for loop / comprehension over a pure literal expression that is not a string or a display
    (`for x in 5`, `in None`, `in -1`, `in 10**3`): core.is_blocking evaluates and iterates it"""
    for n in _walk(src):
        it = getattr(n, "iter", None)
        if not isinstance(n, (ast.For, ast.comprehension)) or it is None:
            continue
        parts = list(ast.walk(it))
        if any(isinstance(m, (ast.Name, ast.Call, ast.Attribute, ast.Subscript, ast.List, ast.Tuple, ast.Set, ast.Dict,
                              ast.ListComp, ast.SetComp, ast.DictComp, ast.GeneratorExp, ast.JoinedStr)) for m in parts):
            continue
        consts = [m for m in parts if isinstance(m, ast.Constant)]
        if consts and not any(isinstance(m.value, (str, bytes)) for m in consts):
            return True
    return False


def has_duplicate_functions(src: str) -> bool:
    defs = [n for n in _walk(src) if isinstance(n, (ast.FunctionDef, ast.AsyncFunctionDef))]
    shapes = {}
    for d in defs:
        body = ast.dump(ast.Module(body=d.body, type_ignores=[])).replace(repr(d.name), "'@'")
        shapes.setdefault((ast.dump(d.args), body), []).append(d.name)
    return any(len(v) > 1 for v in shapes.values())


def multiline_first_statement(src: str) -> bool:
    """the first statement (docstring / __future__ import) spans several physical lines, or shares its line"""
    t = _tree(src)
    if t is None or not t.body:
        return False
    for st in t.body:
        is_doc = isinstance(st, ast.Expr) and isinstance(getattr(st, "value", None), ast.Constant) and isinstance(st.value.value, str)
        is_future = isinstance(st, ast.ImportFrom) and st.module == "__future__"
        if not (is_doc or is_future):
            break
        if st.end_lineno != st.lineno:
            return True
    return False


def long_alias_chain(src: str, links: int = 25) -> bool:
    """a straight-line block with more than `links` consecutive single-name assignments each reading the previous target"""
    for n in _walk(src):
        body = getattr(n, "body", None)
        if not isinstance(body, list):
            continue
        run, prev = 0, None
        for st in body:
            if isinstance(st, ast.Assign) and len(st.targets) == 1 and isinstance(st.targets[0], ast.Name) and \
                    (prev is None or any(isinstance(m, ast.Name) and m.id == prev for m in ast.walk(st.value))):
                run += 1
                prev = st.targets[0].id
                if run > links:
                    return True
            else:
                run, prev = 0, None
    return False


def range_step_symbolic(src: str) -> bool:
    for n in _walk(src):
        if isinstance(n, ast.Call) and isinstance(n.func, ast.Name) and n.func.id == "range" and len(n.args) == 3 \
                and any(not isinstance(a, ast.Constant) for a in n.args):
            return True
    return False


def _max_depth(src, kinds) -> int:
    t = _tree(src)
    if t is None:
        return 0

    def depth(n):
        d = max((depth(c) for c in ast.iter_child_nodes(n)), default=0)
        return d + (1 if isinstance(n, kinds) else 0)
    try:
        return depth(t)
    except RecursionError:
        return 10 ** 6


def nested_import_ifs(src: str) -> bool:
    return _max_depth(src, (ast.If,)) >= 4 and any(isinstance(n, ast.Import) for n in _walk(src))


# sig name -> predicate over the input text
INPUT_SIGS = {
    "oneline_compound_statement": has_oneline_compound,
    "semicolon_joined_statements": lambda s: has_semicolon_line(s) or has_oneline_compound(s),
    "yield_or_walrus_in_loop": has_yield_or_walrus_in_loop,
    "global_declared_in_loop": has_global_in_loop,
    "nonlocal_binding": has_nonlocal,
    "decorated_first_statement": has_decorated_scope_head,
    "exotic_linebreak_char": has_exotic_linebreak,
    "tab_indented_source": has_tab_indent,
    "noniterable_for_iterable": has_noniterable_for,
    "duplicate_recursive_functions": has_duplicate_functions,
    "multiline_first_statement": multiline_first_statement,
    "alias_chain_longer_than_25": long_alias_chain,
    "range_step_symbolic_bound": range_step_symbolic,
    "nested_import_ifs_deeper_than_4": nested_import_ifs,
    "call_nesting_deeper_than_50": lambda s_: _max_depth(s_, (ast.Call,)) > 50,
    "more_than_125_functions": lambda s_: sum(isinstance(n, ast.FunctionDef) for n in _walk(s_)) > 125,
    "assignment_chain_longer_than_125": lambda s_: long_alias_chain(s_, 125),
}


def match(findings, site_candidates, source: str):
    """first `finding:` whose site is one of the candidate sites (stage, innermost function, ...) and whose
    predicate holds on the input"""
    for f in findings:
        if f.kind != "finding":
            continue
        pred = INPUT_SIGS.get(f.fields.get("sig", ""))
        if pred is None or not (set(f.fields.get("site", "").split("|")) & set(site_candidates)):
            continue
        try:
            if pred(source):
                return f
        except Exception:  # noqa
            continue
    return None
